#!/bin/bash
# benrun.sh <patch> [ids...]: apply a trial change to the side worktree, run the checks of the side
# copy against it (all eighteen by default), undo it. Prints one line per check.
PATCH=$1; shift
IDS="$@"; [ -z "$IDS" ] && IDS="C01 C02 C03 C04 C05 C06 C07 C08 C09 C10 C11 C12 C13 C14 C15 C16 C17 C18"
git -C /tmp/repo-side checkout -q -- .
git -C /tmp/repo-side apply "$PATCH" || { echo "patch does not apply"; exit 2; }
trap 'git -C /tmp/repo-side checkout -q -- .' EXIT
cd /tmp/verif-side
for id in $IDS; do
  VERIF_REPO=/tmp/repo-side ./check $id 2>&1 | grep -v "^KNOWN-FINDING" | tail -1 | cut -c1-300
done
