#!/bin/bash
# pseedall.sh [K]: seedall.sh in K parallel shards. Each shard works in its own side copy of /verif
# (/tmp/vs-<k>) bound to its own scratch worktree of /repo (/tmp/rs-<k>), so /repo and /verif are
# not touched. One line per seeded change in /tmp/pseed-<k>.log: CAUGHT / CAUGHT-NO-INPUT / MISSED.
# pseedall.sh --remove deletes the side copies and worktrees.
K=${1:-3}
if [ "$1" = "--remove" ]; then
  for d in /tmp/rs-*; do [ -d "$d" ] && git -C /repo worktree remove --force $d; done
  git -C /repo worktree prune; rm -rf /tmp/vs-*; exit 0
fi
ls -d /verif/seeded/*/ | sort > /tmp/pseed-all.txt
for k in $(seq 1 $K); do
  mkdir -p /tmp/vs-$k
  rsync -a --delete --exclude build --exclude replays --exclude .git --exclude seeded /verif/ /tmp/vs-$k/
  [ -d /tmp/rs-$k ] || git -C /repo worktree add -q --detach /tmp/rs-$k HEAD
  git -C /tmp/rs-$k checkout -q -- .
  sed -i "s#=> /repo#=> /tmp/rs-$k#" /tmp/vs-$k/go/go.mod
  awk -v k=$k -v K=$K 'NR % K == k % K' /tmp/pseed-all.txt > /tmp/pseed-$k.list
  (
    cd /tmp/vs-$k
    while read d; do
      n=$(basename $d)
      id=$(python3 -c "import json;print(json.load(open('$d/meta.json'))['property'])")
      git -C /tmp/rs-$k checkout -q -- . ; git -C /tmp/rs-$k clean -fdq
      git -C /tmp/rs-$k apply $d/patch.diff || { echo "$n: PATCH DOES NOT APPLY"; continue; }
      out=$(VERIF_REPO=/tmp/rs-$k ./check $id 2>&1 | grep -v "^KNOWN-FINDING")
      git -C /tmp/rs-$k checkout -q -- . ; git -C /tmp/rs-$k clean -fdq
      if echo "$out" | grep "^VIOLATION" | grep -qv "no-failing-input-found$"; then echo "$n $id CAUGHT"
      elif echo "$out" | grep -q "^VIOLATION"; then echo "$n $id CAUGHT-NO-INPUT"
      elif echo "$out" | grep -q "^OK"; then echo "$n $id MISSED"
      else echo "$n $id ??? $(echo "$out" | tail -1)"; fi
    done < /tmp/pseed-$k.list
  ) > /tmp/pseed-$k.log 2>&1 &
done
wait
