#!/bin/bash
# seedrun.sh <patch> <check ids...>: apply a seeded change to /repo, run the checks, undo it.
PATCH=$1; shift
git -C /repo apply "$PATCH" || { echo "patch does not apply"; exit 2; }
trap 'git -C /repo checkout -- . ; git -C /repo status --short | grep -v "^??" | head -3' EXIT
cd /verif
for id in "$@"; do
  ./check $id 2>&1 | grep -v "^KNOWN-FINDING" | tail -2 | cut -c1-300
done
