#!/bin/bash
# seedrun.sh <patch> <check ids...>: apply a seeded change to /repo, run the checks, undo it.
# Evidence files written while the change is applied are NOT kept (evidence/ is restored).
PATCH=$1; shift
SAVE=$(mktemp -d)
cp -a /verif/evidence/. $SAVE/ 2>/dev/null
git -C /repo apply "$PATCH" || { echo "patch does not apply"; exit 2; }
trap 'git -C /repo checkout -- . ; git -C /repo status --short | grep -v "^??" | head -3; cp -a $SAVE/. /verif/evidence/; rm -rf $SAVE' EXIT
cd /verif
for id in "$@"; do
  ./check $id 2>&1 | grep -v "^KNOWN-FINDING" | tail -2 | cut -c1-300
done
