// Command racer stresses shared CharRecipe, WLRecipe, WordList and SFFunction values from many
// goroutines with no synchronisation, under the Go race detector (build with -race).
// Every result is also checked against its recipe. Usage: racer <seed> <seconds>
package main

import (
	crand "crypto/rand"
	"fmt"
	"os"
	"strconv"
	"strings"
	"sync"
	"sync/atomic"
	"time"
	"unicode/utf8"

	"go.1password.io/spg"
)

type rng struct{ s uint64 }

func (r *rng) next() uint64 {
	r.s += 0x9e3779b97f4a7c15
	z := r.s
	z = (z ^ (z >> 30)) * 0xbf58476d1ce4e5b9
	z = (z ^ (z >> 27)) * 0x94d049bb133111eb
	return z ^ (z >> 31)
}
func (r *rng) intn(n int) int { return int(r.next() % uint64(n)) }

var failures int64
var calls int64
var firstFailure atomic.Value

func fail(format string, a ...interface{}) {
	atomic.AddInt64(&failures, 1)
	firstFailure.CompareAndSwap(nil, fmt.Sprintf(format, a...))
}

// unsyncReader replaces crypto/rand.Reader for the stress run. The runtime's own reader does an
// atomic compare-and-swap on a package-level flag in every call; the race detector treats atomics
// as synchronisation, so two goroutines that each draw a random number between two conflicting
// accesses are ordered by it and the conflict goes unreported (the same masking effect a shared
// atomic counter in the worker loop had). This reader has no state at all: the bytes are a mix of
// the clock and the position, which is all a stress run needs.
type unsyncReader struct{}

func (unsyncReader) Read(b []byte) (int, error) {
	z := uint64(time.Now().UnixNano())
	if z&3 == 0 && len(b) == 4 {
		// every fourth word or so is all ones: rejected by every bound that is not a power of two,
		// so the redraw path is taken by several goroutines at once as well
		b[0], b[1], b[2], b[3] = 0xFF, 0xFF, 0xFF, 0xFF
		return 4, nil
	}
	for i := range b {
		z += 0x9e3779b97f4a7c15
		x := z
		x = (x ^ (x >> 30)) * 0xbf58476d1ce4e5b9
		x = (x ^ (x >> 27)) * 0x94d049bb133111eb
		b[i] = byte(x >> 33)
	}
	return len(b), nil
}

func main() {
	seed, _ := strconv.ParseUint(os.Args[1], 10, 64)
	secs, _ := strconv.Atoi(os.Args[2])
	g := &rng{s: seed}
	crand.Reader = unsyncReader{} // before any goroutine starts

	// shared values
	charRecipes := []*spg.CharRecipe{
		spg.NewCharRecipe(12),
		{Length: 24, Allow: spg.Letters, Require: spg.Digits, RequireSets: []string{"357", "!é"}, ExcludeChars: "l1"},
		{Length: 5, AllowChars: "abcé日", Require: spg.Symbols, Exclude: spg.Ambiguous},
		{Length: 30, Allow: spg.All, Require: spg.Uppers | spg.Lowers | spg.Digits | spg.Symbols},
	}
	words := []string{"once", "upon", "midnight", "dreary", "Polish", "polish", "été", "x-y", "one", "two"}
	wl, err := spg.NewWordList(words)
	if err != nil {
		fmt.Println("FAIL NewWordList:", err)
		os.Exit(1)
	}
	syl, _ := spg.NewWordList(spg.AgileSyllables)
	customSF := spg.NewSFFunction(spg.CharRecipe{Length: 2, Allow: spg.Digits | spg.Symbols, Exclude: spg.Ambiguous})
	seps := []spg.SFFunction{nil, spg.SFNone, spg.SFDigits1, spg.SFDigits2, spg.SFDigitsNoAmbiguous1, spg.SFDigitsNoAmbiguous2,
		spg.SFSymbols, spg.SFDigitsSymbols, customSF}
	var wlRecipes []*spg.WLRecipe
	for i, sf := range seps {
		list := wl
		if i%3 == 2 {
			list = syl
		}
		r := spg.NewWLRecipe(2+i%4, list)
		r.SeparatorFunc = sf
		r.SeparatorChar = "-"
		r.Capitalize = []spg.CapScheme{spg.CSNone, spg.CSFirst, spg.CSAll, spg.CSRandom, spg.CSOne}[i%5]
		wlRecipes = append(wlRecipes, r)
	}
	// one more shared recipe that no call has touched before the goroutines start (its reference
	// values come from a deep copy): an empty custom entry before non-empty ones, which is legal
	charRecipes = append(charRecipes, &spg.CharRecipe{Length: 14, Allow: spg.Lowers, RequireSets: []string{"", "12", "CD", "34"}})
	// a shared recipe with an EMPTY alphabet (everything allowed is excluded), first evaluated
	// concurrently; and a wordlist recipe whose separator function is built from it
	emptyRecipe := &spg.CharRecipe{Length: 5, Allow: spg.Digits, ExcludeChars: "0123456789"}
	emptySepRecipe := spg.NewWLRecipe(3, wl)
	emptySepRecipe.SeparatorFunc = spg.NewSFFunction(*emptyRecipe)
	// shared recipes that the pre-flight REFUSES (a single character cannot hold a digit and an
	// upper-case letter; two characters rarely hold a digit and a symbol): the refusal path, too,
	// is taken by several goroutines at once — directly and through a separator built from one
	refused := []*spg.CharRecipe{
		{Length: 1, Allow: spg.Lowers, Require: spg.Digits | spg.Uppers},
		{Length: 2, Allow: spg.All, Require: spg.Digits | spg.Symbols},
	}
	refusedSepRecipe := spg.NewWLRecipe(3, wl)
	refusedSepRecipe.SeparatorFunc = spg.NewSFFunction(*refused[1])
	// reference values computed before any concurrency, on deep copies
	alpha := make([]string, len(charRecipes))
	ent := make([]float32, len(charRecipes))
	for i, r := range charRecipes {
		c := *r
		c.RequireSets = append([]string(nil), r.RequireSets...)
		alpha[i] = c.Alphabet()
		ent[i] = c.Entropy()
	}
	wlEnt := make([]float32, len(wlRecipes))
	for i, r := range wlRecipes {
		wlEnt[i] = r.Entropy()
	}

	rounds := 6
	if secs > 20 {
		rounds = 40
	}
	firstUse(g, rounds)

	deadline := time.Now().Add(time.Duration(secs) * time.Second)
	var wg sync.WaitGroup
	workers := 8 + g.intn(9)
	start := make(chan struct{})
	for w := 0; w < workers; w++ {
		wg.Add(1)
		lg := &rng{s: g.next()}
		go func() {
			defer wg.Done()
			defer func() {
				if r := recover(); r != nil {
					fail("panic in worker: %v", r)
				}
			}()
			// All workers start together and begin with a sweep over every kind of call, the rare
			// paths (impossible recipes) first: at this point nothing orders one worker after
			// another, so whatever the library initialises or records on first use — also at
			// package level, where there is only one first use per process — is touched by
			// several goroutines with no happens-before edge between them.
			<-start
			_ = emptyRecipe.Entropy()
			_, _ = emptyRecipe.Generate()
			_ = emptyRecipe.Alphabet()
			_ = emptyRecipe.SuccessProbability()
			_, _ = emptySepRecipe.Generate()
			_ = emptySepRecipe.Entropy()
			refusals(refused, refusedSepRecipe)
			for i, r := range charRecipes {
				if a := r.Alphabet(); a != alpha[i] {
					fail("sweep: char recipe %d: Alphabet() %q vs %q", i, a, alpha[i])
				}
				if e := r.Entropy(); e != ent[i] {
					fail("sweep: char recipe %d: Entropy() %v vs %v", i, e, ent[i])
				}
				_ = r.SuccessProbability()
				if p, err := r.Generate(); err != nil || p.Entropy != ent[i] {
					fail("sweep: char recipe %d: Generate: %v", i, err)
				}
			}
			for i, r := range wlRecipes {
				if e := r.Entropy(); e != wlEnt[i] {
					fail("sweep: wl recipe %d: Entropy() %v vs %v", i, e, wlEnt[i])
				}
				if p, err := r.Generate(); err != nil || p.Entropy != wlEnt[i] {
					fail("sweep: wl recipe %d: Generate: %v", i, err)
				}
			}
			// NOTE: no shared atomic or lock inside the loop — the race detector treats those as
			// synchronisation and they would order the workers' iterations, hiding races.
			local := int64(0)
			defer func() { atomic.AddInt64(&calls, local) }()
			for time.Now().Before(deadline) {
				local++
				if lg.intn(64) == 1 {
					refusals(refused, refusedSepRecipe)
					continue
				}
				if lg.intn(64) == 0 {
					// the impossible recipe: an error, never a password; the separator built from it is empty
					if p, err := emptyRecipe.Generate(); err == nil || p != nil {
						fail("empty-alphabet recipe returned a password")
					}
					_ = emptyRecipe.Entropy()
					if p, err := emptySepRecipe.Generate(); err != nil || len(p.Tokens().Separators()) != 0 {
						fail("wordlist recipe with an impossible separator recipe: %v", err)
					}
					continue
				}
				switch lg.intn(8) {
				case 0, 1:
					i := lg.intn(len(charRecipes))
					r := charRecipes[i]
					p, err := r.Generate()
					if err != nil {
						fail("char recipe %d: unexpected error %v", i, err)
						continue
					}
					s := p.String()
					if utf8.RuneCountInString(s) != r.Length {
						fail("char recipe %d: wrong length %q", i, s)
					}
					for _, c := range s {
						if !strings.ContainsRune(alpha[i], c) {
							fail("char recipe %d: %q has a character outside the alphabet", i, s)
						}
					}
					if p.Entropy != ent[i] {
						fail("char recipe %d: password entropy %v, recipe %v", i, p.Entropy, ent[i])
					}
				case 2:
					i := lg.intn(len(charRecipes))
					if a := charRecipes[i].Alphabet(); a != alpha[i] {
						fail("char recipe %d: Alphabet() changed: %q vs %q", i, a, alpha[i])
					}
				case 3:
					i := lg.intn(len(charRecipes))
					if e := charRecipes[i].Entropy(); e != ent[i] {
						fail("char recipe %d: Entropy() changed: %v vs %v", i, e, ent[i])
					}
					_ = charRecipes[i].SuccessProbability()
				case 4, 5:
					i := lg.intn(len(wlRecipes))
					r := wlRecipes[i]
					p, err := r.Generate()
					if err != nil {
						fail("wl recipe %d: unexpected error %v", i, err)
						continue
					}
					if n := len(p.Tokens().Atoms()); n != r.Length {
						fail("wl recipe %d: %d atoms, want %d (%q)", i, n, r.Length, p.String())
					}
					if p.Entropy != wlEnt[i] {
						fail("wl recipe %d: password entropy %v, recipe %v", i, p.Entropy, wlEnt[i])
					}
				case 6:
					i := lg.intn(len(wlRecipes))
					if e := wlRecipes[i].Entropy(); e != wlEnt[i] {
						fail("wl recipe %d: Entropy() changed: %v vs %v", i, e, wlEnt[i])
					}
					if wlRecipes[i].Size() == 0 || wl.Size() != 9 {
						fail("Size() changed")
					}
				case 7:
					sf := seps[1+lg.intn(len(seps)-1)]
					s, e := sf()
					if e < 0 || utf8.RuneCountInString(s) > 2 {
						fail("separator function returned %q, %v", s, e)
					}
				}
			}
		}()
	}
	close(start)
	wg.Wait()
	zeroBudget(charRecipes, wlRecipes)
	afterFaults(charRecipes, wlRecipes)
	crowd(wl)
	crand.Reader = unsyncReader{}
	if failures > 0 {
		fmt.Printf("FAIL %d of %d concurrent results violate their recipe; first: %v\n", failures, calls, firstFailure.Load())
		os.Exit(1)
	}
	fmt.Printf("ok workers=%d calls=%d seconds=%d shared: %d char recipes, %d wordlist recipes, 2 word lists, %d separator functions\n",
		workers, calls, secs, len(charRecipes), len(wlRecipes), len(seps)-1)
}

type failingReader struct{}

func (failingReader) Read(b []byte) (int, error) { return 0, fmt.Errorf("injected source failure") }

// afterFaults: the random source fails a few times — the documented panic, which the program
// recovers from, as a long-running service would — and then works again. Whatever the failed
// draws left behind (a buffer handed back twice, a half-updated table) must not be shared between
// the goroutines that draw afterwards.
func afterFaults(charRecipes []*spg.CharRecipe, wlRecipes []*spg.WLRecipe) {
	for cycle := 0; cycle < 6; cycle++ {
		afterFaultsOnce(charRecipes, wlRecipes)
	}
}

func afterFaultsOnce(charRecipes []*spg.CharRecipe, wlRecipes []*spg.WLRecipe) {
	crand.Reader = failingReader{}
	for i := 0; i < 16; i++ {
		func() {
			defer func() { _ = recover() }()
			if i%2 == 0 {
				_, _ = charRecipes[i%len(charRecipes)].Generate()
			} else {
				_, _ = wlRecipes[i%len(wlRecipes)].Generate()
			}
			_ = spg.VerifRandomUint32n(uint32(3 + i))
		}()
	}
	crand.Reader = unsyncReader{}
	var wg sync.WaitGroup
	start := make(chan struct{})
	for w := 0; w < 16; w++ {
		wg.Add(1)
		go func(w int) {
			defer wg.Done()
			defer func() {
				if r := recover(); r != nil {
					fail("panic in a worker after recovered source faults: %v", r)
				}
			}()
			<-start
			for k := 0; k < 150; k++ {
				atomic.AddInt64(&calls, 1)
				if k%2 == 0 {
					r := charRecipes[(w+k)%4]
					if p, err := r.Generate(); err != nil || len(p.Tokens()) != r.Length {
						fail("after recovered source faults: char recipe: %v", err)
					}
				} else {
					r := wlRecipes[(w+k)%len(wlRecipes)]
					if p, err := r.Generate(); err != nil || len(p.Tokens().Atoms()) != r.Length {
						fail("after recovered source faults: wordlist recipe: %v", err)
					}
				}
			}
		}(w)
	}
	close(start)
	wg.Wait()
}

// lockstepReader: a cyclic barrier in the random source. Every Read waits until `n` callers have
// arrived (or two seconds have passed), so that `n` goroutines making the same call are all inside
// the same step of it at the same moment: all in the word pick, then all inside the separator
// function, and so on. The words it hands out are small (accepted by every bound), so every caller
// makes the same number of reads.
type lockstepReader struct {
	n       int
	mu      *sync.Mutex
	arrived *int
	gate    *chan struct{}
}

func (l lockstepReader) Read(b []byte) (int, error) {
	l.mu.Lock()
	*l.arrived++
	gate := *l.gate
	if *l.arrived%l.n == 0 {
		close(gate)
		*l.gate = make(chan struct{})
	}
	v := *l.arrived
	l.mu.Unlock()
	select {
	case <-gate:
	case <-time.After(2 * time.Second):
	}
	for i := range b {
		b[i] = 0
	}
	if len(b) == 4 {
		// 24 mixed bits under a zero top byte: below the rejection limit of every bound
		z := uint64(v) * 0x9e3779b97f4a7c15
		z = (z ^ (z >> 30)) * 0xbf58476d1ce4e5b9
		z ^= z >> 27
		b[1], b[2], b[3] = byte(z>>40), byte(z>>32), byte(z>>24)
	}
	return len(b), nil
}

// crowd: three hundred goroutines make the same call on shared recipes and are held, all at once,
// in every step of it. Each result must be what the call gives alone: Length atoms, a one-digit
// separator between each pair of neighbours, the recipe's entropy.
func crowd(wl *spg.WordList) {
	const n = 300
	r := spg.NewWLRecipe(4, wl)
	r.SeparatorFunc = spg.SFDigits1
	want := r.Entropy()
	cr := &spg.CharRecipe{Length: 6, Allow: spg.Lowers | spg.Digits}
	cwant := cr.Entropy()
	// coin flips under a crowd: every word of this list has a capital form, so every flip shows
	capList, _ := spg.NewWordList([]string{"alpha", "bravo", "charlie", "delta"})
	rr := spg.NewWLRecipe(4, capList)
	rr.Capitalize = spg.CSRandom
	rr.SeparatorChar = "-"
	rwant := rr.Entropy()
	var capitals, flips int64
	for round := 0; round < 3; round++ {
		arrived, gate := 0, make(chan struct{})
		crand.Reader = lockstepReader{n: n, mu: &sync.Mutex{}, arrived: &arrived, gate: &gate}
		var wg sync.WaitGroup
		for w := 0; w < n; w++ {
			wg.Add(1)
			go func(w int) {
				defer wg.Done()
				defer func() {
					if rec := recover(); rec != nil {
						fail("panic in crowd worker: %v", rec)
					}
				}()
				atomic.AddInt64(&calls, 1)
				if round == 0 {
					p, err := r.Generate()
					if err != nil || p == nil {
						fail("crowd of %d callers: wordlist recipe returned an error: %v", n, err)
						return
					}
					seps := p.Tokens().Separators()
					if len(p.Tokens().Atoms()) != 4 || len(seps) != 3 {
						fail("crowd of %d callers on one recipe (Length 4, separator SFDigits1): a caller got %d atoms and %d separators: %q", n, len(p.Tokens().Atoms()), len(seps), p.String())
						return
					}
					for _, sp := range seps {
						if len(sp) != 1 || sp[0] < '0' || sp[0] > '9' {
							fail("crowd of %d callers: separator %q is not one digit", n, sp)
						}
					}
					if p.Entropy != want {
						fail("crowd of %d callers: password entropy %v, the recipe's is %v", n, p.Entropy, want)
					}
				} else if round == 1 {
					p, err := cr.Generate()
					if err != nil || p == nil || len(p.Tokens()) != 6 || p.Entropy != cwant {
						fail("crowd of %d callers: character recipe: err=%v", n, err)
					}
				} else {
					p, err := rr.Generate()
					if err != nil || p == nil || len(p.Tokens().Atoms()) != 4 || p.Entropy != rwant {
						fail("crowd of %d callers: 'random' capitalisation recipe: err=%v", n, err)
						return
					}
					for _, a := range p.Tokens().Atoms() {
						atomic.AddInt64(&flips, 1)
						if a[0] >= 'A' && a[0] <= 'Z' {
							atomic.AddInt64(&capitals, 1)
						}
					}
				}
			}(w)
		}
		wg.Wait()
	}
	// 1200 flips of a fair coin fed well-mixed bits: between 40 and 60 percent heads (more than six
	// standard deviations either way)
	if flips > 0 && (capitals*10 < flips*4 || capitals*10 > flips*6) {
		fail("crowd of %d callers, Capitalize 'random': %d of %d words capitalised — the coin flips of concurrent callers are not fair coins", n, capitals, flips)
	}
}

// firstUse: values that NO call has touched before the goroutines start — anything the library
// computes lazily on first use is computed under concurrency. Per round: a fresh word list (with
// entries capitalisation leaves unchanged, large enough for a scan to take a while), fresh recipes
// of every capitalisation scheme on it, a fresh character recipe and a fresh separator function;
// reference values come from independently constructed twins evaluated sequentially.
func firstUse(g *rng, rounds int) {
	for round := 0; round < rounds; round++ {
		n := 2000 + g.intn(40000)
		words := make([]string, 0, n+3)
		for i := 0; i < n; i++ {
			words = append(words, "w"+strconv.Itoa(i)+"x")
		}
		words = append(words, "7up", "Élan", "-dash")
		mk := func() (*spg.WordList, []*spg.WLRecipe, *spg.CharRecipe, spg.SFFunction) {
			wl, err := spg.NewWordList(append([]string(nil), words...))
			if err != nil {
				fmt.Println("FAIL NewWordList:", err)
				os.Exit(1)
			}
			cr := &spg.CharRecipe{Length: 40 + round%5, Allow: spg.Letters | spg.Digits, RequireSets: []string{"abc", "cde", "123"}, ExcludeChars: "e"}
			sf := spg.NewSFFunction(spg.CharRecipe{Length: 1 + round%2, Allow: spg.Digits, Exclude: spg.Ambiguous})
			var rs []*spg.WLRecipe
			for _, c := range []spg.CapScheme{spg.CSRandom, spg.CSOne, spg.CSNone, spg.CSFirst, spg.CSAll} {
				r := spg.NewWLRecipe(3+round%3, wl)
				r.Capitalize = c
				r.SeparatorFunc = sf
				rs = append(rs, r)
			}
			return wl, rs, cr, sf
		}
		_, twin, twinCR, _ := mk()
		want := make([]float32, len(twin))
		for i, r := range twin {
			want[i] = r.Entropy()
		}
		wantCR := twinCR.Entropy()
		wantAlpha := twinCR.Alphabet()
		wl, rs, cr, _ := mk()
		// a fresh small list that contains the empty word (NewWordList accepts and counts it): the first
		// time the empty word is drawn from this list, it is drawn by several goroutines at once
		small, _ := spg.NewWordList([]string{"", "a", "b"})
		sr := spg.NewWLRecipe(6, small)
		sr.SeparatorChar = "-"
		start := make(chan struct{})
		var wg sync.WaitGroup
		for w := 0; w < 12; w++ {
			wg.Add(1)
			w := w
			go func() {
				defer wg.Done()
				defer func() {
					if r := recover(); r != nil {
						fail("panic in first-use worker: %v", r)
					}
				}()
				<-start
				if p, err := sr.Generate(); err != nil || p == nil || len(p.Tokens().Atoms()) > 6 {
					fail("first use, list with the empty word: %v", err)
				}
				if small.Size() != 3 || sr.Size() != 3 {
					fail("first use, list with the empty word: Size() changed")
				}
				_ = sr.Entropy()
				for k := 0; k < 3; k++ {
					i := (w + k) % len(rs)
					if w%2 == 0 {
						if e := rs[i].Entropy(); e != want[i] {
							fail("first use, wl recipe (scheme %q): Entropy() %v, a sequentially evaluated twin gives %v", rs[i].Capitalize, e, want[i])
						}
					} else {
						p, err := rs[i].Generate()
						if err != nil {
							fail("first use, wl recipe: %v", err)
						} else if p.Entropy != want[i] {
							fail("first use, wl recipe (scheme %q): password entropy %v, a sequentially evaluated twin gives %v", rs[i].Capitalize, p.Entropy, want[i])
						}
					}
					if int(wl.Size()) != n+3 {
						fail("first use: Size() = %d, want %d", wl.Size(), n+3)
					}
					if e := cr.Entropy(); e != wantCR {
						fail("first use, char recipe: Entropy() %v vs %v", e, wantCR)
					}
					if a := cr.Alphabet(); a != wantAlpha {
						fail("first use, char recipe: Alphabet() %q vs %q", a, wantAlpha)
					}
					if p, err := cr.Generate(); err != nil || p.Entropy != wantCR {
						fail("first use, char recipe: Generate: %v", err)
					}
					_ = cr.SuccessProbability()
				}
			}()
		}
		close(start)
		wg.Wait()
		calls += 12 * 3 * 5
	}
}

// refusals: every refused recipe returns an error and no password; the error a caller is holding
// keeps its text while other refusals happen; a wordlist recipe whose separator recipe is refused
// still generates (without separators).
func refusals(refused []*spg.CharRecipe, wr *spg.WLRecipe) {
	var errs []error
	var texts []string
	for i, r := range refused {
		p, err := r.Generate()
		if err == nil || p != nil {
			fail("refused recipe %d returned a password", i)
			continue
		}
		errs = append(errs, err)
		texts = append(texts, err.Error())
		_ = r.SuccessProbability()
	}
	if p, err := wr.Generate(); err != nil || len(p.Tokens().Atoms()) != wr.Length {
		fail("wordlist recipe with a refused separator recipe: %v", err)
	}
	_ = wr.Entropy()
	for i, e := range errs {
		if e.Error() != texts[i] {
			fail("the error of refusal %d changed its text from %q to %q", i, texts[i], e.Error())
		}
	}
}

// zeroBudget: the exported budget variables are the caller's. With MaxTrials set to 0 (before any
// goroutine of this phase starts) nothing can be attempted: every character recipe is refused,
// constructed separators come out empty — and the library only ever READS the variable, from as
// many goroutines as there are.
func zeroBudget(charRecipes []*spg.CharRecipe, wlRecipes []*spg.WLRecipe) {
	old := spg.MaxTrials
	spg.MaxTrials = 0
	var wg sync.WaitGroup
	start := make(chan struct{})
	for w := 0; w < 8; w++ {
		wg.Add(1)
		go func() {
			defer wg.Done()
			defer func() {
				if r := recover(); r != nil {
					fail("panic in zero-budget worker: %v", r)
				}
			}()
			<-start
			for k := 0; k < 3; k++ {
				for i, r := range charRecipes {
					if p, err := r.Generate(); err == nil || p != nil {
						fail("MaxTrials = 0: char recipe %d returned a password", i)
					}
				}
				for i, r := range wlRecipes {
					if p, err := r.Generate(); err != nil || len(p.Tokens().Atoms()) != r.Length {
						fail("MaxTrials = 0: wl recipe %d: %v", i, err)
					}
				}
			}
		}()
	}
	close(start)
	wg.Wait()
	if spg.MaxTrials != 0 {
		fail("the library changed the caller's MaxTrials from 0 to %d", spg.MaxTrials)
	}
	spg.MaxTrials = old
}
