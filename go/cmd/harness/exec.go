package main

import (
	"testing/iotest"
	"io"
	"bufio"
	"bytes"
	"runtime/debug"
	"time"
	"sync"
	crand "crypto/rand"
	"fmt"
	"math"
	"math/big"
	"os"
	"os/exec"
	"path/filepath"
	"reflect"
	"regexp"
	"runtime"
	"strconv"
	"strings"
	"syscall"
	"unicode/utf8"

	"go.1password.io/spg"
)

// stats collected while executing, written into the evidence by the orchestrator
type stats struct {
	TitleChecked  int            `json:"title_idempotent_strings_checked"`
	TitleCounter  []string       `json:"title_not_idempotent_examples,omitempty"`
	Ops          map[string]int `json:"ops"`
	Branches     map[string]int `json:"branches"`
	BandSkipped  int            `json:"band_skipped"`
	OptionalLogs int            `json:"optional_rounding_warnings"`
	MaxTape      int            `json:"max_tape_words"`
	MaxLength    int            `json:"max_length"`
	MaxAlphabet  int            `json:"max_alphabet"`
	MaxReqSets   int            `json:"max_required_sets"`
}

var st = stats{Ops: map[string]int{}, Branches: map[string]int{}}

func branch(s string) { st.Branches[s]++ }

type recipeSpec struct {
	L                       int
	allow, require, exclude uint32
	ac                      string
	rs                      []string
	ec                      string
}

func parseRecipe(s string) recipeSpec {
	f := strings.Split(s, "/")
	var r recipeSpec
	if len(f) != 7 {
		return r
	}
	r.L, _ = strconv.Atoi(f[0])
	r.allow, r.require, r.exclude = flagWord(f[1]), flagWord(f[2]), flagWord(f[3])
	r.ac = decCps(f[4])
	r.rs = decList(f[5])
	if f[5] != "-" && r.rs == nil {
		r.rs = []string{}
	}
	r.ec = decCps(f[6])
	return r
}

// flagWord: a number, or the NAME of a flag constant of the package (then the package's own value
// is used, while the model uses the documented one).
func flagWord(s string) uint32 {
	switch s {
	case "Uppers":
		return uint32(spg.Uppers)
	case "Lowers":
		return uint32(spg.Lowers)
	case "Digits":
		return uint32(spg.Digits)
	case "Symbols":
		return uint32(spg.Symbols)
	case "Ambiguous":
		return uint32(spg.Ambiguous)
	case "None":
		return uint32(spg.None)
	case "Letters":
		return uint32(spg.Letters)
	case "All":
		return uint32(spg.All)
	}
	v, _ := strconv.ParseUint(s, 10, 32)
	return uint32(v)
}

func (r recipeSpec) enc() string {
	return fmt.Sprintf("%d/%d/%d/%d/%s/%s/%s", r.L, r.allow, r.require, r.exclude, encCps(r.ac), encList(r.rs), encCps(r.ec))
}

func (r recipeSpec) build() spg.CharRecipe {
	var rs []string
	if r.rs != nil {
		rs = append([]string{}, r.rs...)
	}
	return spg.CharRecipe{Length: r.L, Allow: spg.CTFlag(r.allow), Require: spg.CTFlag(r.require),
		Exclude: spg.CTFlag(r.exclude), AllowChars: r.ac, RequireSets: rs, ExcludeChars: r.ec}
}

// setCfg installs the retry budget of an op line; returns a restore function.
func setCfg(a opArgs) func() {
	oldT, oldF := spg.MaxTrials, spg.MaxFailRate
	if v, ok := a["T"]; ok {
		spg.MaxTrials, _ = strconv.Atoi(v)
	}
	if v, ok := a["fr"]; ok {
		p := strings.Split(v, ":")
		if len(p) == 2 {
			n, _ := new(big.Int).SetString(p[0], 10)
			d, _ := new(big.Int).SetString(p[1], 10)
			if n != nil && d != nil && d.Sign() > 0 {
				f, _ := new(big.Rat).SetFrac(n, d).Float64()
				spg.MaxFailRate = f
			}
		}
	}
	instT, instF := spg.MaxTrials, spg.MaxFailRate
	return func() {
		// MaxTrials and MaxFailRate are the caller's configuration: the library reads them
		if spg.MaxTrials != instT || spg.MaxFailRate != instF {
			budgetMutated = fmt.Sprintf(" MUTATED=package-budget(MaxTrials=%d,MaxFailRate=%g;installed=%d,%g)", spg.MaxTrials, spg.MaxFailRate, instT, instF)
		}
		spg.MaxTrials, spg.MaxFailRate = oldT, oldF
	}
}

// set by setCfg's restore when an operation left the package's budget variables changed
var budgetMutated string

// exec runs one operation; the budget check of setCfg is appended to its answer.
func (e *executor) exec(line, lean string) string {
	out := e.execOnce(line, lean)
	if p := perturbationFor(line); p != nil {
		// the same operation again, in a process whose ENVIRONMENT differs in a way no recipe, list or
		// random byte mentions: locale variables, working directory, time zone, HOME, debug variables,
		// the number of processors, the collector's settings. The answer must be the same line.
		undo := p.apply(e)
		out2 := e.execOnce(line, lean)
		undo()
		if out2 != out {
			out += " ENV-DEPENDENT(" + p.name + ") answer there: " + out2
		}
	}
	return out
}

func (e *executor) execOnce(line, lean string) string {
	budgetMutated = ""
	opCtx.set, opCtx.zeroBound, lastReaderFailed = false, false, false
	out := e.exec1(line, lean)
	if budgetMutated != "" {
		out += budgetMutated
		budgetMutated = ""
	}
	return out
}

type perturbation struct {
	name  string
	apply func(e *executor) (undo func())
}

func envPerturbation(name string, set map[string]string, unset []string) perturbation {
	return perturbation{name, func(e *executor) func() {
		old := map[string]*string{}
		for k := range set {
			if v, ok := os.LookupEnv(k); ok {
				v := v
				old[k] = &v
			} else {
				old[k] = nil
			}
		}
		for _, k := range unset {
			if v, ok := os.LookupEnv(k); ok {
				v := v
				old[k] = &v
			} else {
				old[k] = nil
			}
		}
		for k, v := range set {
			os.Setenv(k, v)
		}
		for _, k := range unset {
			os.Unsetenv(k)
		}
		return func() {
			for k, v := range old {
				if v == nil {
					os.Unsetenv(k)
				} else {
					os.Setenv(k, *v)
				}
			}
		}
	}}
}

var perturbations = []perturbation{
	envPerturbation("LANG=tr_TR.UTF-8 LC_ALL=tr_TR.UTF-8", map[string]string{"LANG": "tr_TR.UTF-8", "LC_ALL": "tr_TR.UTF-8", "LANGUAGE": "tr", "LC_CTYPE": "tr_TR.UTF-8"}, nil),
	envPerturbation("LANG=C", map[string]string{"LANG": "C", "LC_ALL": "C"}, []string{"LANGUAGE"}),
	envPerturbation("TZ=Asia/Kathmandu", map[string]string{"TZ": "Asia/Kathmandu"}, nil),
	envPerturbation("HOME and USER unset, DEBUG=1 SPG_DEBUG=1 VERBOSE=1", map[string]string{"DEBUG": "1", "SPG_DEBUG": "1", "VERBOSE": "1", "SPG_SEED": "1", "CI": "true"}, []string{"HOME", "USER"}),
	{"working directory /", func(e *executor) func() {
		wd, err := os.Getwd()
		os.Chdir("/")
		return func() {
			if err == nil {
				os.Chdir(wd)
			}
		}
	}},
	{"GOMAXPROCS=1", func(e *executor) func() {
		old := runtime.GOMAXPROCS(1)
		return func() { runtime.GOMAXPROCS(old) }
	}},
	{"collector at 1 percent, a collection just before", func(e *executor) func() {
		old := debug.SetGCPercent(1)
		runtime.GC()
		return func() { debug.SetGCPercent(old) }
	}},
}

// perturbationFor: one operation in six is repeated under one of the perturbations (chosen by the
// operation's text, so that a finding replays). Operations on long-lived objects, black-box runs of
// the binary and the slow-source operations are not repeated.
func perturbationFor(line string) *perturbation {
	if len(line) > 20000 || strings.Contains(line, "obj=") || strings.Contains(line, " slow=") || strings.Contains(line, "@agile") {
		return nil
	}
	switch strings.SplitN(line, " ", 2)[0] {
	case "chargen", "charinfo", "wlgen", "wlent", "wlnew", "mkidx", "tokenize", "draw", "newcr", "newwl":
	default:
		return nil
	}
	h := uint64(1469598103934665603)
	for i := 0; i < len(line); i++ {
		h = (h ^ uint64(line[i])) * 1099511628211
	}
	if h%6 != 0 {
		return nil
	}
	return &perturbations[(h/6)%uint64(len(perturbations))]
}

var entropyWarnRE = regexp.MustCompile(`^entropySimple: There must be a positive number of elements\. Not -?\d+$`)
var dupRE = regexp.MustCompile(`^(\d+) duplicate words found when setting up word list generator$`)
var logOptRE = regexp.MustCompile(`^\d{4}/\d\d/\d\d \d\d:\d\d:\d\d successProbability: (eDiff is positive\. Setting to 0|p greater than 1\. Setting to 1)$`)

// classifyOutput sorts captured output lines into the library's known diagnostics.
// unknown lines are returned verbatim: nothing else may ever be written.
func classifyOutput(out string) (warn int, dup int, unknown []string) {
	dup = -1
	if out == "" {
		return
	}
	for _, l := range strings.Split(strings.TrimSuffix(out, "\n"), "\n") {
		switch {
		case entropyWarnRE.MatchString(l):
			warn++
		case dupRE.MatchString(l):
			dup, _ = strconv.Atoi(dupRE.FindStringSubmatch(l)[1])
		case logOptRE.MatchString(l):
			st.OptionalLogs++
		default:
			unknown = append(unknown, l)
		}
	}
	return
}

func unknownField(u []string) string {
	if len(u) == 0 {
		return ""
	}
	return " UNEXPECTED-OUTPUT=" + encHex([]byte(strings.Join(u, "\n")))
}

// withTape runs f with crypto/rand.Reader scripted; recovers panics.
type runOut struct {
	panicMsg string
	panicked bool
	used     int // words consumed (bytes/4, rounded up)
}

func withReader(s *scripted, f func()) (ro runOut) {
	old := crand.Reader
	crand.Reader = s
	defer func() {
		crand.Reader = old
		lastReaderFailed = s.failed
		ro.used = (s.pos + 3) / 4
		if r := recover(); r != nil {
			ro.panicked = true
			ro.panicMsg = fmt.Sprint(r)
			// a panic while the scripted source had just reported a failure is the fail-closed
			// panic, whatever its wording (no property fixes the text)
			if s.failed && !strings.HasPrefix(ro.panicMsg, "PRNG gen error:") && ro.panicMsg != "randomUint32n called with 0" &&
				!strings.HasPrefix(ro.panicMsg, "runtime error") {
				ro.panicMsg = "PRNG gen error: (other wording) " + ro.panicMsg
			}
		}
	}()
	f()
	return
}

// sepStreamIndependent: separator settings whose entropy term cannot depend on the stream —
// everything except a recipe-built function whose recipe has requirements (known finding D9).
func sepStreamIndependent(sep string) bool {
	if strings.HasPrefix(sep, "recipe:") {
		r := parseRecipe(sep[7:])
		return r.require == 0 && len(r.rs) == 0
	}
	return true
}

// nestedCall: a complete, unrelated use of the library on its own scripted source, made while an
// outer call is in progress (see scripted.reenter). crypto/rand.Reader is the outer call's reader
// while this runs; it is swapped for the nested script and put back.
func nestedCall() { nestedCallAt(1) }

// how deep the calls-within-calls go (reenter depth), and whether any nested call misbehaved
var nestDepth = 1
var nestedFailed string

// nestedCallAt: a complete use of the library at nesting level d, itself interrupted (while below
// nestDepth) by a further one made from inside ITS source's Read. Every level uses the same recipe
// on the same bytes: every level must produce the same password.
func nestedCallAt(d int) {
	outer := crand.Reader
	defer func() {
		crand.Reader = outer
		if r := recover(); r != nil && nestedFailed == "" {
			nestedFailed = fmt.Sprintf("level-%d-panicked", d)
		}
	}()
	nb := make([]byte, 4*64)
	for i := range nb {
		nb[i] = byte(37*i + 11)
	}
	sc := &scripted{bytes: nb}
	if d < nestDepth {
		sc.reenterAt = 2
		sc.reenter = func() { nestedCallAt(d + 1) }
	}
	crand.Reader = sc
	// the wordlist generation first: the further nested call is made from inside IT (its second read),
	// so that at depth d there are d wordlist generations in progress
	if wl, err := spg.NewWordList([]string{"north", "south", "east", "west"}); err == nil {
		wr := spg.NewWLRecipe(3, wl)
		wr.SeparatorFunc = spg.SFDigits1
		wr.Capitalize = spg.CSRandom
		p, err := wr.Generate()
		if (err != nil || p == nil) && nestedFailed == "" {
			nestedFailed = fmt.Sprintf("level-%d-wordlist-recipe-refused", d)
		} else if p != nil {
			if nestedFirst == "" {
				nestedFirst = p.String()
			} else if p.String() != nestedFirst && nestedFailed == "" {
				nestedFailed = fmt.Sprintf("level-%d-gave-another-password", d)
			}
		}
	}
	// a recipe without requirements: honoured under every budget that permits at least one attempt
	// (the operation's own T= / fr= are in force here too)
	cr := spg.CharRecipe{Length: 9, Allow: spg.Letters | spg.Digits}
	if _, err := cr.Generate(); err != nil && nestedFailed == "" && spg.MaxTrials >= 1 {
		nestedFailed = fmt.Sprintf("level-%d-character-recipe-refused", d)
	}
	_ = cr.Entropy()
}

var nestedFirst string

func bitsSet(v uint32) int {
	n := 0
	for ; v != 0; v &= v - 1 {
		n++
	}
	return n
}

func planOf(s string) []resp {
	var plan []resp
	for _, f := range strings.Split(s, ",") {
		p := strings.Split(f, ":")
		if len(p) == 2 {
			g, _ := strconv.Atoi(p[0])
			plan = append(plan, resp{g, p[1] == "1"})
		}
	}
	return plan
}

// sourceSpec: the bounded draw over a scripted reader, computed independently of the library and
// of the Lean model: words are 4 bytes big-endian read in full (io.ReadFull semantics: an error is
// fatal only if the word is still incomplete), words at or above the largest multiple of n are
// rejected. ok=false when the reader fails or runs dry before a word is accepted.
func sourceSpec(n uint64, bytes []byte, plan []resp) (k uint64, used int, ok bool) {
	if n == 0 || n > 1<<32-1 {
		return 0, 0, false
	}
	pos := 0
	for iter := 0; iter < 100000; iter++ {
		var w [4]byte
		got := 0
		for got < 4 {
			r := resp{give: 4 - got}
			if len(plan) > 0 {
				r = plan[0]
				plan = plan[1:]
			}
			kk := r.give
			if kk > 4-got {
				kk = 4 - got
			}
			d := kk
			if rem := len(bytes) - pos; d > rem {
				d = rem
			}
			copy(w[got:], bytes[pos:pos+d])
			pos += d
			got += d
			if got < 4 && (r.err || d < kk) {
				return 0, 0, false
			}
			if got < 4 && d == 0 && len(plan) == 0 && pos >= len(bytes) {
				return 0, 0, false
			}
		}
		v := uint64(w[0])<<24 | uint64(w[1])<<16 | uint64(w[2])<<8 | uint64(w[3])
		if n&(n-1) == 0 {
			return v & (n - 1), pos, true
		}
		limit := (uint64(1)<<32 - 1) - (uint64(1)<<32-1)%n
		if v < limit {
			return v % n, pos, true
		}
	}
	return 0, 0, false
}

func readerFor(a opArgs) *scripted {
	s := &scripted{bytes: wordsToBytes(decWords(a["tape"]))}
	if n := len(s.bytes) / 4; n > st.MaxTape {
		st.MaxTape = n
	}
	if v, ok := a["extra"]; ok { // 1..3 stray bytes after the last word, then EOF
		s.bytes = append(s.bytes, decHex(v)...)
	}
	if v, ok := a["resume"]; ok { // a transient failure where the tape ends, then more bytes
		f := strings.SplitN(v, ":", 2)
		if len(f) == 2 {
			k, _ := strconv.Atoi(f[0])
			s.resumeErr = errorKinds[k%len(errorKinds)]
			s.resumeBytes = wordsToBytes(decWords(f[1]))
		}
	}
	if v, ok := a["chunk"]; ok { // split reads into random short reads
		n, _ := strconv.ParseUint(v, 10, 64)
		s.chunkSeed = &rng{s: n}
	}
	return s
}

// entropyValues: what Tokenize may be handed as the entropy of the password it decodes — including
// what Entropy() reports for degenerate recipes (an empty alphabet: -Inf or NaN).
var entropyValues = []float32{7.25, 12.5, 0, 0.25, 300.5, 65536, 1, float32(math.Inf(1)), float32(math.Inf(-1)), float32(math.NaN()),
	float32(math.Copysign(0, -1)), -3.5, math.MaxFloat32, math.SmallestNonzeroFloat32}

// slowReaderFor: the operation's source, pausing before one of its reads ("slow=<read>:<ms>").
func slowReaderFor(a opArgs) *scripted {
	s := readerFor(a)
	f := strings.Split(a["slow"], ":")
	if len(f) == 2 {
		s.pauseAt, _ = strconv.Atoi(f[0])
		ms, _ := strconv.Atoi(f[1])
		s.pause = time.Duration(ms) * time.Millisecond
	}
	return s
}

// concurrently runs f in n goroutines at once (a start barrier, panics recovered) and returns the
// first complaint, "" when there is none.
func concurrently(n int, f func(g int) string) string {
	start := make(chan struct{})
	res := make([]string, n)
	var wg sync.WaitGroup
	for g := 0; g < n; g++ {
		wg.Add(1)
		go func(g int) {
			defer wg.Done()
			defer func() {
				if r := recover(); r != nil {
					res[g] = fmt.Sprintf("panic(%v)", r)
				}
			}()
			<-start
			res[g] = f(g)
		}(g)
	}
	close(start)
	wg.Wait()
	for _, r := range res {
		if r != "" {
			return r
		}
	}
	return ""
}

// tokenizeConcurrently: several callers decoding DIFFERENT passwords at the same moment each get
// the slices of their own password (C12), and several callers indexing and decoding token
// sequences at the same moment each get their own tokens back (C11). The expected answers are
// the ones the same calls give one after the other.
func tokenizeConcurrently(pw string, idx spg.Indices, ent float32) string {
	type job struct {
		pw   string
		idx  spg.Indices
		want string
		err  bool
	}
	decoy := strings.Map(func(r rune) rune {
		if r == 'Q' {
			return 'W'
		}
		return 'Q'
	}, pw)
	jobs := []job{{pw: pw, idx: append(spg.Indices{}, idx...)}, {pw: decoy, idx: append(spg.Indices{}, idx...)},
		{pw: pw + "tail", idx: append(spg.Indices{}, idx...)}, {pw: "zz" + decoy, idx: append(spg.Indices{}, idx...)}}
	for i := range jobs {
		q, err := spg.Tokenize(jobs[i].pw, jobs[i].idx, ent)
		jobs[i].err = err != nil
		if err == nil {
			jobs[i].want = showTokens(q.Tokens())
		}
	}
	return concurrently(len(jobs), func(g int) string {
		j := jobs[g]
		for round := 0; round < 60; round++ {
			q, err := spg.Tokenize(j.pw, j.idx, ent)
			if (err != nil) != j.err {
				return fmt.Sprintf("caller %d round %d: error status changed", g, round)
			}
			if err == nil && showTokens(q.Tokens()) != j.want {
				return fmt.Sprintf("caller %d round %d: got %s, alone it gets %s", g, round, showTokens(q.Tokens()), j.want)
			}
		}
		return ""
	})
}

// sourceTypeDependence: the same bytes offered through readers of other dynamic types — a
// bytes.Reader, a strings.Reader, a bufio.Reader (all three also implement io.ByteReader,
// io.WriterTo, io.Seeker …), a one-byte-at-a-time reader, a reader hidden behind a plain struct.
// What crypto/rand.Reader IS beyond being an io.Reader is not an input of any recipe: the outcome
// (password, error or the fail-closed panic) must be the same for each of them.
func sourceTypeDependence(tape []byte, gen func() (string, bool), want string, wantPanic bool) string {
	type plain struct{ io.Reader }
	mk := []struct {
		name string
		r    func() io.Reader
	}{
		{"*bytes.Reader", func() io.Reader { return bytes.NewReader(tape) }},
		{"*strings.Reader", func() io.Reader { return strings.NewReader(string(tape)) }},
		{"*bufio.Reader", func() io.Reader { return bufio.NewReaderSize(bytes.NewReader(tape), 16) }},
		{"iotest.OneByteReader", func() io.Reader { return iotest.OneByteReader(bytes.NewReader(tape)) }},
		{"struct{io.Reader}", func() io.Reader { return plain{bytes.NewReader(tape)} }},
	}
	for _, m := range mk {
		got, panicked := func() (out string, panicked bool) {
			old := crand.Reader
			crand.Reader = m.r()
			defer func() {
				crand.Reader = old
				if r := recover(); r != nil {
					panicked = true
				}
			}()
			out, _ = gen()
			return
		}()
		capt.take()
		if panicked != wantPanic || (!panicked && got != want) {
			return fmt.Sprintf(" SOURCE-TYPE-DEPENDENT(random source of type %s: %s; scripted io.Reader: %s)", m.name, describeOutcome(got, panicked), describeOutcome(want, wantPanic))
		}
	}
	return ""
}

func describeOutcome(s string, panicked bool) string {
	if panicked {
		return "panic"
	}
	return "result " + encHex([]byte(s))
}

// keptResultSurvives: the caller keeps what it took out of the result — the Tokens() slice, a copy
// of the Password value — and lets go of the pointer. Whatever the collector then does with the
// unreachable *Password (a finalizer, a pool), what the caller kept is the caller's.
func keptResultSurvives(pp **spg.Password) string {
	if *pp == nil {
		return ""
	}
	toks := (*pp).Tokens()
	pv := **pp
	before, beforeS := showTokens(toks), pv.String()
	*pp = nil
	runtime.GC()
	time.Sleep(2 * time.Millisecond)
	runtime.GC()
	time.Sleep(time.Millisecond)
	if showTokens(toks) != before || pv.String() != beforeS || showTokens(pv.Tokens()) != before {
		return " RESULT-CHANGED-LATER(the Tokens() slice and the Password value the caller kept changed after the *Password became unreachable and a collection ran: now " + showTokens(toks) + ")"
	}
	return ""
}

// panicLine classifies a panic of the library. The two panics the library documents are
// recognised by their text; should the text be reworded (which no property forbids), by the
// circumstances: the scripted source reported a failure during this operation (fault), or the
// operation asked for a draw over zero alternatives (zero).
func panicLine(msg string) string {
	switch {
	case strings.HasPrefix(msg, "PRNG gen error:"):
		return "panic fault"
	case msg == "randomUint32n called with 0":
		return "panic zero"
	case opCtx.zeroBound:
		return "panic zero"
	default:
		return "panic other:" + encHex([]byte(msg))
	}
}

// set by withReader: did the scripted source report an error or run dry during the last call?
var lastReaderFailed bool

// what the current operation is about, for classifying errors whose text is not one of the known ones
var opCtx struct {
	zeroBound     bool // a draw over zero alternatives was asked for
	length        int
	alphabetEmpty bool
	noList        bool
	used          int
	set           bool
}

func errKind(err error) string {
	m := err.Error()
	switch {
	case strings.HasPrefix(m, "don't ask for passwords of length"):
		return "length"
	case strings.HasPrefix(m, "no characters to build pwd from"):
		return "nochars"
	case strings.HasPrefix(m, "Chance of not generated a valid password"):
		return "failrate"
	case strings.HasPrefix(m, "couldn't generate password complying with requirements after"):
		return "exhausted"
	case strings.HasPrefix(m, "wordlist generator must be set up before being used"):
		return "nolist"
	}
	// an error text we do not know (reworded?): the circumstances say which refusal it is
	if opCtx.set {
		switch {
		case opCtx.noList:
			return "nolist"
		case opCtx.length < 1:
			return "length"
		case opCtx.alphabetEmpty:
			return "nochars"
		case opCtx.used == 0:
			return "failrate"
		default:
			return "exhausted"
		}
	}
	return "other:" + encHex([]byte(m))
}

func showToken(t spg.Token) string {
	switch t.Type() {
	case spg.AtomType:
		return "A:" + encCps(t.Value())
	case spg.SeparatorType:
		return "S:" + encCps(t.Value())
	}
	return fmt.Sprintf("T%d:%s", t.Type(), encCps(t.Value()))
}

func showTokens(ts spg.Tokens) string {
	if len(ts) == 0 {
		return "-"
	}
	var p []string
	for _, t := range ts {
		p = append(p, showToken(t))
	}
	return strings.Join(p, ",")
}

// dField renders the entropy field: the model's D when the implementation's float agrees
// with log2 D, otherwise what the implementation said.
func dField(lean string, got float32, ulps float64) string {
	ds, ok := field(lean, "D")
	if !ok {
		return fmt.Sprintf("D=?(%v)", got)
	}
	d, ok2 := new(big.Int).SetString(ds, 10)
	if !ok2 {
		return fmt.Sprintf("D=?(%v)", got)
	}
	if floatMatches(got, log2Big(d), ulps) {
		return "D=" + ds
	}
	return fmt.Sprintf("D=BAD(entropy=%v,log2D=%v)", got, log2Big(d))
}

// password-level checks that do not involve the model (String, Atoms, Separators consistency)
func passwordShape(p *spg.Password) string {
	ts := p.Tokens()
	s := ""
	var atoms, seps []string
	for _, t := range ts {
		s += t.Value()
		if t.Type() == spg.AtomType {
			atoms = append(atoms, t.Value())
		}
		if t.Type() == spg.SeparatorType {
			seps = append(seps, t.Value())
		}
	}
	if p.String() != s {
		return " SHAPE-FAIL=String"
	}
	if !sameStrings(ts.Atoms(), atoms) {
		return " SHAPE-FAIL=Atoms"
	}
	if !sameStrings(ts.Separators(), seps) {
		return " SHAPE-FAIL=Separators"
	}
	// every generated password round-trips through its index with ITS OWN entropy (C11) — whatever
	// that entropy is (0 bits for a one-word list or a one-character alphabet included)
	if ix, err := ts.MakeIndices(); err == nil && len(ts) > 0 && p.Entropy == p.Entropy && !math.IsInf(float64(p.Entropy), 0) {
		ok := true
		for _, t := range ts {
			if c := utf8.RuneCountInString(t.Value()); c < 1 || c > 255 {
				ok = false
			}
		}
		if ok {
			q, terr := spg.Tokenize(s, ix, p.Entropy)
			if terr != nil {
				return " ROUNDTRIP-FAIL=error-on-generated-password"
			}
			if !reflect.DeepEqual(q.Tokens(), ts) || q.Entropy != p.Entropy {
				return " ROUNDTRIP-FAIL=generated-password-differs"
			}
		}
	}
	return ""
}

func sameStrings(a, b []string) bool {
	if len(a) != len(b) {
		return false
	}
	for i := range a {
		if a[i] != b[i] {
			return false
		}
	}
	return true
}

type keptPassword struct {
	p        *spg.Password
	rendered string
}

type executor struct {
	kept    map[string]keptPassword // last password returned per shared list / recipe
	chars   map[string]*spg.CharRecipe
	lists   map[string]*spg.WordList
	listSrc map[string][]string
	seps    map[string]spg.SFFunction // long-lived separator functions (sepobj=)
	usage   *string
	opgen   string // path of the opgen binary
	tmpdir  string
	childEnv []string // environment of the next opgen run (nil: inherit)
}

func newExecutor() *executor {
	return &executor{kept: map[string]keptPassword{}, chars: map[string]*spg.CharRecipe{}, lists: map[string]*spg.WordList{}, listSrc: map[string][]string{}, seps: map[string]spg.SFFunction{}}
}

// the CharRecipe an op works on: a fresh value, or (obj=<id>) a long-lived one whose public
// fields the "caller" updates in place before the call.
// The caller's RequireSets live in ONE array with spare capacity, refilled for every recipe — the
// way a caller who builds many recipes from a scratch buffer does it (pool[:k] for one recipe,
// pool[:k+1] for the next). The library may read the slice it is given; it must not write to it,
// within its length or beyond (an append onto it lands in the caller's array).
var rsBacking = func() []string {
	b := make([]string, 64)
	for i := range b {
		b[i] = fmt.Sprintf("SPARE-CAPACITY-%d", i)
	}
	return b
}()

func (r recipeSpec) buildPooled() spg.CharRecipe {
	c := r.build()
	if r.rs != nil && len(r.rs) <= 48 {
		for i := range rsBacking {
			rsBacking[i] = fmt.Sprintf("SPARE-CAPACITY-%d", i)
		}
		copy(rsBacking, r.rs)
		c.RequireSets = rsBacking[:len(r.rs)]
	}
	return c
}

// rsIntact: after the operation the caller's array still holds what the caller put there.
func rsIntact(spec recipeSpec) string {
	if spec.rs == nil || len(spec.rs) > 48 {
		return ""
	}
	for i, v := range spec.rs {
		if rsBacking[i] != v {
			return " MUTATED=caller-requiresets"
		}
	}
	for i := len(spec.rs); i < len(rsBacking); i++ {
		if rsBacking[i] != fmt.Sprintf("SPARE-CAPACITY-%d", i) {
			return " MUTATED=caller-requiresets-beyond-len(an append onto the caller's slice)"
		}
	}
	return ""
}

func (e *executor) charRecipe(a opArgs, spec recipeSpec) (*spg.CharRecipe, func() string) {
	id, shared := a["obj"]
	fresh := spec.buildPooled()
	if !shared {
		return &fresh, func() string { return rsIntact(spec) }
	}
	r, ok := e.chars[id]
	if !ok {
		r = &fresh
		e.chars[id] = r
	} else {
		// caller-side field updates, one by one, on the existing value
		r.Length = fresh.Length
		r.Allow, r.Require, r.Exclude = fresh.Allow, fresh.Require, fresh.Exclude
		r.AllowChars, r.ExcludeChars = fresh.AllowChars, fresh.ExcludeChars
		r.RequireSets = fresh.RequireSets
	}
	callerSlice := r.RequireSets
	snapshot := append([]string{}, callerSlice...)
	return r, func() string {
		want := spec.build()
		if r.Length != want.Length || r.Allow != want.Allow || r.Require != want.Require || r.Exclude != want.Exclude ||
			r.AllowChars != want.AllowChars || r.ExcludeChars != want.ExcludeChars ||
			!sameStrings(r.RequireSets, want.RequireSets) || (r.RequireSets == nil) != (want.RequireSets == nil) {
			return " MUTATED=recipe-fields"
		}
		if !sameStrings(callerSlice, snapshot) || len(callerSlice) != len(snapshot) {
			return " MUTATED=caller-slice"
		}
		return rsIntact(spec)
	}
}

func wordTitles(words []string) []string {
	out := make([]string, len(words))
	for i, w := range words {
		out[i] = strings.Title(w)
	}
	return out
}

// snapshots of the shipped lists, taken before the first operation: whatever the library is
// asked to do with them, the exported slices must still hold exactly this (C16)
var agileWordsSnapshot = append([]string(nil), spg.AgileWords...)
var agileSyllablesSnapshot = append([]string(nil), spg.AgileSyllables...)

func builtinsIntact() string {
	if !sameStrings(spg.AgileWords, agileWordsSnapshot) {
		return " BUILTIN-CHANGED=AgileWords"
	}
	if !sameStrings(spg.AgileSyllables, agileSyllablesSnapshot) {
		return " BUILTIN-CHANGED=AgileSyllables"
	}
	return ""
}

func wordsArg(a opArgs) []string {
	switch a["words"] {
	case "@agilewords":
		return spg.AgileWords
	case "@agilesyllables":
		return spg.AgileSyllables
	}
	return decList(a["words"])
}

// readBack lists the words of a WordList through generation, index by index.
func readBack(wl *spg.WordList) []string {
	n := int(wl.Size())
	out := make([]string, 0, n)
	r := spg.NewWLRecipe(1, wl)
	for i := 0; i < n; i++ {
		s := &scripted{bytes: wordsToBytes([]uint32{uint32(i)})}
		var p *spg.Password
		withReader(s, func() { p, _ = r.Generate() })
		if p == nil {
			out = append(out, "\x00<nil>")
			continue
		}
		out = append(out, p.String())
	}
	return out
}

func (e *executor) wordList(a opArgs) (*spg.WordList, error, func() string) {
	if a["words"] == "nil" {
		return nil, nil, func() string { return "" }
	}
	if a["words"] == "@zero" {
		// the zero value of the exported type: a word list nobody has set up
		return &spg.WordList{}, nil, func() string { return "" }
	}
	words := wordsArg(a)
	if id, ok := a["wlobj"]; ok {
		if wl, ok := e.lists[id]; ok {
			src := e.listSrc[id]
			return wl, nil, func() string {
				if !sameStrings(src, words) {
					return " MUTATED=caller-wordlist"
				}
				return ""
			}
		}
	}
	src := callerBuffer(words)
	wl, err := spg.NewWordList(src)
	capt.take()
	// the caller goes on using its slice: the list must not be looking at it any more
	for i := range src {
		src[i] = "CALLER-REUSED-SLICE"
	}
	src = append([]string{}, words...)
	if id, ok := a["wlobj"]; ok && err == nil {
		e.lists[id] = wl
		e.listSrc[id] = src
	}
	return wl, err, func() string {
		if !sameStrings(src, words) {
			return " MUTATED=caller-wordlist"
		}
		return ""
	}
}

// callerBuffer: the way a caller that builds many lists does it — one buffer per length, refilled
// in place. What NewWordList returns must depend on the words, not on which slice carried them.
var callerBufs = map[int][]string{}

func callerBuffer(words []string) []string {
	b, ok := callerBufs[len(words)]
	if !ok {
		b = make([]string, len(words))
		callerBufs[len(words)] = b
	}
	copy(b, words)
	return b
}

// an error value kept from an earlier operation, and what it said then
var keptErr error
var keptErrText string

// calls of the harness's caller-written separator function since it was last reset
var customSepCalls int

var presets = map[string]spg.SFFunction{
	"none": spg.SFNone, "d1": spg.SFDigits1, "d2": spg.SFDigits2, "dna1": spg.SFDigitsNoAmbiguous1,
	"dna2": spg.SFDigitsNoAmbiguous2, "sym": spg.SFSymbols, "ds": spg.SFDigitsSymbols,
}

func applySep(r *spg.WLRecipe, s string) {
	i := strings.IndexByte(s, ':')
	if i < 0 {
		return
	}
	kind, v := s[:i], s[i+1:]
	switch kind {
	case "char":
		r.SeparatorChar = decCps(v)
	case "const":
		c := decCps(v)
		r.SeparatorFunc = func() (string, spg.FloatE) { return c, 0 }
	case "preset":
		r.SeparatorFunc = presets[v]
	case "recipe":
		r.SeparatorFunc = spg.NewSFFunction(parseRecipe(v).build())
	case "custom":
		// custom:<D>:<strings>: a caller-written function drawing one of the strings through the
		// library's own bounded draw and reporting log2(D) bits
		j := strings.IndexByte(v, ':')
		if j < 0 {
			return
		}
		d, _ := strconv.Atoi(v[:j])
		outs := decList(v[j+1:])
		if len(outs) == 0 {
			outs = []string{""}
		}
		ent := spg.FloatE(math.Log2(float64(d)))
		r.SeparatorFunc = func() (string, spg.FloatE) {
			customSepCalls++
			return outs[spg.VerifRandomUint32n(uint32(len(outs)))], ent
		}
	}
}

func (e *executor) exec1(line, lean string) string {
	op, a := parseLine(line)
	st.Ops[op]++
	switch op {
	case "draw":
		n, _ := strconv.ParseUint(a["n"], 10, 64)
		opCtx.zeroBound = n == 0
		defer setCfg(a)() // the bounded draw has no business with the retry budget, whatever it is set to
		s := readerFor(a)
		var k uint32
		ro := withReader(s, func() { k = spg.VerifRandomUint32n(uint32(n)) })
		out := capt.take()
		_, _, unk := classifyOutput(out)
		if ro.panicked {
			l := panicLine(ro.panicMsg)
			if l == "panic fault" {
				l += " u32=same"
			}
			branch("draw:" + l)
			return l + unknownField(unk)
		}
		rng := ""
		if uint64(k) >= n {
			rng = " RANGE-FAIL"
		}
		// the raw word that was accepted must lie below the largest multiple of n (C01 step_none_iff):
		// a word from the incomplete last block gives the low alternatives one extra preimage
		if tp := decWords(a["tape"]); ro.used >= 1 && ro.used <= len(tp) && n > 0 {
			if v := uint64(tp[ro.used-1]); v >= n*((1<<32)/n) {
				rng += fmt.Sprintf(" BIASED-ACCEPT(raw=%d,limit=%d)", v, n*((1<<32)/n))
			}
		}
		if ro.used > 1 {
			branch("draw:redraw")
		} else {
			branch("draw:first")
		}
		return fmt.Sprintf("ok k=%d used=%d u32=same%s%s", k, ro.used, rng, unknownField(unk))

	case "source":
		n, _ := strconv.ParseUint(a["n"], 10, 64)
		s := &scripted{bytes: decHex(a["bytes"])}
		for _, f := range strings.Split(a["plan"], ",") {
			p := strings.Split(f, ":")
			if len(p) == 2 {
				g, _ := strconv.Atoi(p[0])
				s.plan = append(s.plan, resp{g, p[1] == "1"})
			}
		}
		var k uint32
		ro := withReader(s, func() { k = spg.VerifRandomUint32n(uint32(n)) })
		capt.take()
		if ro.panicked {
			branch("source:" + panicLine(ro.panicMsg))
			return panicLine(ro.panicMsg)
		}
		branch("source:ok")
		l := fmt.Sprintf("ok k=%d bytesused=%d", k, s.pos)
		// independent reading of what a bounded draw over this reader must be: every raw word is
		// four bytes read in full (however the reader chunks them), rejected words are replaced
		if wk, wused, ok := sourceSpec(n, decHex(a["bytes"]), planOf(a["plan"])); ok && (uint64(k) != wk || s.pos != wused) {
			l += fmt.Sprintf(" SOURCE-FAIL(expected-k=%d,expected-bytes=%d)", wk, wused)
		}
		return l

	case "charinfo":
		defer setCfg(a)()
		spec := parseRecipe(a["r"])
		r, after := e.charRecipe(a, spec)
		noteRecipe(spec)
		alpha := r.Alphabet()
		capt.take()
		n := utf8.RuneCountInString(alpha)
		// Alphabet() is sorted, without repeats, and is exactly allowed-or-required minus excluded (C03)
		alphaFail := ""
		{
			prev := rune(-1)
			for _, c := range alpha {
				if c <= prev {
					alphaFail = " ALPHABET-FAIL=not-strictly-increasing"
					break
				}
				prev = c
			}
			if alphaFail == "" && string(setsOf(spec).alphabet) != alpha {
				alphaFail = " ALPHABET-FAIL=membership"
			}
		}
		cnt := spg.VerifCount(*r)
		capt.take()
		M := new(big.Int).Exp(big.NewInt(int64(n)), big.NewInt(int64(maxInt(spec.L, 0))), nil)
		ent := r.Entropy()
		wE, _, unk1 := classifyOutput(capt.take())
		ent2 := r.Entropy()
		capt.take()
		sp := r.SuccessProbability()
		wSP, _, unk2 := classifyOutput(capt.take())
		d := dField(lean, ent, 3)
		if math.Float32bits(ent) != math.Float32bits(ent2) && !(ent != ent && ent2 != ent2) {
			d = fmt.Sprintf("D=UNSTABLE(%v,%v)", ent, ent2)
		}
		// a function of the recipe alone — not of how many processors the process may use
		if len(spec.rs)+bitsSet(spec.require) >= 2 && spec.L >= 0 && spec.L <= 64 {
			prev := runtime.GOMAXPROCS(0)
			for _, k := range []int{1, 3, 5, 6, 7} {
				runtime.GOMAXPROCS(k)
				ek := r.Entropy()
				if math.Float32bits(ek) != math.Float32bits(ent) && !(ek != ek && ent != ent) {
					d = fmt.Sprintf("D=UNSTABLE(%v,with-GOMAXPROCS=%d:%v)", ent, k, ek)
				}
			}
			runtime.GOMAXPROCS(prev)
			capt.take()
		}
		if spec.L < 0 || (spec.L == 0 && n == 0) {
			// Entropy() of a negative length, and 0·log2(0), are outside every property (DESIGN §9)
			if v, ok := field(lean, "D"); ok {
				d = "D=" + v
			}
		}
		// success probability against the exact fraction D/M
		spF := "sp=ok"
		var exactP *big.Float
		if ds, ok := field(lean, "D"); ok && M.Sign() > 0 && n > 0 && spec.L >= 0 {
			if dd, ok := new(big.Int).SetString(ds, 10); ok {
				exactP = new(big.Float).SetPrec(256).Quo(new(big.Float).SetPrec(256).SetInt(dd), new(big.Float).SetPrec(256).SetInt(M))
				want, _ := exactP.Float64()
				e2 := float64(maxInt(spec.L, 0)) * math.Log2(float64(maxInt(n, 1)))
				rel := 4*math.Pow(2, -23)*math.Max(e2, 1) + 4e-7
				if !(math.Abs(float64(sp)-want) <= rel*want+1e-37) {
					spF = fmt.Sprintf("sp=BAD(got=%v,want=%v)", sp, want)
				}
			}
		} else if n == 0 {
			// empty alphabet: no candidates at all; NaN is what 0/0 gives and is not compared
		}
		// the pre-flight decision, observed through Generate on a long random tape
		accF, _ := field(lean, "acc")
		accOut := "acc=" + accF
		if accF == "0" || accF == "1" {
			band := false
			if exactP != nil {
				p, _ := exactP.Float64()
				T := float64(spg.MaxTrials)
				if p > 0 && p < 1 && spg.MaxFailRate > 0 {
					e2 := float64(maxInt(spec.L, 0)) * math.Log2(float64(maxInt(n, 1)))
					rel := 4*math.Pow(2, -23)*math.Max(e2, 1) + 4e-7
					dl := T * p * rel / (1 - p)
					if math.Abs(T*math.Log1p(-p)-math.Log(spg.MaxFailRate)) <= 4*dl+1e-6 {
						band = true
					}
				}
			}
			if band {
				st.BandSkipped++
				branch("charinfo:guard-band")
			} else {
				tape := make([]uint32, 64)
				g := rng{s: uint64(n)*1000003 + uint64(spec.L)}
				for i := range tape {
					tape[i] = g.u32()
				}
				s := &scripted{bytes: wordsToBytes(tape)}
				var err error
				withReader(s, func() { _, err = r.Generate() })
				capt.take()
				obs := "1"
				if err != nil && errKind(err) == "failrate" {
					obs = "0"
				}
				accOut = "acc=" + obs
				// direct oracle (C13), from the implementation's own exact count: the configured budget
				// tolerates failure probability MaxFailRate over MaxTrials attempts, i.e. a single-attempt
				// success chance of at least p* = 1 - MaxFailRate^(1/MaxTrials)
				if M.Sign() > 0 && cnt.Sign() >= 0 && spg.MaxTrials > 0 && spg.MaxFailRate > 0 && spg.MaxFailRate < 1 && n > 0 && spec.L >= 1 {
					pi, _ := new(big.Float).Quo(new(big.Float).SetInt(cnt), new(big.Float).SetInt(M)).Float64()
					pstar := 1 - math.Pow(spg.MaxFailRate, 1/float64(spg.MaxTrials))
					// outside the guard band (where float32 rounding in the implementation could tip the
					// decision either way) the decision is determined: (1-p)^T <= MaxFailRate
					want := float64(spg.MaxTrials)*math.Log1p(-pi) <= math.Log(spg.MaxFailRate)
					if obs == "0" && want {
						accOut += fmt.Sprintf(" REFUSED-ABOVE-THRESHOLD(p=%.6g,needed=%.6g)", pi, pstar)
					}
					if obs == "1" && !want {
						accOut += fmt.Sprintf(" ACCEPTED-BELOW-THRESHOLD(p=%.6g,needed=%.6g)", pi, pstar)
					}
				}
			}
		}
		branch("charinfo:acc=" + accF)
		return fmt.Sprintf("alpha=%s N=%d cnt=%s M=%s %s %s %s warnE=%d warnSP=%d%s%s%s", encCps(alpha), n, cnt.String(), M.String(),
			d, spF, accOut, wE, wSP, alphaFail, unknownField(append(unk1, unk2...)), after())

	case "chargen":
		defer setCfg(a)()
		spec := parseRecipe(a["r"])
		r, after := e.charRecipe(a, spec)
		noteRecipe(spec)
		s := readerFor(a)
		var p *spg.Password
		var err error
		ro := withReader(s, func() { p, err = r.Generate() })
		warn, _, unk := classifyOutput(capt.take())
		opCtx.set, opCtx.noList, opCtx.length, opCtx.alphabetEmpty, opCtx.used = true, false, spec.L, len(setsOf(spec).alphabet) == 0, ro.used
		oracle := ""
		if !ro.panicked {
			oracle = charOracle(spec, decWords(a["tape"]), p, ro.used, spg.MaxTrials)
		}
		if _, chunked := a["chunk"]; !chunked && a["extra"] == "" {
			oracle += attemptsOracle(spec, decWords(a["tape"]), err, ro.used, spg.MaxTrials)
		}
		// the same call with ANOTHER complete call made in the middle of it (from inside the
		// random source's Read, after it has delivered its bytes): a call's result is a function of
		// its recipe and the bytes it was given, not of what else the library is doing meanwhile
		if a["reenter"] != "" && !ro.panicked && err == nil && p != nil {
			s2 := readerFor(a)
			s2.reenterAt = a.int("reenter")
			s2.reenter = nestedCall
			nestDepth, nestedFirst = maxInt(a.int("depth"), 1), ""
			var p2 *spg.Password
			var err2 error
			ro2 := withReader(s2, func() { p2, err2 = r.Generate() })
			capt.take()
			if nestedFailed != "" {
				oracle += " REENTRANCY-DEPENDENT=nested(" + nestedFailed + ")"
				nestedFailed = ""
			}
			if reentryBlocked {
				oracle += " REENTRANCY-DEPENDENT=blocked(a call made while another is in progress never returned)"
				reentryBlocked = false
			} else if ro2.panicked || err2 != nil || p2 == nil || p2.String() != p.String() || p2.Entropy != p.Entropy {
				oracle += " REENTRANCY-DEPENDENT"
			}
		}
		if a["reconf"] != "" && !ro.panicked && a["obj"] == "" {
			// the caller changes its recipe VARIABLE while a call made through it is in flight (from
			// inside the source's Read): the call in flight works on the recipe it was given
			saved := *r
			s2 := readerFor(a)
			s2.reenterAt = a.int("reconf")
			s2.reenter = func() {
				r.RequireSets, r.Require, r.Exclude, r.Length, r.AllowChars, r.Allow = nil, 0, 0, 1, "Z", 0
				withReader(&scripted{bytes: make([]byte, 64)}, func() { r.Generate() })
			}
			var p2 *spg.Password
			var err2 error
			ro2 := withReader(s2, func() { p2, err2 = r.Generate() })
			capt.take()
			*r = saved
			if reentryBlocked {
				reentryBlocked = false
			} else if ro2.panicked || (err2 == nil) != (err == nil) || (p != nil && p2 != nil && p2.String() != p.String()) {
				oracle += " RECONFIGURE-DEPENDENT(the caller reassigned the fields of its recipe variable while a call was in flight: that call's result changed)"
			}
		}
		if a["slow"] != "" && !ro.panicked {
			var p2 *spg.Password
			var err2 error
			ro2 := withReader(slowReaderFor(a), func() { p2, err2 = r.Generate() })
			capt.take()
			if ro2.panicked || (err2 == nil) != (err == nil) || (p != nil && p2 != nil && (p2.String() != p.String() || p2.Entropy != p.Entropy)) || ro2.used != ro.used {
				oracle += fmt.Sprintf(" TIMING-DEPENDENT(slow=%s: err=%v used=%d; prompt source: err=%v used=%d)", a["slow"], err2, ro2.used, err, ro.used)
			}
		}
		if _, chunked := a["chunk"]; !chunked && a["extra"] == "" && a["resume"] == "" && a["reenter"] == "" && len(a["tape"]) < 600 {
			want := ""
			if p != nil && err == nil {
				want = p.String()
			} else if err != nil {
				want = "error"
			}
			oracle += sourceTypeDependence(wordsToBytes(decWords(a["tape"])), func() (string, bool) {
				p2, err2 := r.Generate()
				if err2 != nil || p2 == nil {
					return "error", true
				}
				return p2.String(), true
			}, want, ro.panicked)
		}
		// an error value the caller kept from an earlier call says what it said, whatever refusals followed
		if keptErr != nil && keptErr.Error() != keptErrText {
			oracle += " RESULT-CHANGED-LATER(an error value returned by an earlier call now reads " + encHex([]byte(keptErr.Error())) + ", it read " + encHex([]byte(keptErrText)) + ")"
			keptErr = nil
		}
		if err != nil && a["obj"] == "" {
			keptErr, keptErrText = err, err.Error()
		}
		res := genLine("chargen", lean, p, err, ro, warn, unk, 3, secretsOf(p, nil)) + oracle + after()
		if a["obj"] == "" && a["gc"] == "1" {
			res += keptResultSurvives(&p)
		}
		return res

	case "newcr":
		// what NewCharRecipe hands out, and then the caller customises its recipe as the
		// documentation invites — which must not affect the next one handed out
		r := spg.NewCharRecipe(a.int("L"))
		capt.take()
		if r == nil {
			return "nil"
		}
		l := fmt.Sprintf("L=%d allow=%d require=%d exclude=%d ac=%s rs=%d ec=%s", r.Length, uint32(r.Allow), uint32(r.Require),
			uint32(r.Exclude), encCps(r.AllowChars), len(r.RequireSets), encCps(r.ExcludeChars))
		// documented: everything allowed (upper, lower, digits, symbols = 1|2|4|8), the ambiguous (16) excluded
		if r.Length != a.int("L") || uint32(r.Allow) != 15 || r.Require != 0 || uint32(r.Exclude) != 16 || r.AllowChars != "" ||
			len(r.RequireSets) != 0 || r.ExcludeChars != "" {
			l += " DEFAULTS-FAIL"
		}
		r.Length, r.Allow, r.Require, r.Exclude = 99, spg.Digits, spg.Digits, spg.None
		r.AllowChars, r.ExcludeChars, r.RequireSets = "é", "xyz", []string{"q"}
		return l
	case "newwl":
		wl, _ := spg.NewWordList([]string{"one", "two"})
		r := spg.NewWLRecipe(a.int("L"), wl)
		capt.take()
		if r == nil {
			return "nil"
		}
		sf := "nil"
		if r.SeparatorFunc != nil {
			sf = "set"
		}
		l := fmt.Sprintf("L=%d sepchar=%s sf=%s cap=%s", r.Length, encCps(r.SeparatorChar), sf, string(r.Capitalize))
		if r.Length != a.int("L") || r.SeparatorChar != "" || r.SeparatorFunc != nil || string(r.Capitalize) != "none" {
			l += " DEFAULTS-FAIL"
		}
		r.Length, r.SeparatorChar, r.SeparatorFunc, r.Capitalize = 99, "#", spg.SFDigits1, spg.CSAll
		return l

	case "wlnew":
		words := wordsArg(a)
		reps := a.int("reps")
		if reps < 1 {
			reps = 1
		}
		first := ""
		for i := 0; i < reps; i++ {
			src := callerBuffer(words)
			if strings.HasPrefix(a["words"], "@") {
				src = words // the exported list itself, as a caller would pass it
			}
			wl, err := spg.NewWordList(src)
			_, dup, unk := classifyOutput(capt.take())
			var l string
			if err != nil {
				if wl != nil {
					l = "err-with-list"
				} else {
					l = "err empty"
				}
			} else {
				kept := readBack(wl)
				capt.take()
				// all capitalisable? observed through the entropy of the `random` scheme
				r1 := spg.NewWLRecipe(1, wl)
				r1.Capitalize = spg.CSRandom
				e1 := r1.Entropy()
				r1.Capitalize = spg.CSNone
				e0 := r1.Entropy()
				allcap := 0
				if e1 > e0+0.5 {
					allcap = 1
				}
				if dup < 0 {
					dup = 0
				}
				shown := encList(kept)
				if a["show"] == "0" {
					shown = fmt.Sprintf("#%d", len(kept))
				}
				l = fmt.Sprintf("ok kept=%s size=%d allcap=%d dup=%d", shown, wl.Size(), allcap, dup)
				l += keptOracle(words, kept, int(wl.Size()), allcap == 1)
				if strings.HasPrefix(a["words"], "@") {
					l += builtinsIntact()
				} else if !sameStrings(src, words) {
					l += " MUTATED=caller-slice"
				}
			}
			l += unknownField(unk)
			if i == 0 {
				first = l
			} else if l != first {
				return "UNSTABLE first=[" + first + "] later=[" + l + "]"
			}
		}
		branch("wlnew:" + strings.Fields(first)[0])
		return first

	case "wlgen", "wlent":
		defer setCfg(a)()
		if a["sfnone"] == "reassigned" {
			// the exported preset variables are the program's to assign; a recipe goes by its own fields
			oldNone := spg.SFNone
			spg.SFNone = func() (string, spg.FloatE) { return "#", 4.5 }
			defer func() { spg.SFNone = oldNone }()
		}
		if re := a["reassign"]; re != "" {
			// likewise for every other preset variable: the recipe below holds the VALUE a preset had
			stub := spg.SFFunction(func() (string, spg.FloatE) { return "#", 4.5 })
			vars := map[string]*spg.SFFunction{"none": &spg.SFNone, "d1": &spg.SFDigits1, "d2": &spg.SFDigits2, "dna1": &spg.SFDigitsNoAmbiguous1,
				"dna2": &spg.SFDigitsNoAmbiguous2, "sym": &spg.SFSymbols, "ds": &spg.SFDigitsSymbols}
			if v := vars[re]; v != nil {
				old := *v
				*v = stub
				defer func() { *v = old }()
			}
		}
		wl, werr, after := e.wordList(a)
		if werr != nil {
			return "err empty-list"
		}
		var r *spg.WLRecipe
		if id, shared := a["obj"]; shared {
			_ = id
		}
		r = spg.NewWLRecipe(a.int("L"), wl)
		copied := false
		if len(a["tape"])%2 == 1 {
			// the caller copies the recipe it was handed (a template, a snapshot) and configures the copy
			c := *r
			r.SeparatorChar, r.Capitalize, r.Length = "ORIGINAL-NOT-THE-COPY", spg.CSAll, 1
			r = &c
			copied = true
		}
		if id, ok := a["sepobj"]; ok && (strings.HasPrefix(a["sep"], "recipe:") || strings.HasPrefix(a["sep"], "preset:")) {
			// one separator function shared by many calls and recipes, as a caller would keep it
			key := id + "|" + a["sep"]
			if f, ok := e.seps[key]; ok {
				r.SeparatorFunc = f
			} else {
				applySep(r, a["sep"])
				e.seps[key] = r.SeparatorFunc
			}
		} else {
			applySep(r, a["sep"])
		}
		if v, ok := a["sepchar"]; ok && r.SeparatorFunc != nil {
			// both fields set: the function is what Generate AND Entropy go by
			r.SeparatorChar = decCps(v)
		}
		r.Capitalize = spg.CapScheme(decCps(a["cap"]))
		before := *r
		if a.int("L") > st.MaxLength {
			st.MaxLength = a.int("L")
		}
		s := readerFor(a)
		if op == "wlent" {
			var ent float32
			ro := withReader(s, func() { ent = r.Entropy() })
			warn, _, unk := classifyOutput(capt.take())
			if ro.panicked {
				return panicLine(ro.panicMsg) + unknownField(unk)
			}
			stable := ""
			if sepStreamIndependent(a["sep"]) && wl != nil && r.Length >= 1 {
				// the entropy of a recipe is a property of the recipe: whatever the source does
				// (another stream, a stream that ends), a value that IS returned is that value
				healthy := &scripted{bytes: make([]byte, 4096)}
				var ent2 float32
				ro2 := withReader(healthy, func() { ent2 = r.Entropy() })
				capt.take()
				if !ro2.panicked && math.Float32bits(ent) != math.Float32bits(ent2) && !(ent != ent && ent2 != ent2) {
					stable = fmt.Sprintf(" D=UNSTABLE(%v,on-a-healthy-source:%v)", ent, ent2)
				}
			}
			return fmt.Sprintf("ok %s used=%d warn=%d%s%s%s", dField(lean, ent, 8), ro.used, warn, unknownField(unk), stable, after())
		}
		var p *spg.Password
		var err error
		customSepCalls = 0
		ro := withReader(s, func() { p, err = r.Generate() })
		sepCalls := customSepCalls
		warn, _, unk := classifyOutput(capt.take())
		opCtx.set, opCtx.noList, opCtx.length, opCtx.alphabetEmpty, opCtx.used = true, wl == nil || wl.Size() == 0, a.int("L"), false, ro.used
		mut := ""
		if strings.HasPrefix(a["sep"], "custom:") && !ro.panicked && err == nil && p != nil && a.int("L") >= 1 && sepCalls < a.int("L")-1 {
			// each separator is a fresh draw from the separator function: one call per gap at least
			mut += fmt.Sprintf(" SEP-NOT-FRESH(%d gaps, the separator function was called %d times)", a.int("L")-1, sepCalls)
		}
		if before.Length != r.Length || before.SeparatorChar != r.SeparatorChar || before.Capitalize != r.Capitalize ||
			(before.SeparatorFunc == nil) != (r.SeparatorFunc == nil) || before.Size() != r.Size() {
			mut = " MUTATED=wlrecipe-fields"
		}
		var listWords []string
		if wl != nil && wl.Size() <= 64 {
			listWords = readBack(wl)
			capt.take()
		}
		so := ""
		if listWords != nil {
			// each word is to be chosen with probability 1/Size(): the list itself must be duplicate-free
			seenW := map[string]bool{}
			for _, w := range listWords {
				if seenW[w] {
					so = " LIST-DUPLICATE=" + encCps(w)
					break
				}
				seenW[w] = true
			}
		}
		if wl != nil && listWords != nil && !ro.panicked && err == nil {
			// the list as read back through one-word generations has an empty entry only if the input had one
			inputEmpty, backEmpty := false, false
			for _, w := range wordsArg(a) {
				inputEmpty = inputEmpty || w == ""
			}
			for _, w := range listWords {
				backEmpty = backEmpty || w == ""
			}
			if backEmpty && !inputEmpty {
				so += " STRUCT-FAIL=a-word-of-the-list-yields-no-atom(no input word is empty, yet a one-word generation returns no atom)"
			}
			so += wlOracle(p, listWords, a.int("L"), a["sep"], decCps(a["cap"]))
		}
		// a password returned earlier from the same list must still read the same (C05, C15)
		if id, ok := a["wlobj"]; ok {
			if k, ok := e.kept[id]; ok && k.p != nil {
				if now := showTokens(k.p.Tokens()) + "|" + k.p.String(); now != k.rendered {
					so += " RESULT-CHANGED-LATER"
				}
			}
			if p != nil {
				e.kept[id] = keptPassword{p, showTokens(p.Tokens()) + "|" + p.String()}
			}
		}
		// … however the source chunks its answers (C09): the same bytes delivered in short reads
		if _, chunked := a["chunk"]; chunked && !ro.panicked && err == nil && p != nil {
			s2 := &scripted{bytes: wordsToBytes(decWords(a["tape"]))}
			var p2 *spg.Password
			ro2 := withReader(s2, func() { p2, _ = r.Generate() })
			capt.take()
			if !ro2.panicked && p2 != nil && showTokens(p2.Tokens()) != showTokens(p.Tokens()) {
				so += " CHUNKING-DEPENDENT"
			}
		}
		// statistical check of the separators drawn at each gap (C04)
		if a["stat"] == "1" && !ro.panicked && err == nil && p != nil && wl != nil && strings.HasPrefix(a["sep"], "custom:") {
			so += statSeps(r, a.int("L"), a["sep"], a["words"]+a["sep"]+a["L"])
			capt.take()
		}
		if a["reenter"] != "" && !ro.panicked && err == nil && p != nil {
			s2 := readerFor(a)
			s2.reenterAt = a.int("reenter")
			s2.reenter = nestedCall
			nestDepth, nestedFirst = maxInt(a.int("depth"), 1), ""
			var p2 *spg.Password
			ro2 := withReader(s2, func() { p2, _ = r.Generate() })
			capt.take()
			if nestedFailed != "" {
				so += " REENTRANCY-DEPENDENT=nested(" + nestedFailed + ")"
				nestedFailed = ""
			}
			if reentryBlocked {
				so += " REENTRANCY-DEPENDENT=blocked(a call made while another is in progress never returned)"
				reentryBlocked = false
			} else if ro2.panicked || p2 == nil || showTokens(p2.Tokens()) != showTokens(p.Tokens()) || p2.Entropy != p.Entropy {
				so += " REENTRANCY-DEPENDENT"
			}
		}
		if _, chunked := a["chunk"]; !chunked && a["extra"] == "" && a["resume"] == "" && a["reenter"] == "" && len(a["tape"]) < 600 && !strings.HasPrefix(a["sep"], "custom:") && a["sepobj"] == "" {
			want := ""
			if p != nil && err == nil {
				want = showTokens(p.Tokens())
			} else if err != nil {
				want = "error"
			}
			so += sourceTypeDependence(wordsToBytes(decWords(a["tape"])), func() (string, bool) {
				p2, err2 := r.Generate()
				if err2 != nil || p2 == nil {
					return "error", true
				}
				return showTokens(p2.Tokens()), true
			}, want, ro.panicked)
		}
		if a["reconf"] != "" && !ro.panicked && a["obj"] == "" && a["wlobj"] == "" {
			saved := *r
			s2 := readerFor(a)
			s2.reenterAt = a.int("reconf")
			s2.reenter = func() {
				r.Length, r.SeparatorChar, r.SeparatorFunc, r.Capitalize = 1, "#", nil, spg.CSAll
				withReader(&scripted{bytes: make([]byte, 64)}, func() { r.Generate() })
			}
			var p2 *spg.Password
			var err2 error
			ro2 := withReader(s2, func() { p2, err2 = r.Generate() })
			capt.take()
			*r = saved
			if reentryBlocked {
				reentryBlocked = false
			} else if ro2.panicked || (err2 == nil) != (err == nil) || (p != nil && p2 != nil && showTokens(p2.Tokens()) != showTokens(p.Tokens())) {
				so += " RECONFIGURE-DEPENDENT(the caller reassigned the fields of its recipe variable while a call was in flight: that call's result changed)"
			}
		}
		if a["slow"] != "" && !ro.panicked {
			var p2 *spg.Password
			var err2 error
			ro2 := withReader(slowReaderFor(a), func() { p2, err2 = r.Generate() })
			capt.take()
			if ro2.panicked || (err2 == nil) != (err == nil) || (p != nil && p2 != nil && (showTokens(p2.Tokens()) != showTokens(p.Tokens()) || p2.Entropy != p.Entropy)) || ro2.used != ro.used {
				so += fmt.Sprintf(" TIMING-DEPENDENT(slow=%s: err=%v used=%d; prompt source: err=%v used=%d)", a["slow"], err2, ro2.used, err, ro.used)
			}
		}
		// the same recipe on the same bytes makes the same choices (C09)
		if a["twice"] == "1" && !ro.panicked && err == nil && p != nil {
			s2 := readerFor(a)
			var p2 *spg.Password
			withReader(s2, func() { p2, _ = r.Generate() })
			capt.take()
			if p2 == nil || showTokens(p2.Tokens()) != showTokens(p.Tokens()) {
				so += " NONDETERMINISTIC"
			}
		}
		// statistical check of the capitalisation choices over many positions (C04, C01)
		if a["stat"] == "1" && !ro.panicked && err == nil && p != nil && wl != nil {
			so += statCaps(r, readBack(wl), a.int("L"), decCps(a["cap"]), a["words"]+a["cap"]+a["L"])
			capt.take()
		}
		if copied && !ro.panicked && a["obj"] == "" && a["wlobj"] == "" && a["sepobj"] == "" && !strings.HasPrefix(a["sep"], "custom:") {
			// the same configuration on a recipe built directly (no copy): same bytes, same password
			d := spg.NewWLRecipe(a.int("L"), wl)
			applySep(d, a["sep"])
			if v, ok := a["sepchar"]; ok && d.SeparatorFunc != nil {
				d.SeparatorChar = decCps(v)
			}
			d.Capitalize = spg.CapScheme(decCps(a["cap"]))
			var p2 *spg.Password
			var err2 error
			ro2 := withReader(readerFor(a), func() { p2, err2 = d.Generate() })
			capt.take()
			if ro2.panicked || (err2 == nil) != (err == nil) || (p != nil && p2 != nil && showTokens(p2.Tokens()) != showTokens(p.Tokens())) {
				so += " COPY-DEPENDENT(a configured COPY of what NewWLRecipe returned and a recipe configured directly give different results on the same bytes)"
			}
		}
		res := genLine("wlgen", lean, p, err, ro, warn, unk, 8, secretsOf(p, listWords)) + so + mut + after()
		if a["obj"] == "" && a["wlobj"] == "" && a["gc"] == "1" {
			res += keptResultSurvives(&p)
		}
		return res

	case "wlent0":
		// Entropy() where Generate would refuse (Length < 1): the property's formula, literally —
		// Length*log2(size) + (Length-1)*separator entropy, no capitalisation term for none/first/all
		wl, werr, _ := e.wordList(a)
		if werr != nil || wl == nil {
			return "ok formula"
		}
		L := a.int("L")
		r := spg.NewWLRecipe(L, wl)
		applySep(r, a["sep"])
		r.Capitalize = spg.CapScheme(decCps(a["cap"]))
		sepEnt := 0.0
		if strings.HasPrefix(a["sep"], "preset:") {
			sepEnt = map[string]float64{"none": 0, "d1": math.Log2(10), "d2": 2 * math.Log2(10), "dna1": math.Log2(7), "dna2": 2 * math.Log2(7), "sym": math.Log2(6), "ds": math.Log2(16)}[a["sep"][7:]]
		} else if strings.HasPrefix(a["sep"], "custom:") {
			d, _ := strconv.Atoi(strings.SplitN(a["sep"][7:], ":", 2)[0])
			sepEnt = math.Log2(float64(d))
		}
		want := float64(L)*math.Log2(float64(wl.Size())) + (float64(L)-1)*sepEnt
		var got float32
		ro := withReader(&scripted{bytes: make([]byte, 256)}, func() { got = r.Entropy() })
		capt.take()
		if ro.panicked {
			return "ok formula panic"
		}
		if math.IsNaN(want) != (got != got) || (!math.IsNaN(want) && math.Abs(float64(got)-want) > 1e-4*math.Max(1, math.Abs(want)) && !(math.IsInf(want, 0) && math.IsInf(float64(got), 0) && (want > 0) == (got > 0))) {
			return fmt.Sprintf("ok formula D=BAD(Entropy()=%v at Length %d, the formula gives %v)", got, L, want)
		}
		return "ok formula"

	case "title":
		// strings.Title itself, against its transcription in the model (ASCII words)
		w := decCps(a["w"])
		for _, c := range w {
			if c >= 128 {
				return "non-ascii"
			}
		}
		t := strings.Title(w)
		return "t=" + encCps(t) + " again=" + encCps(strings.Title(t))

	case "explode":
		pw := string(decHex(a["pw"]))
		ch := strings.Split(pw, "")
		var p []string
		for _, c := range ch {
			p = append(p, encHex([]byte(c)))
		}
		l := "chunks=-"
		if len(p) > 0 {
			l = "chunks=" + strings.Join(p, ",")
		}
		if utf8.RuneCountInString(pw) != len(ch) {
			l += " RUNECOUNT-MISMATCH"
		}
		return l

	case "mkidx":
		var vals []string
		var types []byte
		if a["toks"] != "-" && a["toks"] != "" {
			for _, f := range strings.Split(a["toks"], ",") {
				p := strings.Split(f, ":")
				t, _ := strconv.Atoi(p[0])
				vals = append(vals, string(decHex(p[1])))
				types = append(types, byte(t))
			}
		}
		// the caller's token slice is a PREFIX of a longer one (the first tokens of a password, say):
		// classifying or indexing the prefix must leave the rest of the caller's array alone
		guardV := append(append([]string{}, vals...), "GUARD-0", "GUARD-1", "GUARD-2")
		guardT := append(append([]byte{}, types...), 1, 0, 1)
		whole := spg.VerifTokens(guardV, guardT)
		ts := whole[:len(vals)]
		var ix spg.Indices
		var err error
		ro := withReader(&scripted{}, func() { ix, err = ts.MakeIndices(); _ = ts.Kind(); _ = ts.Atoms(); _ = ts.Separators() })
		_, _, unk := classifyOutput(capt.take())
		if ro.panicked {
			return "panic other:" + encHex([]byte(ro.panicMsg))
		}
		for i := len(vals); i < len(whole); i++ {
			if whole[i].Value() != guardV[i] || byte(whole[i].Type()) != guardT[i] {
				return "MUTATED=caller-tokens-beyond-len(token " + strconv.Itoa(i-len(vals)) + " after the indexed prefix was overwritten)" + unknownField(unk)
			}
		}
		if err != nil {
			branch("mkidx:err")
			// a sequence whose every token has 1..255 characters must be encodable (C11)
			enc := len(vals) > 0
			for _, v := range vals {
				if c := utf8.RuneCountInString(v); c < 1 || c > 255 {
					enc = false
				}
			}
			if enc {
				return "err toolarge ROUNDTRIP-FAIL=refused-an-encodable-sequence" + unknownField(unk)
			}
			return "err toolarge" + unknownField(unk)
		}
		for _, v := range vals {
			if c := utf8.RuneCountInString(v); c > 255 {
				return fmt.Sprintf("ok idx=%s ROUNDTRIP-FAIL=lossy-index(a token of %d characters was given an index entry)", encHex(ix), c) + unknownField(unk)
			}
		}
		kind := "na"
		if len(ts) > 0 {
			kind = strconv.Itoa(int(ts.Kind()))
		}
		branch("mkidx:kind" + kind)
		// direct round-trip oracle (C11): Tokenize(String(), idx, e) gives back the same tokens
		rt := ""
		if len(ts) > 0 {
			pw := ""
			for _, v := range vals {
				pw += v
			}
			// the entropy is carried, not interpreted: any value a recipe can report, 0 bits included
			ent := entropyValues[len(pw)%len(entropyValues)]
			var q spg.Password
			var terr error
			ro2 := withReader(&scripted{}, func() { q, terr = spg.Tokenize(pw, ix, ent) })
			capt.take()
			if ro2.panicked {
				rt = " ROUNDTRIP-FAIL=panic"
			} else if terr != nil {
				rt = " ROUNDTRIP-FAIL=error"
			} else if !reflect.DeepEqual(q.Tokens(), ts) || math.Float32bits(q.Entropy) != math.Float32bits(ent) {
				rt = " ROUNDTRIP-FAIL=differs"
			} else if q.String() != pw {
				// String() is the concatenation of the token values in order, whatever the order of types
				rt = " STRING-FAIL(String() of the decoded password is " + encHex([]byte(q.String())) + ")"
			}
			// only sequences whose every token has 1..255 characters are promised to round-trip
			for _, v := range vals {
				if c := utf8.RuneCountInString(v); c < 1 || c > 255 {
					rt = ""
				}
			}
		}
		if len(ts) > 0 && rt == "" {
			pw := ""
			for _, v := range vals {
				pw += v
			}
			if c := tokenizeConcurrently(pw, ix, 1.5); c != "" {
				rt = " CONCURRENCY-DEPENDENT(" + c + ")"
			}
		}
		res := fmt.Sprintf("ok idx=%s kind=%s%s%s", encHex(ix), kind, rt, unknownField(unk))
		// the returned index belongs to the caller, who may reuse it as a buffer
		for i := range ix {
			ix[i] = 0xA5
		}
		return res

	case "tokenize":
		pw := string(decHex(a["pw"]))
		idx := spg.Indices(decHex(a["idx"]))
		// the entropy is carried, not interpreted: whatever a recipe can report, bit for bit
		ent := entropyValues[(len(pw)+len(a["idx"]))%len(entropyValues)]
		var q spg.Password
		var err error
		if len(idx) == 0 {
			// "no index" comes in three shapes — nil, an empty literal, the empty tail of a buffer —
			// and all three are the same index
			for vi, v := range []spg.Indices{spg.Indices{}, make(spg.Indices, 0, 8), spg.Indices{1, 2, 3}[3:]} {
				var e2 error
				ro2 := withReader(&scripted{}, func() { _, e2 = spg.Tokenize(pw, v, ent) })
				capt.take()
				if ro2.panicked {
					branch("tokenize:panic")
					return "panic other:" + encHex([]byte(fmt.Sprintf("empty non-nil index (shape %d): %s", vi, ro2.panicMsg)))
				}
				if e2 == nil {
					return "EMPTY-INDEX-ACCEPTED"
				}
			}
		}
		// the index is a PREFIX of a longer buffer of the caller's (indices packed back to back in a
		// record, a reused buffer): what lies behind it is not the library's to write
		idxCopy := append(spg.Indices{}, idx...)
		record := append(append(spg.Indices{}, idx...), bytes.Repeat([]byte{0xEE}, 300)...)
		idx = record[:len(idxCopy)]
		ro := withReader(&scripted{}, func() { q, err = spg.Tokenize(pw, idx, ent) })
		_, _, unk := classifyOutput(capt.take())
		if ro.panicked {
			branch("tokenize:panic")
			return "panic other:" + encHex([]byte(ro.panicMsg))
		}
		for i, b := range record {
			if (i < len(idxCopy) && b != idxCopy[i]) || (i >= len(idxCopy) && b != 0xEE) {
				return fmt.Sprintf("MUTATED=caller-index(byte %d of the caller's buffer, of which the index is the first %d bytes, was overwritten with %d)", i, len(idxCopy), b) + unknownField(unk)
			}
		}
		if err != nil {
			branch("tokenize:err")
			return "err" + unknownField(unk)
		}
		branch("tokenize:ok")
		var p []string
		cat := ""
		for _, t := range q.Tokens() {
			p = append(p, fmt.Sprintf("%d:%s", t.Type(), encHex([]byte(t.Value()))))
			cat += t.Value()
		}
		l := "ok toks=-"
		if len(p) > 0 {
			l = "ok toks=" + strings.Join(p, ",")
		}
		if !strings.HasPrefix(pw, cat) {
			l += " PREFIX-FAIL"
		}
		if q.String() != cat {
			l += " STRING-FAIL(String() is not the concatenation of the tokens)"
		}
		// each token has exactly the character count the index specifies (C12)
		if len(idx) > 0 {
			toks := q.Tokens()
			for i, t := range toks {
				want := -1
				switch idx[0] {
				case 0:
					want = 1
				case 1, 2:
					if 1+i < len(idx) {
						want = int(idx[1+i])
					}
				case 3:
					if 1+2*i < len(idx) {
						want = int(idx[1+2*i])
					}
				}
				if got := len(strings.Split(t.Value(), "")); t.Value() == "" && want == 0 {
					continue
				} else if want >= 0 && got != want {
					l += fmt.Sprintf(" COUNT-FAIL(token %d has %d characters, index says %d)", i, got, want)
					break
				}
			}
		}
		if math.Float32bits(q.Entropy) != math.Float32bits(ent) {
			l += fmt.Sprintf(" ENTROPY-CHANGED(passed %v, carries %v)", ent, q.Entropy)
		}
		if c := tokenizeConcurrently(pw, idx, ent); c != "" {
			l += " CONCURRENCY-DEPENDENT(" + c + ")"
		}
		// the index belongs to the caller: reusing it must not change the password already decoded
		before := showTokens(q.Tokens())
		for i := range idx {
			idx[i] = 0x5A
		}
		if showTokens(q.Tokens()) != before {
			l += " RESULT-CHANGED-LATER"
		}
		return l + unknownField(unk)

	case "wlcell":
		return e.wlCell(a, lean)

	case "cli":
		return e.execCli(a, lean)
	}
	return "bad-op " + op
}

func maxInt(a, b int) int {
	if a > b {
		return a
	}
	return b
}

func noteRecipe(r recipeSpec) {
	if r.L > st.MaxLength {
		st.MaxLength = r.L
	}
	if len(r.rs) > st.MaxReqSets {
		st.MaxReqSets = len(r.rs)
	}
}

// secretsOf lists the strings that must never show up in captured output: the password, its
// atoms and separators (of two or more characters, to keep accidental matches with counts out).
func secretsOf(p *spg.Password, listWords []string) []string {
	if p == nil {
		return nil
	}
	var s []string
	if utf8.RuneCountInString(p.String()) >= 2 {
		s = append(s, p.String())
	}
	for _, t := range p.Tokens() {
		if utf8.RuneCountInString(t.Value()) >= 3 {
			s = append(s, t.Value())
		}
	}
	_ = listWords
	return s
}

func genLine(op, lean string, p *spg.Password, err error, ro runOut, warn int, unk []string, ulps float64, secrets []string) string {
	leak := ""
	for _, u := range unk {
		for _, s := range secrets {
			if strings.Contains(u, s) {
				leak = " SECRET-LEAK"
			}
		}
	}
	if ro.panicked {
		branch(op + ":" + panicLine(ro.panicMsg))
		return panicLine(ro.panicMsg) + unknownField(unk) + leak
	}
	if err != nil {
		k := errKind(err)
		branch(op + ":err-" + k)
		l := fmt.Sprintf("err kind=%s used=%d warn=%d", k, ro.used, warn)
		if p != nil {
			l += " ERR-WITH-PASSWORD"
		}
		return l + unknownField(unk) + leak
	}
	if p == nil {
		return "NIL-PASSWORD-NO-ERROR"
	}
	branch(op + ":ok")
	return fmt.Sprintf("ok toks=%s used=%d %s warn=%d%s%s%s", showTokens(p.Tokens()), ro.used,
		dField(lean, p.Entropy, ulps), warn, passwordShape(p), unknownField(unk), leak)
}

// ---------- opgen

// usageText: what the binary prints on standard output when it is run without any argument —
// the usage text, whatever its wording (it comes from constant strings only: cli_output_sites).
func (e *executor) usageText() string {
	if e.usage == nil {
		cmd := exec.Command(e.opgen)
		var so strings.Builder
		cmd.Stdout = &so
		cmd.Run()
		u := so.String()
		e.usage = &u
	}
	return *e.usage
}

func (e *executor) execCli(a opArgs, lean string) string {
	if e.opgen == "" {
		return "no-opgen-binary"
	}
	argv := decList(a["argv"])
	if a["argv"] != "-" && argv == nil {
		argv = []string{}
	}
	if ws, ok := a["words"]; ok {
		path := filepath.Join(e.tmpdir, "words.txt")
		content := strings.Join(decList(ws), "\n") + "\n"
		if ft, ok := a["filetext"]; ok {
			content = decCps(ft) // the file's text as given: any space runs, no final newline added
		}
		childEnv := os.Environ()
		if fn, ok := a["fname"]; ok {
			name := decCps(fn)
			path = filepath.Join(e.tmpdir, name)
			envA := map[string]string{}
			if a["env"] == "1" {
				envA = map[string]string{"A": "zzz", "USD": "1", "HOME": "/nonexistent-home"}
				childEnv = append(childEnv, "A=zzz", "USD=1", "HOME=/nonexistent-home")
			} else {
				childEnv = append(childEnv, "A=", "USD=")
			}
			// decoys where a name taken as a template would lead: another list entirely
			for _, alt := range []string{os.Expand(name, func(k string) string { return envA[k] }), strings.TrimSpace(name), strings.ReplaceAll(name, "%41", "A")} {
				if alt != name && alt != "" && !strings.ContainsAny(alt, "/") {
					os.WriteFile(filepath.Join(e.tmpdir, alt), []byte("WRONGLIST\nWRONGLIST2\n"), 0o644)
					defer os.Remove(filepath.Join(e.tmpdir, alt))
				}
			}
			defer os.Remove(path)
		}
		e.childEnv = childEnv
		if a["pipe"] == "1" {
			// the word file need not be a regular file: a named pipe (process substitution, /dev/stdin)
			path = filepath.Join(e.tmpdir, "words.fifo")
			os.Remove(path)
			if err := syscall.Mkfifo(path, 0o600); err == nil {
				go func(p, c string) {
					if f, err := os.OpenFile(p, os.O_WRONLY, 0); err == nil {
						f.Write([]byte(c))
						f.Close()
					}
				}(path, content)
			}
		} else {
			os.WriteFile(path, []byte(content), 0o644)
		}
		for i := range argv {
			argv[i] = strings.Replace(argv[i], "@FILE", path, 1)
		}
	} else {
		for i := range argv {
			argv[i] = strings.Replace(argv[i], "@FILE", filepath.Join(e.tmpdir, "does-not-exist"), 1)
		}
	}
	cmd := exec.Command(e.opgen, argv...)
	if e.childEnv != nil {
		cmd.Env = e.childEnv
		e.childEnv = nil
	}
	var so, se strings.Builder
	cmd.Stdout, cmd.Stderr = &so, &se
	err := cmd.Run()
	code := 0
	if err != nil {
		if ee, ok := err.(*exec.ExitError); ok {
			code = ee.ExitCode()
		} else {
			return "RUN-FAIL:" + encHex([]byte(err.Error()))
		}
	}
	stdout := so.String()
	lines := []string{}
	if stdout != "" {
		lines = strings.Split(strings.TrimSuffix(stdout, "\n"), "\n")
	}
	mism := func(why string) string {
		return fmt.Sprintf("MISMATCH:%s exit=%d stdout=%s stderr=%s", why, code, encHex([]byte(stdout)), encHex([]byte(se.String())))
	}
	kind := strings.Fields(lean + " ?")[0]
	branch("cli:" + kind)
	want := func(k string) int {
		v, _ := field(lean, k)
		n, _ := strconv.Atoi(v)
		return n
	}
	switch kind {
	case "usage":
		if code != want("exit") {
			return mism("exit-code")
		}
		if stdout != "" && stdout != e.usageText() {
			return mism("stdout-not-usage")
		}
		return lean
	case "help":
		if code != 0 {
			return mism("exit-code")
		}
		if stdout != "" {
			return mism("stdout-not-empty")
		}
		return lean
	case "fatal":
		if code != want("exit") {
			return mism("exit-code")
		}
		if stdout != "" {
			return mism("stdout-not-empty")
		}
		return lean
	case "chars", "words":
		ent, _ := field(lean, "ent")
		gen, _ := field(lean, "gen")
		ds, _ := field(lean, "D")
		D, _ := new(big.Int).SetString(ds, 10)
		if ent == "1" {
			if code != 0 {
				return mism("exit-code")
			}
			if w, _ := field(lean, "warnE"); kind == "chars" && w != "0" {
				return lean // the recipe has no alphabet: the library cannot honour it; only the exit code is pinned
			}
			rsF, _ := field(lean, "r")
			if gen != "1" && (kind == "words" || parseRecipe(rsF).L < 1) {
				return lean // entropy of a recipe with no usable length: outside the property
			}
			if len(lines) != 1 {
				return mism("stdout-lines")
			}
			v, perr := strconv.ParseFloat(lines[0], 64)
			if perr != nil {
				return mism("entropy-not-a-number")
			}
			wantE := math.Inf(-1)
			if D != nil && D.Sign() > 0 {
				wantE = log2Big(D)
			}
			if math.IsInf(wantE, -1) {
				if !math.IsInf(v, -1) {
					return mism("entropy-value")
				}
			} else if math.Abs(v-wantE) > 0.0051+math.Abs(wantE)*1e-6 {
				return mism("entropy-value")
			}
			return lean
		}
		if gen != "1" {
			if code != want("failexit") {
				return mism("exit-code")
			}
			// nothing but the library's own count-only diagnostics may be on stdout: never a password
			for _, l := range lines {
				if !entropyWarnRE.MatchString(l) {
					return mism("stdout-not-empty")
				}
			}
			return lean
		}
		if code != 0 {
			return mism("exit-code")
		}
		if len(lines) != 1 {
			return mism("stdout-lines")
		}
		pw := lines[0]
		if kind == "chars" {
			rs, _ := field(lean, "r")
			spec := parseRecipe(rs)
			al, _ := field(lean, "alpha")
			alpha := decCps(al)
			rq, _ := field(lean, "req")
			if utf8.RuneCountInString(pw) != spec.L {
				return mism("password-length")
			}
			for _, c := range pw {
				if !strings.ContainsRune(alpha, c) {
					return mism("password-char-outside-alphabet")
				}
			}
			for _, set := range decList(rq) {
				if set != "" && !strings.ContainsAny(pw, set) {
					return mism("password-misses-required-set")
				}
			}
			return lean
		}
		// words
		var kept []string
		kv, _ := field(lean, "kept")
		switch kv {
		case "@words":
			kept = spg.AgileWords
		case "@syllables":
			kept = spg.AgileSyllables
		default:
			kept = decList(kv)
		}
		sepS, _ := field(lean, "sep")
		capS, _ := field(lean, "cap")
		if !matchWords(pw, kept, a.int2(lean, "L"), sepS, capS) {
			return mism("password-not-in-support")
		}
		return lean
	}
	return mism("unknown-model-answer")
}

func (a opArgs) int2(line, k string) int {
	v, _ := field(line, k)
	n, _ := strconv.Atoi(v)
	return n
}

// matchWords: can pw be read as L words of `kept` (each possibly title-cased as the scheme
// allows) with a separator of the given kind between neighbours?
func matchWords(pw string, kept []string, L int, sep, scheme string) bool {
	set := map[string]bool{}
	for _, w := range kept {
		set[w] = true
	}
	titled := map[string]bool{}
	for _, w := range kept {
		titled[strings.Title(w)] = true
	}
	var sepMatch func(s string) []int // lengths of possible separators at the head of s
	switch {
	case strings.HasPrefix(sep, "const:") || strings.HasPrefix(sep, "char:"):
		c := decCps(sep[strings.IndexByte(sep, ':')+1:])
		sepMatch = func(s string) []int {
			if strings.HasPrefix(s, c) {
				return []int{len(c)}
			}
			return nil
		}
	case strings.HasPrefix(sep, "recipe:"):
		spec := parseRecipe(sep[7:])
		br := spec.build()
		alpha := (&br).Alphabet()
		capt.take()
		sepMatch = func(s string) []int {
			n := 0
			for i, c := range s {
				if n == spec.L {
					return []int{i}
				}
				if !strings.ContainsRune(alpha, c) {
					return nil
				}
				n++
			}
			if n == spec.L {
				return []int{len(s)}
			}
			return nil
		}
	default:
		return false
	}
	capsAllowed := func(i int, isCap bool, ncap int) bool { return true }
	_ = capsAllowed
	type key struct{ pos, i, caps int }
	memo := map[key]bool{}
	var rec func(pos, i, caps int) bool
	rec = func(pos, i, caps int) bool {
		k := key{pos, i, caps}
		if v, ok := memo[k]; ok {
			return v
		}
		res := false
		for end := pos + 1; end <= len(pw) && !res; end++ {
			w := pw[pos:end]
			for _, isCap := range []bool{false, true} {
				if isCap && !titled[w] || !isCap && !set[w] {
					continue
				}
				// which capitalisation is allowed at position i
				okc := true
				switch scheme {
				case "none", "_", "":
					okc = !isCap
				case "first":
					okc = isCap == (i == 0)
				case "all":
					okc = isCap
				case "one", "random":
					okc = true
				default:
					okc = !isCap
				}
				if !okc {
					continue
				}
				nc := caps
				if isCap && !set[w] { // visibly capitalised
					nc++
				}
				if i == L-1 {
					if end == len(pw) && (scheme != "one" || nc <= 1) {
						res = true
					}
					continue
				}
				for _, sl := range sepMatch(pw[end:]) {
					if rec(end+sl, i+1, nc) {
						res = true
						break
					}
				}
			}
		}
		memo[k] = res
		return res
	}
	return L >= 1 && rec(0, 0, 0)
}

// keptOracle: the specification of NewWordList's kept set (C10), computed directly: one copy of
// each distinct word, minus every word that is the title-cased form of another listed word;
// Size() is its cardinality; "all capitalisable" iff no kept word equals its own title form (C08).
func keptOracle(input, kept []string, size int, allcap bool) string {
	in := map[string]bool{}
	for _, w := range input {
		in[w] = true
	}
	titled := map[string]bool{} // title-cased forms of words that change under title-casing
	for u := range in {
		if t := strings.Title(u); t != u {
			titled[t] = true
		}
	}
	want := map[string]bool{}
	for w := range in {
		if !titled[w] {
			want[w] = true
		}
	}
	got := map[string]bool{}
	for _, w := range kept {
		if got[w] {
			return " KEPT-FAIL=duplicate-kept"
		}
		got[w] = true
	}
	for w := range want {
		if !got[w] {
			return " KEPT-FAIL=dropped:" + encCps(w)
		}
	}
	for w := range got {
		if !want[w] {
			return " KEPT-FAIL=kept-although-twin-or-unlisted:" + encCps(w)
		}
	}
	if size != len(want) {
		return " KEPT-FAIL=size"
	}
	fixed := false
	for w := range want {
		if strings.Title(w) == w {
			fixed = true
		}
	}
	if allcap == fixed {
		return " ALLCAP-FAIL"
	}
	return ""
}

// checkTitleIdempotent validates, on the real strings.Title, the one hypothesis the word-list
// theorems (C08, C10) make about it: title (title w) = title w. Checked on every single code
// point, on every code point after a letter and after a non-letter, and on every word the
// operations mention. A counterexample is reported in the evidence (it would be a fact about
// the Go standard library, not about the repository).
func checkTitleIdempotent(extra []string) {
	test := func(w string) {
		st.TitleChecked++
		t := strings.Title(w)
		if strings.Title(t) != t && len(st.TitleCounter) < 5 {
			st.TitleCounter = append(st.TitleCounter, encCps(w))
		}
	}
	for c := rune(0); c <= 0x10FFFF; c++ {
		if c >= 0xD800 && c <= 0xDFFF {
			continue
		}
		s := string(c)
		test(s)
		if c < 0x30000 {
			test("a" + s)
			test("-" + s)
		}
	}
	for _, w := range extra {
		test(w)
	}
}
