package main

import (
	"fmt"
	"sort"
	"strings"

	"go.1password.io/spg"
)

// Operation generators. Every random choice comes from one splitmix64 state derived from
// VERIF_SEED, so a run replays exactly. Generators are structured around the repo's own
// vocabulary (class flags, presets, schemes) and pools that deliberately overlap.

type gen struct {
	g    *rng
	tier string
	out  []string
	ids  int // long-lived objects of a stream are numbered, never drawn: two blocks must not share one
}

func (x *gen) nextID() int { x.ids++; return x.ids }

func (x *gen) emit(format string, a ...interface{}) { x.out = append(x.out, fmt.Sprintf(format, a...)) }

func (x *gen) thorough() bool { return x.tier == "thorough" }

// ---------- pools

var charPool = []string{
	"a", "b", "c", "x", "y", "z", "A", "B", "C", "Z", "0", "1", "2", "3", "5", "7", "9", "O", "I", "l", "S",
	"!", "@", ".", "-", "_", "*", "#", " ", "é", "ü", "ß", "ñ", "Ω", "→", "日", "本", "😀", "𝄞", "ǆ", "́",
	"\uFFFD", "%", "\\", "\"", "\ufeff", "\u200f", "\U00010428", "\U00010400", "\u200d", "\u0130", "\u0131", "ǅ",
}

func (x *gen) poolString(maxLen int, dupes bool) string {
	n := x.g.intn(maxLen + 1)
	var b strings.Builder
	for i := 0; i < n; i++ {
		b.WriteString(charPool[x.g.intn(len(charPool))])
		if dupes && x.g.chance(15) {
			b.WriteString(charPool[x.g.intn(len(charPool))])
		}
	}
	return b.String()
}

func (x *gen) flagWord() uint32 {
	f := uint32(x.g.intn(32))
	if x.g.chance(3) {
		f |= 1 << uint(5+x.g.intn(4)) // a bit with no class behind it
	}
	return f
}

func (x *gen) length() int {
	switch c := x.g.intn(100); {
	case c < 3:
		return -1 - x.g.intn(3)
	case c < 6:
		return 0
	case c < 70:
		return 1 + x.g.intn(10)
	case c < 90:
		return 11 + x.g.intn(40)
	case c < 97:
		return 60 + x.g.intn(300)
	default:
		if x.thorough() {
			return 500 + x.g.intn(3500)
		}
		return 400 + x.g.intn(800)
	}
}

// recipe: style 0 = anything; 1 = small alphabet (for cells and forced failures);
// 2 = class flags only (as opgen builds them); 3 = many overlapping required sets
func (x *gen) recipe(style int) recipeSpec {
	var r recipeSpec
	switch style {
	case 1:
		r.L = 1 + x.g.intn(4)
		r.ac = x.poolString(4, true)
		if x.g.chance(30) {
			r.allow = 4
			r.exclude = 16
		}
		if r.ac == "" && r.allow == 0 {
			r.ac = "ab"
		}
		n := x.g.intn(3)
		for i := 0; i < n; i++ {
			r.rs = append(r.rs, x.poolString(2, false))
		}
		if x.g.chance(20) {
			r.ec = x.poolString(2, false)
		}
	case 2:
		r.L = x.length()
		r.allow, r.require, r.exclude = x.flagWord(), x.flagWord()&x.flagWord(), x.flagWord()&x.flagWord()
	case 3:
		r.L = 1 + x.g.intn(40)
		if x.g.chance(15) {
			r.L = x.length()
		}
		r.allow = x.flagWord()
		r.require = x.flagWord() & x.flagWord()
		if x.g.chance(40) {
			r.exclude = x.flagWord() & x.flagWord()
		}
		n := 1 + x.g.intn(8)
		for i := 0; i < n; i++ {
			switch x.g.intn(6) {
			case 0:
				r.rs = append(r.rs, "357") // inside Digits
			case 1:
				r.rs = append(r.rs, "aeiouAEIOU")
			case 2:
				r.rs = append(r.rs, "")
			default:
				r.rs = append(r.rs, x.poolString(5, true))
			}
		}
		r.ac = x.poolString(6, true)
		if x.g.chance(40) {
			r.ec = x.poolString(5, false)
		}
	default:
		r.L = x.length()
		r.allow = x.flagWord()
		if x.g.chance(50) {
			r.require = x.flagWord() & x.flagWord()
		}
		if x.g.chance(50) {
			r.exclude = x.flagWord() & x.flagWord()
		}
		if x.g.chance(50) {
			r.ac = x.poolString(10, true)
		}
		if x.g.chance(50) {
			n := x.g.intn(4)
			if x.g.chance(10) {
				n = 4 + x.g.intn(5)
			}
			r.rs = []string{}
			for i := 0; i < n; i++ {
				r.rs = append(r.rs, x.poolString(5, true))
			}
		}
		if x.g.chance(40) {
			r.ec = x.poolString(6, true)
		}
	}
	return r
}

// retry budget arguments
func (x *gen) budget() string {
	switch x.g.intn(10) {
	case 0:
		return " T=1 fr=1:2"
	case 1:
		return " T=2 fr=1:10"
	case 2:
		return " T=3 fr=1:1000"
	case 3:
		return " T=5 fr=4835703278458517:4835703278458516698824704"
	case 4:
		return " T=20 fr=1:1000000"
	default:
		return ""
	}
}

func budgetT(b string) int {
	_, a := parseLine("x" + b)
	if v, ok := a["T"]; ok {
		n := 0
		fmt.Sscan(v, &n)
		return n
	}
	return 200
}

// alphabetOf: the implementation's own view of the alphabet size, used only to aim tapes.
func alphabetSize(r recipeSpec) int {
	br := r.build()
	n := len([]rune((&br).Alphabet()))
	capt.take()
	return n
}

// tape of `words` raw words aimed at an alphabet of n characters
func (x *gen) tape(n, words, style int) []uint32 {
	t := make([]uint32, 0, words)
	if n <= 0 {
		n = 1
	}
	un := uint32(n)
	for i := 0; i < words; i++ {
		var w uint32
		switch style {
		case 0: // uniformly random raw words
			w = x.g.u32()
		case 1: // always index 0
			w = 0
		case 2: // always the last index
			w = un - 1
		case 3: // idx + j*n, occasionally a rejected word first
			if n&(n-1) != 0 && x.g.chance(10) {
				disc := uint32(0xFFFFFFFF) - uint32(0xFFFFFFFF)%un
				t = append(t, disc+uint32(x.g.intn(int(0xFFFFFFFF-disc)+1)))
			}
			q := uint32(0xFFFFFFFF) / un
			w = uint32(x.g.intn(n)) + un*uint32(x.g.intn(int(q)))
		case 4: // small indices cycling
			w = uint32(i % n)
		}
		t = append(t, w)
	}
	return t
}

// manySetsOp: nine to thirteen effective required sets (beyond any one-byte or one-word bit
// mask), each the alphabet minus one character, so that a candidate made of a single character
// misses exactly one of them; tapes are aimed at such candidates, one requirement at a time.
func (x *gen) manySetsOp() {
	n := 9 + x.g.intn(2)
	if x.g.chance(25) {
		n = 13 + x.g.intn(2) // beyond any hand-picked ceiling on the number of sets
	}
	chars := []rune("abcdefghijklmnopqrstuvwxyz")[:n+1+x.g.intn(2)]
	var r recipeSpec
	for i := 0; i < n; i++ {
		var b strings.Builder
		for j, c := range chars {
			if j != i {
				b.WriteRune(c)
			}
		}
		r.rs = append(r.rs, b.String())
	}
	if x.g.chance(40) {
		r.require = 4 // plus the digits, as a class
		r.ac = "5"
	}
	r.L = 2 + x.g.intn(4)
	N := alphabetSize(r)
	if N == 0 {
		return
	}
	// attempt k: the character missing from set k, L times (alphabet is sorted: index of chars[k])
	var t []uint32
	digits := 0
	if r.require != 0 {
		digits = 10
	}
	order := x.g.intn(n)
	for a := 0; a < 4; a++ {
		k := (order + a*3) % n
		for i := 0; i < r.L; i++ {
			t = append(t, uint32(digits+k))
		}
	}
	t = append(t, x.tape(N, r.L*2, 0)...)
	x.emit("chargen r=%s T=6 fr=1:1 tape=%s", r.enc(), encWords(t))
	if x.g.chance(25) {
		x.emit("charinfo r=%s", r.enc())
	}
}

// classRoleBlock: every class flag in every role (allowed, required, excluded) against every
// other class in every other role, plus one custom character from inside and one from outside
// the class: the small recipes on which a wrong table entry, a dropped flag or a mis-ordered
// exclusion shows.
func (x *gen) classRoleBlock() {
	flags := []uint32{1, 2, 4, 8, 16}
	inside := map[uint32]string{1: "Q", 2: "q", 4: "7", 8: "@", 16: "l"}
	for _, f := range flags {
		for _, g := range flags {
			for role := 0; role < 6; role++ {
				var r recipeSpec
				r.L = 2 + x.g.intn(3)
				switch role {
				case 0:
					r.allow, r.require = f, g
				case 1:
					r.allow, r.exclude = f|g, g
				case 2:
					r.require, r.exclude = f, g
				case 3:
					r.allow, r.require, r.exclude = 15, f, g
				case 4:
					r.allow, r.rs, r.exclude = f, []string{inside[g] + "é"}, g
				default:
					r.ac, r.require, r.ec = inside[f]+"xyz", g, inside[g]
				}
				x.emit("charinfo r=%s", r.enc())
				if x.g.chance(35) {
					x.chargenOp(r, "")
				}
			}
		}
	}
}

// collisionPairOps: two DIFFERENT recipes whose fields print alike (the same characters split
// differently into required sets, a digit moved between a flag word and the start of a custom
// string, …), evaluated one after the other in the same process: a memo table keyed by a lossy
// rendering of the recipe gives the second the first one's answer.
func (x *gen) collisionPairOps() {
	var a, b recipeSpec
	a.L = 2 + x.g.intn(5)
	switch x.g.intn(6) {
	case 4, 5:
		// the same characters required as two sets or as one: on either side of the refusal
		// threshold for short lengths
		a.L = 2 + x.g.intn(2)
		a.rs = []string{"abc", "def"}
		a.ac = "ghijklmnopqrstuvwxyz"[:x.g.intn(14)]
		b = a
		b.rs = []string{"abcdef"}
	case 0:
		a.rs = []string{"a", "b"}
		a.ac = "xyz"
		b = a
		b.rs = []string{"a b"}
	case 1:
		a.allow, a.exclude, a.ac = 3, 16, "xyz"
		b = a
		b.exclude, b.ac = 1, "6xyz"
	case 2:
		a.rs = []string{"ab", "c"}
		a.ac = "0123"
		b = a
		b.rs = []string{"a", "bc"}
	default:
		a.require, a.ac, a.ec = 4, "qrs", "1"
		b = a
		b.require, b.ac = 0, "4qrs"
		b.rs = []string{"0123456789"}
	}
	if x.g.chance(50) {
		a, b = b, a
	}
	for _, r := range []recipeSpec{a, b, a} {
		x.emit("charinfo r=%s", r.enc())
		x.chargenOp(r, "")
	}
}

// sameLeadRecipe: required and allowed characters that share a UTF-8 lead byte (and so differ
// only in their continuation bytes), with a tape aimed at candidates that miss the required one.
var leadGroups = [][]string{
	{"é", "ü", "ß", "ñ", "à", "ö"},       // lead byte 0xC3
	{"λ", "α", "β", "γ", "δ", "ο"},       // 0xCE
	{"→", "←", "↑", "↓", "€"},            // 0xE2
	{"日", "本", "旦", "旧"},                // 0xE6
	{"😀", "😁", "🙂", "𝄞"},                // 0xF0
	{"Ã", "é", "a", "©"},                 // a Latin-1 letter equal to another character's lead byte
}

func (x *gen) sameLeadOp() {
	g := leadGroups[x.g.intn(len(leadGroups))]
	var r recipeSpec
	r.L = 1 + x.g.intn(4)
	req := g[x.g.intn(len(g))]
	r.rs = []string{req}
	for _, c := range g {
		if c != req && x.g.chance(70) {
			r.ac += c
		}
	}
	if x.g.chance(30) {
		r.ac += "a"
	}
	if r.ac == "" {
		r.ac = g[(x.g.intn(len(g)-1)+1)%len(g)]
	}
	n := alphabetSize(r)
	if n == 0 {
		return
	}
	// candidates that avoid the required character: cycle over all indices, several attempts
	t := x.tape(n, r.L*4, []int{0, 1, 2, 4}[x.g.intn(4)])
	x.emit("chargen r=%s T=3 fr=1:1 tape=%s", r.enc(), encWords(t))
	if x.g.chance(30) {
		x.emit("charinfo r=%s", r.enc())
	}
}

func (x *gen) chargenOp(r recipeSpec, extraArgs string) {
	b := x.budget()
	T := budgetT(b)
	n := alphabetSize(r)
	L := r.L
	if L < 0 {
		L = 0
	}
	style := x.g.intn(5)
	words := L
	switch x.g.intn(6) {
	case 0:
		words = L * T // enough for every attempt to fail
		if words > 40000 {
			words = 40000
		}
		if x.g.chance(70) {
			style = 1
		}
	case 1:
		words = L*2 + 3
	case 2:
		if L > 0 {
			words = x.g.intn(L) // too short: the source fails mid-way
		}
	default:
		words = L + x.g.intn(L+2)
	}
	t := x.tape(n, words, style)
	if x.g.chance(25) && L > 0 && len(t) >= L {
		// fail the first attempts (index 0 everywhere), then continue with what was planned
		k := 1 + x.g.intn(3)
		pre := make([]uint32, k*L)
		t = append(pre, t...)
		if len(t) > 60000 {
			t = t[:60000]
		}
	}
	x.emit("chargen r=%s%s tape=%s%s", r.enc(), b, encWords(t), extraArgs)
}

func (x *gen) charinfoOp(r recipeSpec) {
	x.emit("charinfo r=%s%s", r.enc(), x.budget())
}

// ---------- draws

var interestingBounds = []uint64{1, 2, 3, 4, 5, 6, 7, 10, 16, 26, 52, 62, 64, 255, 256, 257, 10129, 18325, 65535, 65536, 65537,
	1 << 24, 1<<31 - 1, 1 << 31, 1<<31 + 1, 3 << 30, 0xFFFFFFFE, 0xFFFFFFFF, 0xAAAAAAAB, 0x55555556}

func (x *gen) bound() uint64 {
	switch x.g.intn(6) {
	case 0:
		return interestingBounds[x.g.intn(len(interestingBounds))]
	case 1:
		k := uint(x.g.intn(32))
		return uint64(1) << k
	case 2:
		k := uint(1 + x.g.intn(31))
		if x.g.chance(50) {
			return (uint64(1) << k) + 1
		}
		return (uint64(1) << k) - 1
	case 3:
		return uint64(1 + x.g.intn(300))
	default:
		return uint64(x.g.u32()>>uint(x.g.intn(31))) + 1
	}
}

func (x *gen) drawOp() {
	n := x.bound()
	if n > 0xFFFFFFFF {
		n = 0xFFFFFFFF
	}
	if x.g.chance(1) {
		n = 0
	}
	var t []uint32
	if n == 0 {
		x.emit("draw n=0 tape=%s", encWords([]uint32{x.g.u32()}))
		return
	}
	un := uint32(n)
	disc := uint32(0xFFFFFFFF) - uint32(0xFFFFFFFF)%un
	rejects := 0
	if n&(n-1) != 0 && x.g.chance(35) {
		rejects = 1 + x.g.intn(14)
	}
	for i := 0; i < rejects; i++ {
		switch x.g.intn(3) {
		case 0:
			t = append(t, disc)
		case 1:
			t = append(t, 0xFFFFFFFF)
		default:
			t = append(t, disc+uint32(x.g.intn(int(0xFFFFFFFF-disc)+1)))
		}
	}
	switch x.g.intn(8) {
	case 0:
		t = append(t, 0)
	case 1:
		t = append(t, disc-1)
	case 2:
		t = append(t, disc)
		t = append(t, x.g.u32()%disc)
	case 3:
		t = append(t, 0xFFFFFFFF, x.g.u32(), x.g.u32(), 1)
	case 4:
		t = append(t, un-1)
	case 5:
		if un != 0xFFFFFFFF {
			t = append(t, un)
		} else {
			t = append(t, 0xFFFFFFFF, 0xFFFFFFFF, 5)
		}
	case 6:
		// nothing more: possibly a tape of rejected words only -> fault
	default:
		t = append(t, x.g.u32(), x.g.u32())
	}
	x.emit("draw n=%d tape=%s", n, encWords(t))
}

func (x *gen) sourceOp() {
	n := x.bound()
	if n > 0xFFFFFFFF {
		n = 0xFFFFFFFF
	}
	nb := 4 * (1 + x.g.intn(4))
	if x.g.chance(30) {
		nb = x.g.intn(13)
	}
	bytes := make([]byte, nb)
	for i := range bytes {
		bytes[i] = byte(x.g.next())
	}
	if x.g.chance(30) && nb >= 4 {
		bytes[0], bytes[1], bytes[2], bytes[3] = 0xFF, 0xFF, 0xFF, 0xFF
	}
	var plan []string
	for i, k := 0, x.g.intn(7); i < k; i++ {
		e := 0
		if x.g.chance(25) {
			e = 1
		}
		plan = append(plan, fmt.Sprintf("%d:%d", x.g.intn(6), e))
	}
	p := strings.Join(plan, ",")
	if p == "" {
		p = "-"
	}
	x.emit("source n=%d plan=%s bytes=%s", n, p, encHex(bytes))
}

// ---------- word lists

var wordPool = []string{"one", "two", "three", "polish", "Polish", "One", "ONE", "été", "Été", "a", "b", "c", "A", "ab", "Ab", "aB",
	"x-y", "X-Y", "don't", "123", "4", "ǆ", "ǅ", "Ǆ", "ß", "日本", "élan", "Élan", "ñu", "syl", "lab", "bull", "gen", "er", "at", "or",
	"w1", "W1", "über", "Über", "o'neil", "O'Neil", "z", "Z", "correct", "horse", "battery", "staple",
	// letters whose title-cased form has a different UTF-8 length (2->1, 2->1, 2->3, 3->2 bytes)
	"ıx", "ſix", "ɐb", "ⱥb",
	// entries that differ only in surrounding white space (CRLF files, stray blanks) are different words
	"horse\r", " horse", "horse ", "lab\t", "one\n", "\u00a0one",
	// valid but unusual: a byte-order mark, a right-to-left mark, a decomposed accent, letters outside the BMP
	// (Deseret: lower 𐐨 has the upper form 𐐀), a zero-width joiner sequence, USA / usa (ToLower is not Title's inverse)
	// characters a careless implementation might use as a delimiter of its own
// words that consist of white space only are words (NewWordList keeps and counts them)
	" ", "\t", "\u00a0", "\u3000", "  ",
		"alpha\x1fbeta", "\x1f", "nul\x00l", "a,b", "a|b", "a;b", "rec\x1esep", "a\x1cb", "tab\tin", "new\nline",
	"\ufeffbom", "rtl\u200f", "e\u0301cole", "\U00010428\U00010429", "\U00010400\U00010429", "a\u200db", "usa", "USA", "iPhone", "IPhone"}

// words that all change under strings.Title, including pairs of distinct words that share one
// title-cased form (outside the premise of C04/C06, but inside C08/C10)
var capWords = []string{"one", "two", "three", "polish", "été", "ab", "x-y", "don't", "ǆ", "élan", "ñu", "syl", "lab", "bull",
	"über", "o'neil", "correct", "horse", "re-do", "six", "µm", "w1x", "a", "b", "z", "ıx", "ɐb", "ⱥb"}
var titleCollisions = [][2]string{{"ǆ", "Ǆ"}, {"re-do", "re-Do"}, {"o'neil", "o'Neil"}, {"six", "ſix"}, {"µm", "μm"}, {"x-y", "x-Y"}}

// capList: a list in which every word is capitalisable (no title-fixed word), possibly with a
// title collision and with duplicates.
func (x *gen) capList() []string {
	n := 1 + x.g.intn(6)
	var l []string
	for i := 0; i < n; i++ {
		l = append(l, capWords[x.g.intn(len(capWords))])
	}
	if x.g.chance(40) {
		p := titleCollisions[x.g.intn(len(titleCollisions))]
		l = append(l, p[0], p[1])
	}
	if x.g.chance(20) {
		l = append(l, l[x.g.intn(len(l))])
	}
	for i := len(l) - 1; i > 0; i-- {
		j := x.g.intn(i + 1)
		l[i], l[j] = l[j], l[i]
	}
	return l
}

func (x *gen) wordList(allowEmptyWord bool) []string {
	if x.g.chance(25) {
		return x.capList()
	}
	n := 1 + x.g.intn(7)
	if x.g.chance(15) {
		n = 8 + x.g.intn(20)
	}
	var l []string
	for i := 0; i < n; i++ {
		w := wordPool[x.g.intn(len(wordPool))]
		if x.g.chance(10) {
			w += wordPool[x.g.intn(len(wordPool))]
		}
		l = append(l, w)
		if x.g.chance(12) {
			l = append(l, w) // duplicate
		}
		if x.g.chance(15) {
			l = append(l, strings.Title(w)) // capitalised twin
		}
	}
	if x.g.chance(12) {
		// two DIFFERENT words that some normalisation, or some hash, would take for one
		pr := lookalikePairs[x.g.intn(len(lookalikePairs))]
		l = append(l, pr[0], pr[1])
	}
	if allowEmptyWord && x.g.chance(4) {
		l = append(l, "")
	}
	// shuffle
	for i := len(l) - 1; i > 0; i-- {
		j := x.g.intn(i + 1)
		l[i], l[j] = l[j], l[i]
	}
	return l
}

// lookalikePairs: distinct words that collapse under a normalisation the library does not perform
// (a byte order mark, trailing white space or a carriage return stripped, NFC/NFD, a soft hyphen or
// zero-width joiner dropped, full-width forms) or that collide under a common 32-bit string hash
// (FNV-1a, FNV-1, CRC-32, Java's 31-multiplier, djb2). Each is two words: both are kept, each is
// drawn with probability 1/Size().
var lookalikePairs = [][2]string{{"staple", "\ufeffstaple"}, {"bom", "\ufeffbom"}, {"rtl", "rtl\u200f"}, {"école", "e\u0301cole"}, {"shy", "sh\u00ady"},
	{"ab", "a\u200db"}, {"abc", "ａｂｃ"}, {"line", "line\r"}, {"pad", "pad "}, {"tab", "\ttab"}, {"nb", "\u00a0nb"}, {"Å", "Å"}, {"ﬁx", "fix"},
	{"costarring", "liquid"}, {"declinate", "macallums"}, {"altarage", "zinke"}, {"plumless", "buckeroo"}, {"Aa", "BB"}, {"AaAa", "BBBB"}, {"AaBB", "BBAa"},
	{"hetairas", "mentioner"}, {"heliotropes", "neurospora"}, {"stylist", "subgenera"}, {"joyful", "synaphea"}, {"dram", "vivency"}}

var schemes = []string{"none", "first", "all", "random", "one", "", "bogus", "None", "ONE",
	// a scheme name is one of five exact strings; anything else — padded, re-cased, abbreviated — selects no position
	"all ", " first", "one\n", "random\r\n", "\u00a0random", "a ll", "rand", "firstt", "ALL", "One", "all\x00", "\ufeffone"}

func (x *gen) sepSpec() string {
	switch x.g.intn(12) {
	case 0:
		return "char:_"
	case 1:
		return "char:" + encCps("-")
	case 2:
		return "char:" + encCps(x.poolString(2, false))
	case 3:
		return "const:_"
	case 4:
		return "const:" + encCps(x.poolString(3, false))
	case 5, 6, 7:
		return "preset:" + []string{"none", "d1", "d2", "dna1", "dna2", "sym", "ds"}[x.g.intn(7)]
	case 8:
		r := x.recipe(1)
		r.rs = nil
		return "recipe:" + r.enc()
	case 9:
		return "recipe:" + x.recipe(1).enc() // may have requirements: can fail (D9)
	case 10:
		r := x.recipe(2)
		if r.L > 4 {
			r.L = 1 + x.g.intn(4)
		}
		return "recipe:" + r.enc()
	default:
		return "const:" + encCps(" ")
	}
}

// customSep: a caller-written separator function that picks one of several strings (possibly the
// empty one) with a bounded draw and reports a fixed non-zero entropy: "custom:<D>:<strings>",
// entropy = log2 D.
func (x *gen) customSep() string {
	outs := []string{"", "-", "ab", "é", "--", "7"}
	n := 1 + x.g.intn(4)
	var l []string
	for i := 0; i < n; i++ {
		l = append(l, outs[x.g.intn(len(outs))])
	}
	return fmt.Sprintf("custom:%d:%s", []int{1, 2, 3, 7, 16}[x.g.intn(5)], encList(l))
}

func (x *gen) wlLength() int {
	switch c := x.g.intn(100); {
	case c < 4:
		return -1
	case c < 8:
		return 0
	case c < 75:
		return 1 + x.g.intn(6)
	case c < 95:
		return 7 + x.g.intn(20)
	default:
		return 30 + x.g.intn(200)
	}
}

// words the generation will need at most: caps + per position (1 + separator draws incl. retries)
func (x *gen) wlTape(size, L int, sep string, style int) []uint32 {
	n := L*3 + 8
	if strings.HasPrefix(sep, "recipe:") {
		r := parseRecipe(sep[7:])
		n += (L + 1) * (maxInt(r.L, 0)*2 + 2)
	} else if strings.HasPrefix(sep, "preset:") {
		n += (L + 1) * 2
	}
	if n > 50000 {
		n = 50000
	}
	t := make([]uint32, n)
	for i := range t {
		switch style {
		case 0:
			t[i] = x.g.u32()
		case 1:
			t[i] = uint32(x.g.intn(maxInt(size, 1)))
		case 2:
			t[i] = uint32(maxInt(size, 1) - 1)
		case 3:
			t[i] = 0
		case 4:
			t[i] = 0xFFFFFFFF - uint32(x.g.intn(3))*uint32(x.g.intn(2))
			if x.g.chance(70) {
				t[i] = x.g.u32()
			}
		case 5:
			t[i] = 1
		}
	}
	if x.g.chance(8) && len(t) > 2 {
		t = t[:x.g.intn(len(t)/2+1)] // the source fails mid-way
	}
	return t
}

func (x *gen) wlgenOp(op string, extraArgs string) {
	words := x.wordList(true)
	L := x.wlLength()
	sep := x.sepSpec()
	if x.g.chance(12) {
		sep = x.customSep()
	}
	scheme := schemes[x.g.intn(len(schemes))]
	if x.g.chance(60) {
		scheme = schemes[x.g.intn(5)]
	}
	wa := fmt.Sprintf("words=%s titles=%s", encList(words), encList(wordTitles(words)))
	if x.g.chance(2) {
		wa = "words=nil"
	}
	if op == "wlent" {
		// Entropy() on its own is only specified for a usable recipe (a list, Length >= 1)
		wa = fmt.Sprintf("words=%s titles=%s", encList(words), encList(wordTitles(words)))
		if L < 1 {
			L = 1 + x.g.intn(5)
		}
	}
	t := x.wlTape(len(words), L, sep, x.g.intn(6))
	if x.g.chance(20) {
		extraArgs += " twice=1"
	}
	if !strings.HasPrefix(sep, "char:") && x.g.chance(20) {
		// both separator fields set: the function is what counts
		extraArgs += " sepchar=" + encCps([]string{"-", "_", " ", "é", "::"}[x.g.intn(5)])
	}
	if strings.HasPrefix(sep, "custom:") && op == "wlgen" && L >= 2 && L <= 8 && x.g.chance(50) {
		extraArgs += " stat=1"
	}
	x.emit("%s %s L=%d sep=%s cap=%s%s tape=%s%s", op, wa, L, sep, encCps(scheme), x.budget(), encWords(t), extraArgs)
}

// longCapsOp: a capitalising scheme over many positions (more than 32, more than 64), every
// word capitalisable, so that every coin flip and the 'one' position are visible in the output.
func (x *gen) longCapsOp() {
	words := []string{"a", "b", "c"}[:1+x.g.intn(3)]
	L := []int{2, 31, 32, 33, 40, 63, 64, 65, 70, 100}[x.g.intn(10)]
	scheme := []string{"random", "one"}[x.g.intn(2)]
	var t []uint32
	switch x.g.intn(3) {
	case 0: // every coin heads / the last position
		for i := 0; i < 2*L+4; i++ {
			t = append(t, 0xFFFFFFFF)
		}
		if scheme == "one" {
			t[0] = uint32(L - 1)
			for i := 1; i < len(t); i++ {
				t[i] = 0
			}
		}
	case 1:
		for i := 0; i < 2*L+4; i++ {
			t = append(t, x.g.u32())
		}
	default: // alternate heads and tails
		for i := 0; i < 2*L+4; i++ {
			t = append(t, uint32(i%2))
		}
	}
	stat := ""
	if x.g.chance(25) {
		stat = " stat=1"
	}
	x.emit("wlgen words=%s titles=%s L=%d sep=char:_ cap=%s tape=%s%s", encList(words), encList(wordTitles(words)), L, encCps(scheme), encWords(t), stat)
}

// lengthBlocks: Entropy() at lengths around every machine boundary (31/32/33, 63/64/65, 127/128,
// 255/256/257, 1000+), for every capitalisation scheme over capitalisable / mixed / one-word lists,
// and for character recipes with and without requirements. No generation, so cheap.
var boundaryLengths = []int{1, 2, 3, 7, 8, 9, 15, 16, 17, 31, 32, 33, 52, 53, 54, 62, 63, 64, 65, 66, 100, 127, 128, 129, 255, 256, 257, 1000, 1023, 1024, 1025, 4096}

func (x *gen) wlLengthBlock() {
	lists := [][]string{{"a", "b", "c"}, {"a", "4", "c", "dd"}, {"solo"}, {"x", "y"}, {"7", "8"}}
	seps := []string{"char:_", "preset:none", "preset:d1", "char:45"}
	for _, L := range boundaryLengths {
		for _, scheme := range schemes[:5] {
			words := lists[x.g.intn(len(lists))]
			if scheme == "random" && x.g.chance(60) {
				words = lists[0]
			}
			sep := seps[x.g.intn(len(seps))]
			if L > 300 && sep == "preset:d1" {
				sep = "char:_"
			}
			x.emit("wlent words=%s titles=%s L=%d sep=%s cap=%s tape=%s", encList(words), encList(wordTitles(words)), L, sep, encCps(scheme), encWords([]uint32{1, 2, 3, 4}))
		}
	}
}

func (x *gen) charLengthBlock() {
	for _, L := range boundaryLengths {
		var r recipeSpec
		r.L = L
		switch x.g.intn(4) {
		case 0:
			r.allow = 15
		case 1:
			r.allow, r.require = 7, 4
		case 2:
			r.ac, r.rs = "abcdef", []string{"ab", "bc"}
		default:
			r.allow, r.exclude, r.require = 15, 16, 3
		}
		x.emit("charinfo r=%s", r.enc())
	}
	// counts at the edge of the float64 range: alphabets of 2, 4, 16 and 256 characters at the lengths
	// where N^Length crosses 2^1024 (and 2^128, float32's edge), with a requirement that removes next
	// to nothing and one that removes a lot
	var b256 []rune
	for i := 0; i < 256; i++ {
		b256 = append(b256, rune(0x4E00+i))
	}
	for _, c := range []struct {
		ac   string
		base int
	}{{"ab", 1024}, {"abcd", 512}, {"0123456789abcdef", 256}, {string(b256), 128}, {"ab", 128}, {"abcd", 64}} {
		for _, d := range []int{-1, 0, 1} {
			for _, rs := range [][]string{{"a"}, {string([]rune(c.ac)[:1]), string([]rune(c.ac)[1:2])}} {
				var r recipeSpec
				r.L, r.ac, r.rs = c.base+d, c.ac, rs
				x.emit("charinfo r=%s", r.enc())
			}
		}
	}
}

// zeroToleranceBlock: MaxFailRate is the caller's to set, 0 included ("no failure tolerated"). A
// recipe without requirements cannot fail, so every one of them — the default recipe, the
// separator presets — must still be honoured exactly as documented. (Recipes WITH requirements
// are left out: their failure probability is positive, and whether a float64 underflow to 0 then
// counts as "not above 0" is nobody's property.)
func (x *gen) zeroToleranceBlock() {
	for _, r := range []string{"7/15/0/16/_/-/_", "1/4/0/0/_/-/_", "2/12/0/16/_/-/_", "12/3/0/0/233.955/-/_", "3/0/0/0/97.98.99/-/120"} {
		tape := make([]uint32, 40)
		for i := range tape {
			tape[i] = x.g.u32()
		}
		x.emit("charinfo r=%s T=200 fr=0:1", r)
		x.emit("chargen r=%s T=200 fr=0:1 tape=%s", r, encWords(tape))
		x.emit("chargen r=%s T=1 fr=0:1 tape=%s", r, encWords(tape))
	}
	words := []string{"uno", "dos", "tres", "cuatro"}
	for _, sp := range []string{"preset:d1", "preset:d2", "preset:dna1", "preset:dna2", "preset:sym", "preset:ds", "preset:none", "recipe:2/8/0/0/_/-/_"} {
		tape := make([]uint32, 40)
		for i := range tape {
			tape[i] = x.g.u32()
		}
		x.emit("wlgen words=%s titles=%s L=3 sep=%s cap=%s T=200 fr=0:1 tape=%s", encList(words), encList(wordTitles(words)), sp, encCps("none"), encWords(tape))
		x.emit("wlent words=%s titles=%s L=3 sep=%s cap=%s T=200 fr=0:1 tape=%s", encList(words), encList(wordTitles(words)), sp, encCps("none"), encWords(tape))
	}
}

// cancellationOp: the count as a small difference of huge terms. k one-character required sets at
// Length k over an alphabet of N characters: exactly k! strings qualify, while the
// inclusion-exclusion terms are of the order N^k (2^53..2^62 for N around 100..215 and k = 8):
// any rounding in a term is the whole answer.
func (x *gen) cancellationOp() {
	k := 5 + x.g.intn(5)
	N := 60 + x.g.intn(180)
	var r recipeSpec
	r.L = k
	var ac []rune
	for i := 0; i < N; i++ {
		ac = append(ac, rune(0x100+i))
	}
	r.ac = string(ac[k:])
	for i := 0; i < k; i++ {
		r.rs = append(r.rs, string(ac[i]))
	}
	if x.g.chance(30) {
		r.L = k + 1
	}
	x.emit("charinfo r=%s T=1 fr=1:1", r.enc())
}

// chunkedOps: generations on a source that answers in short reads (C09 says the choices are the
// same; the uniformity properties C02, C04, C06 are claims about those choices, so they are
// exercised on such a source too).
func (x *gen) chunkedOps(n int) {
	for i := 0; i < n; i++ {
		x.chargenOp(x.recipe(x.g.intn(4)), fmt.Sprintf(" chunk=%d", x.g.next()%1000000))
		x.wlgenOp("wlgen", fmt.Sprintf(" chunk=%d", x.g.next()%1000000))
	}
}

// budgetBoundaryOps: the exported retry budget at its boundaries — MaxTrials 0 (nothing can be
// attempted: every recipe is refused, and nothing else happens), MaxTrials far above any built-in
// ceiling (the loop and the pre-flight must go by the same number), and bounded draws made while
// the budget is tiny (a draw redraws until a word is accepted, whatever MaxTrials says).
func (x *gen) budgetBoundaryOps() {
	for _, r := range []string{"7/15/0/16/_/-/_", "4/7/4/0/_/-/_", "3/0/0/0/97.98.99/97/_"} {
		x.emit("charinfo r=%s T=0 fr=1:1000000000", r)
		x.emit("chargen r=%s T=0 fr=1:1000000000 tape=1.2.3.4.5.6.7.8.9.10.11.12", r)
	}
	x.emit("wlgen words=%s titles=%s L=3 sep=preset:d1 cap=%s T=0 fr=1:1000000000 tape=1.2.3.4.5.6.7.8.9.10", encList([]string{"uno", "dos"}), encList([]string{"Uno", "Dos"}), encCps("none"))
	// a caller's own separator function is none of the budget's business
	for _, T := range []int{0, 1} {
		x.emit("wlent words=%s titles=%s L=4 sep=custom:16:45,46,95 cap=%s T=%d fr=1:1000000000 tape=1.2.3.4.5.6.7.8", encList([]string{"uno", "dos"}), encList([]string{"Uno", "Dos"}), encCps("none"), T)
		x.emit("wlgen words=%s titles=%s L=4 sep=custom:16:45,46,95 cap=%s T=%d fr=1:1000000000 tape=1.2.3.4.5.6.7.8.9.10.11.12", encList([]string{"uno", "dos"}), encList([]string{"Uno", "Dos"}), encCps("none"), T)
	}
	// 20,000 permitted attempts, success chance 1/50 per attempt, a stream of 10,500 failing
	// candidates: the generator must still be drawing when the stream ends
	var ac []rune
	for i := 0; i < 49; i++ {
		ac = append(ac, rune(0x400+i))
	}
	big := recipeSpec{L: 1, ac: string(ac), rs: []string{"\u0431"}}
	tape := make([]uint32, 10500)
	for i := range tape {
		tape[i] = uint32(1 + i%40)
	}
	x.emit("chargen r=%s T=20000 fr=1:1000000000 tape=%s", big.enc(), encWords(tape))
	// bounded draws under a tiny budget: several rejected words in a row, then an accepted one
	for _, T := range []int{0, 1, 2} {
		for _, n := range []uint32{3, 5, 10, 26, 18328, 0xC0000000} {
			limit := uint32(0xFFFFFFFF - 0xFFFFFFFF%uint64(n))
			t := []uint32{limit, 0xFFFFFFFF, limit + (0xFFFFFFFF-limit)/2, 0xFFFFFFFF, x.g.u32() % limit}
			x.emit("draw n=%d T=%d tape=%s", n, T, encWords(t))
		}
	}
}

// thirteenSetsOps: thirteen and fourteen disjoint two-letter required sets at lengths where a
// fair share of the strings qualify (the exact fraction is 0.13 to 0.9): the count, the success
// probability and the pre-flight decision for MANY required sets.
func (x *gen) thirteenSetsOps() {
	for _, n := range []int{13, 14} {
		var r recipeSpec
		for i := 0; i < n; i++ {
			r.rs = append(r.rs, string([]rune{rune('a' + 2*i%26), rune('A' + 2*i%26)}))
		}
		for _, L := range []int{26, 30, 40, 60} {
			r.L = L
			x.emit("charinfo r=%s", r.enc())
		}
	}
}

// soleWitnessOps: k one-character required sets, a candidate that holds the first k-1 of them in
// its leading positions and misses the last, and a budget of ONE attempt: the answer is the
// exhaustion error — not a password "repaired" by overwriting some position, which would lose the
// only witness of another set.
func (x *gen) soleWitnessOps() {
	for k := 2; k <= 5; k++ {
		var r recipeSpec
		r.L = k + 1
		r.ac = "x"
		req := "abcde"[:k]
		for _, c := range req {
			r.rs = append(r.rs, string(c))
		}
		if x.g.chance(50) { // the sets in another order
			r.rs[0], r.rs[k-1] = r.rs[k-1], r.rs[0]
		}
		// sorted alphabet: a b c d e (k of them) then x at index k
		for miss := 0; miss < k; miss++ {
			var t []uint32
			for i := 0; i < k; i++ {
				if i != miss {
					t = append(t, uint32(i))
				}
			}
			for len(t) < r.L {
				t = append(t, uint32(k))
			}
			x.emit("chargen r=%s T=1 fr=1:1 tape=%s", r.enc(), encWords(append(t, 0, 0, 0, 0, 0, 0, 0, 0)))
		}
	}
}

// metaCharBlock: characters that mean something to a formatter, a regular expression or a glob
// are ordinary characters to a recipe. Each case draws candidates made only of the "plain"
// characters, which cannot satisfy the required set, on a budget of two attempts: the answer is
// the attempts error, never a password. (The candidate the filter sees is the drawn string itself,
// whatever library routine is used to build or match it.)
func (x *gen) metaCharBlock() {
	cases := []struct{ allow, req, pick string }{
		{"%", "NOVERB()!", "%"}, {"%d", "0123456789!", "%d"}, {"%sv", "nil<>", "%sv"}, {"%%", "!", "%"},
		{"b", "a-c", "b"}, {"b", "^a", "b"}, {"x", "[]", "x"}, {"a", ".*", "a"}, {"ab", ".", "ab"}, {"z", "a|z|", "a"},
		{"\\", "nrt0", "\\"}, {"$", "1{}", "$"}, {"w", "\\w", "w"}, {"d5", "\\d", "5"}, {"a", "[a]", "a"}, {"q", "?+", "q"},
		{"ab", "(?i)A", "ab"}, {"é", "é", "é"}, {"e", "é", "e"}, {"\x00a", "b", "\x00a"}, {"a\x00", "\x00b", "a"},
	}
	// class flags are the ASCII classes: a letter or digit of the same Unicode category that is not
	// in the class does not satisfy the requirement
	look := []struct {
		flag  uint32
		allow string
	}{{1, "ΩÉ\u0130"}, {2, "λéß"}, {4, "٣५"}, {8, "¡＠\u2010"}, {2, "ǆ"}, {1, "ǅ"}, {3, "ǅ"}}
	for _, c := range look {
		for _, L := range []int{1, 2, 5} {
			var r recipeSpec
			r.L, r.ac, r.require = L, c.allow, c.flag
			al := setsOf(r).alphabet
			var idx []uint32
			for _, ch := range c.allow {
				for i, a := range al {
					if a == ch {
						idx = append(idx, uint32(i))
					}
				}
			}
			if len(idx) == 0 {
				continue
			}
			var t []uint32
			for i := 0; i < 2*L+4; i++ {
				t = append(t, idx[(i/L+i)%len(idx)])
			}
			x.emit("chargen r=%s T=2 fr=1:1 tape=%s", r.enc(), encWords(t))
		}
	}
	for _, c := range cases {
		for _, L := range []int{1, 2, 3} {
			var r recipeSpec
			r.L, r.ac, r.rs = L, c.allow, []string{c.req}
			al := setsOf(r).alphabet
			var idx []uint32
			for _, ch := range c.pick {
				for i, a := range al {
					if a == ch {
						idx = append(idx, uint32(i))
					}
				}
			}
			if len(idx) == 0 {
				continue
			}
			var t []uint32
			for i := 0; i < 2*L+4; i++ {
				t = append(t, idx[i%len(idx)])
			}
			x.emit("chargen r=%s T=2 fr=1:1 tape=%s", r.enc(), encWords(t))
			x.emit("charinfo r=%s", r.enc())
		}
	}
}

// pickCellOps: the word pick on its own — Length 1, no capitalisation, constant separator — over a
// complete cell of raw words: every kept word, the empty word included when the list has one,
// is selected by exactly one raw word of the cell.
func (x *gen) pickCellOps() {
	words := x.wordList(false)
	if len(words) > 12 {
		words = words[:12]
	}
	if x.g.chance(60) {
		words = append(words, "")
	}
	if x.g.chance(30) {
		words = []string{"", []string{"a", "b", "日本"}[x.g.intn(3)]}
	} else if x.g.chance(40) {
		pr := lookalikePairs[x.g.intn(len(lookalikePairs))]
		words = []string{pr[0], pr[1], "zz"}[:2+x.g.intn(2)]
	}
	sort.Strings(words)
	scheme := []string{"none", "", "bogus"}[x.g.intn(3)]
	sep := []string{"char:_", "char:45", "preset:none", "const:46.46"}[x.g.intn(4)]
	x.emit("wlcell words=%s titles=%s L=1 sep=%s cap=%s", encList(words), encList(wordTitles(words)), sep, encCps(scheme))
}

// emptyWordBlock: lists that contain the empty word (NewWordList accepts and counts it), under
// every scheme, with the empty word drawn at every position — capitalised positions included. The
// answer is a password or an error, never a panic.
func (x *gen) emptyWordBlock() {
	lists := [][]string{{""}, {"", "a"}, {"", "b", "c"}, {"", "日本"}, {"", "Polish", "polish"}, {" ", "a"}, {"\t", "b", "c"}, {"\u3000", "日本"}, {"\u00a0"}}
	for _, ws := range lists {
		sort.Strings(ws)
		n := uint32(len(uniq(ws)))
		for _, scheme := range []string{"none", "first", "all", "random", "one"} {
			for _, L := range []int{1, 2, 3} {
				for pos := 0; pos < L; pos++ {
					var t []uint32
					switch scheme {
					case "one":
						t = append(t, uint32(pos))
					case "random":
						for i := 0; i < L; i++ {
							t = append(t, 1)
						}
					}
					for i := 0; i < L; i++ {
						if i == pos {
							t = append(t, 0) // the empty word sorts first
						} else {
							t = append(t, (n-1)%n)
						}
					}
					sep := []string{"char:_", "char:45", "preset:none"}[(pos+L)%3]
					x.emit("wlgen words=%s titles=%s L=%d sep=%s cap=%s tape=%s", encList(ws), encList(wordTitles(ws)), L, sep, encCps(scheme), encWords(append(t, 0, 0, 0, 0)))
				}
			}
		}
	}
}

// slowSourceOps: the same call on the same bytes from a source that takes its time — a pause before
// one of its reads — gives the same result: nothing in a recipe or in the random bytes says what
// time it is. The first candidate misses the requirement, the pause comes before the retry.
func (x *gen) slowSourceOps(pauses []int) {
	for i, ms := range pauses {
		var r recipeSpec
		r.L, r.ac, r.rs = 3, "x", []string{"ab"}
		// sorted alphabet a b x: first candidate xxx (rejected), second axx
		t := []uint32{2, 2, 2, 0, 2, 2, 1, 1, 1, 1}
		// the pause inside the first attempt (so that it is over when the retry is considered) and, in
		// the thorough tier, at the first read of the retry as well
		x.emit("chargen r=%s T=5 fr=1:1 tape=%s slow=2:%d", r.enc(), encWords(t), ms)
		if x.thorough() {
			x.emit("chargen r=%s T=5 fr=1:1 tape=%s slow=%d:%d", r.enc(), encWords(t), 4+i%2, ms)
		}
		ws := []string{"uno", "dos", "tres"}
		x.emit("wlgen words=%s titles=%s L=3 sep=recipe:1/0/0/0/%s/%s/_ cap=%s T=5 fr=1:1 tape=1.2.0.2.0.1.1.1.1.1.1.1 slow=%d:%d",
			encList(ws), encList(wordTitles(ws)), encCps("x"), encCps("ab"), encCps("none"), 2, ms)
	}
}

// oneCellOps: the 'one' position pick on a list that mixes words with and without a capital form,
// as a complete cell of position draws for every word tuple: no position is capitalised by two
// different raw words of the cell.
func (x *gen) oneCellOps() {
	pools := [][]string{{"42", "x", "y"}, {"日本", "ab"}, {"4", "5", "z"}, {"Polish", "amber", "bee"}, {"ß", "x"}}
	words := append([]string{}, pools[x.g.intn(len(pools))]...)
	sort.Strings(words)
	L := 2 + x.g.intn(2)
	if len(words) == 3 && L == 3 && x.g.chance(50) {
		L = 2
	}
	sep := []string{"char:_", "char:45", "preset:none"}[x.g.intn(3)]
	x.emit("wlcell words=%s titles=%s L=%d sep=%s cap=%s", encList(words), encList(wordTitles(words)), L, sep, encCps("one"))
}

// reassignOps: the program assigns one exported preset variable; every OTHER preset, taken before
// the assignment, still yields what its name says (a preset is a value, not a reference to its
// neighbours).
func (x *gen) reassignOps() {
	names := []string{"none", "d1", "d2", "dna1", "dna2", "sym", "ds"}
	ws := []string{"uno", "dos", "tres"}
	for _, re := range names {
		for _, use := range names {
			if re == use {
				continue
			}
			t := make([]uint32, 16)
			for i := range t {
				t[i] = uint32(x.g.intn(6))
			}
			op := "wlgen"
			if x.g.chance(30) {
				op = "wlent"
			}
			x.emit("%s words=%s titles=%s L=3 sep=preset:%s cap=%s tape=%s reassign=%s", op, encList(ws), encList(wordTitles(ws)), use, encCps("none"), encWords(t), re)
		}
	}
}

// bigAlphabetBlock: alphabets and required sets of more than 256 characters, with draws that
// pick indices at and beyond 255 (an index is not a byte).
func (x *gen) bigAlphabetBlock() {
	var big, big2 []rune
	for i := 0; i < 300; i++ {
		big = append(big, rune(0x4E00+i))
	}
	for i := 0; i < 270; i++ {
		big2 = append(big2, rune(0x0400+i))
	}
	for _, c := range []struct {
		ac string
		rs []string
	}{{string(big), nil}, {string(big), []string{string(big2)}}, {"ab", []string{string(big), "xyz"}}, {string(big) + string(big2), []string{"a"}}} {
		var r recipeSpec
		r.L, r.ac, r.rs = 6, c.ac, c.rs
		n := uint32(alphabetSize(r))
		if n < 257 {
			continue
		}
		for _, t := range [][]uint32{{255, 256, 257, n - 1, 0, 1}, {n - 1, n - 2, 256, 511 % n, 512 % n, 300 % n}, {256, 256, 256, 256, 256, 256}} {
			x.emit("chargen r=%s T=3 fr=1:1 tape=%s", r.enc(), encWords(append(append([]uint32{}, t...), 0, 1, 2, 3, 4, 5, 256, 257, 258, 259, 260, 261)))
		}
		x.emit("charinfo r=%s", r.enc())
	}
}

// builtinListOps: generation from the shipped lists (thousands of words: indices beyond 255), the
// draws scripted.
func (x *gen) builtinListOps() {
	for _, l := range []struct {
		name string
		n    uint32
	}{{"@agilewords", uint32(len(spg.AgileWords))}, {"@agilesyllables", uint32(len(spg.AgileSyllables))}} {
		for k := 0; k < 3; k++ {
			scheme := []string{"none", "first", "one", "random", "all"}[x.g.intn(5)]
			L := 2 + x.g.intn(4)
			sep := []string{"char:45", "preset:d1", "preset:none", "char:_"}[x.g.intn(4)]
			var t []uint32
			if scheme == "one" {
				t = append(t, uint32(x.g.intn(L)))
			}
			if scheme == "random" {
				for i := 0; i < L; i++ {
					t = append(t, uint32(x.g.intn(2)))
				}
			}
			for i := 0; i < L; i++ {
				t = append(t, []uint32{255, 256, 257, l.n - 1, 65535 % l.n, 65536 % l.n, uint32(x.g.intn(int(l.n))), 0}[x.g.intn(8)])
				if sep == "preset:d1" {
					t = append(t, uint32(x.g.intn(10)))
				}
			}
			x.emit("wlgen words=%s L=%d sep=%s cap=%s tape=%s", l.name, L, sep, encCps(scheme), encWords(append(t, 1, 2, 3)))
		}
	}
}

// lookalikeBlock: every look-alike pair as a list of its own — constructed (both orders) and drawn
// from as a complete pick cell: two words, each selected by exactly one of the two residues.
func (x *gen) lookalikeBlock(cells bool) {
	for _, pr := range lookalikePairs {
		for _, ws := range [][]string{{pr[0], pr[1]}, {pr[1], pr[0], "zz"}} {
			x.emit("wlnew words=%s titles=%s reps=2", encList(ws), encList(wordTitles(ws)))
		}
		if cells {
			ws := []string{pr[0], pr[1]}
			sort.Strings(ws)
			x.emit("wlcell words=%s titles=%s L=1 sep=char:_ cap=%s", encList(ws), encList(wordTitles(ws)), encCps("none"))
		}
	}
}

// caseVariantCells: list entries that differ only in the case of inner letters are different words
// with different title-cased forms (strings.Title changes the first letter of each word and nothing
// else); complete cells under every capitalising scheme.
func (x *gen) caseVariantCells() {
	for _, ws := range [][]string{{"ab", "aB"}, {"mcdonald", "mcDonald"}, {"nasa", "nASA", "moon"}, {"iphone", "iPhone"}, {"éa", "éA"}, {"x-ray", "x-rAy"}} {
		sort.Strings(ws)
		for _, scheme := range []string{"first", "all", "one", "random"} {
			L := 1 + x.g.intn(2)
			x.emit("wlcell words=%s titles=%s L=%d sep=char:45 cap=%s", encList(ws), encList(wordTitles(ws)), L, encCps(scheme))
		}
	}
}

// titleOps: strings.Title on ASCII strings with every kind of word boundary (blank, hyphen,
// apostrophe, digit, underscore, punctuation, control characters), compared with the model's
// transcription; both sides also apply it twice (idempotence).
func (x *gen) titleOps(n int) {
	alphabet := "abzABZ019_ -'.,;:!?/\\\"()[]{}<>|@#$%^&*+=~`\t\n\r\x00\x1f\x7f"
	fixed := []string{"", "a", "don't", "x-ray", "w1x", "a_b", "4ever", "o'neil", "hello world", " lead", "trail ", "a  b", "A", "mcDonald", "_x", "1a", "a1b2", "x.y", "tab\tin", "q\x00r"}
	for _, w := range fixed {
		x.emit("title w=%s", encCps(w))
	}
	for i := 0; i < n; i++ {
		l := 1 + x.g.intn(9)
		var b strings.Builder
		for j := 0; j < l; j++ {
			b.WriteByte(alphabet[x.g.intn(len(alphabet))])
		}
		x.emit("title w=%s", encCps(b.String()))
	}
}

// bigListOps: lists of hundreds and thousands of distinct words — sizes around the powers of two,
// every residue modulo 4 and 8 — with a capitalised twin, a duplicate and a title-fixed word placed
// first, in the middle and last. Whatever an implementation does differently for long lists
// (chunks, workers, another data structure), the kept set is the same function of the input.
func (x *gen) bigListOps() {
	sizes := []int{61, 66, 131, 258, 517, 1026, 1031, 2053}
	if x.thorough() {
		sizes = append(sizes, 1024, 1025, 1027, 4098, 4103)
	}
	for _, n := range sizes {
		var seq []string
		for i := 0; i < n; i++ {
			seq = append(seq, fmt.Sprintf("w%04dx", i))
		}
		variants := [][]string{
			append(append([]string{"Alpha"}, seq...), "alpha"),
			append(append([]string{"alpha", "w0003x"}, seq...), "Alpha", "beta", "Beta"),
			append(append(append([]string{}, seq[:n/2]...), "Alpha", "4", "alpha"), seq[n/2:]...),
		}
		ws := variants[x.g.intn(len(variants))]
		x.emit("wlnew words=%s titles=%s reps=1 show=0", encList(ws), encList(wordTitles(ws)))
	}
}

// typeByteBlock: a full index carries a type byte per token, and a type byte is any byte. Every
// value, in an index that fits the string, in one whose first token is too long, and in one whose
// second token is too long: tokens or an error, never a panic.
func (x *gen) typeByteBlock() {
	pw := encHex([]byte("ab"))
	for t := 0; t < 256; t++ {
		x.emit("tokenize pw=%s idx=%s", pw, encHex([]byte{3, 1, byte(t), 1, byte(t)}))
		x.emit("tokenize pw=%s idx=%s", pw, encHex([]byte{3, 5, byte(t)}))
		x.emit("tokenize pw=%s idx=%s", pw, encHex([]byte{3, 1, byte(255 - t), 5, byte(t)}))
	}
	// every kind byte on a short and on an exact index
	for k := 0; k < 256; k++ {
		x.emit("tokenize pw=%s idx=%s", pw, encHex([]byte{byte(k), 1, 1}))
		x.emit("tokenize pw=%s idx=%s", pw, encHex([]byte{byte(k), 3}))
	}
}

// longGenerationOps: generation at lengths of thousands and tens of thousands of words (a
// capacity hint, a chunk size, a 16-bit counter are all exceeded): Length atoms, Length-1
// separators, the recipe's entropy.
func (x *gen) longGenerationOps() {
	ws := []string{"a", "b"}
	lens := []int{1000, 4097, 16385}
	if x.thorough() {
		lens = append(lens, 32769)
	}
	for _, L := range lens {
		t := make([]uint32, L+4)
		for i := range t {
			t[i] = uint32((i / 3) % 2)
		}
		sep := []string{"char:45", "const:46"}[L%2]
		x.emit("wlgen words=%s titles=%s L=%d sep=%s cap=%s tape=%s", encList(ws), encList(wordTitles(ws)), L, sep, encCps("none"), encWords(t))
	}
	var r recipeSpec
	r.L, r.ac = 16385, "ab"
	t := make([]uint32, r.L+4)
	for i := range t {
		t[i] = uint32((i / 5) % 2)
	}
	x.emit("chargen r=%s tape=%s", r.enc(), encWords(t))
}

// defaultBudgetOps: the documented default budget — 200 attempts — as the library itself runs it
// (no T=): 200 failing candidates and then the error, not one draw more; and at a Length of 200
// and more a first failing candidate is followed by a second attempt.
func (x *gen) defaultBudgetOps() {
	var r recipeSpec
	r.L, r.ac, r.rs = 2, "x", []string{"a"}
	t := make([]uint32, 2*205)
	for i := range t {
		t[i] = 1 // sorted alphabet a x: every candidate is xx
	}
	x.emit("chargen r=%s tape=%s", r.enc(), encWords(t))
	for _, L := range []int{198, 199, 200, 201, 255} {
		var q recipeSpec
		q.L, q.ac, q.rs = L, "x", []string{"a"}
		tt := make([]uint32, 2*L+4)
		for i := range tt {
			if i < L {
				tt[i] = 1 // first candidate: all x
			} else {
				tt[i] = 0 // second: all a
			}
		}
		x.emit("chargen r=%s tape=%s", q.enc(), encWords(tt))
	}
}

// longWordLists: a word is a word at any length — 255, 256, 300 and 1000 characters, alone, with its
// capitalised twin, among short words (what an index can encode is MakeIndices' business, not the
// list's).
func (x *gen) longWordLists() {
	for _, n := range []int{255, 256, 300, 1000} {
		long := strings.Repeat("q", n)
		for _, ws := range [][]string{{long}, {long, "a", "b"}, {strings.Title(long), long, "zz"}, {"a", long + "x", long}} {
			x.emit("wlnew words=%s titles=%s reps=2", encList(ws), encList(wordTitles(ws)))
		}
	}
}

func (x *gen) wlnewOp(reps int) {
	words := x.wordList(true)
	if x.g.chance(3) {
		words = nil
	}
	x.emit("wlnew words=%s titles=%s reps=%d", encList(words), encList(wordTitles(words)), reps)
}

// ---------- tokens

var tokPool = []string{"a", "b", "-", " ", "correct", "horse", "é", "ü", "日本", "😀", "ab", "x→y", "0", "12", "été", "𝄞𝄞",
	"\uFFFD", "caf\uFFFD", "\u00a0", "\u2028", "%s", "\n", "\r", "end\r", "line\n", "\r\n", " ", "tab\t",
	// a character is a code point: combining marks, joiners, regional indicators and jamo are characters
	// of their own, whatever a user-perceived "grapheme" is
	"e\u0301", "\u0301", "a\u0308\u0323", "🇩🇪", "👨\u200d👩\u200d👧", "\u1100\u1161", "\u0e01\u0e33", "x\ufe0f",
	// what a well-meaning clean-up would strip from the front or the end of a password
	"\ufeff", "\ufeffab", "\u200b", "\x00", " lead", "trail ", "\u200e", "\u00ad"}

func (x *gen) tokValue() string {
	switch c := x.g.intn(100); {
	case c < 2:
		return ""
	case c < 85:
		return tokPool[x.g.intn(len(tokPool))]
	case c < 90:
		return strings.Repeat(tokPool[x.g.intn(len(tokPool))], 1+x.g.intn(40))
	default:
		unit := []string{"a", "é", "日", "😀"}[x.g.intn(4)]
		n := []int{254, 255, 256, 300, 128, 127}[x.g.intn(6)]
		return strings.Repeat(unit, n)
	}
}

func (x *gen) mkidxOp() {
	n := 1 + x.g.intn(8)
	if x.g.chance(2) {
		n = 0
	}
	shape := x.g.intn(5)
	var parts []string
	for i := 0; i < n; i++ {
		v := x.tokValue()
		t := 1
		switch shape {
		case 0: // character password
			v = []string{"a", "é", "日", "😀", "0"}[x.g.intn(5)]
		case 1: // all atoms
		case 2: // alternating
			if n%2 == 0 && i == n-1 {
				n++ // keep odd
			}
			t = 1 - i%2
		case 3: // irregular 0/1
			t = x.g.intn(2)
		default:
			t = x.g.intn(2)
			if x.g.chance(20) {
				t = x.g.intn(256)
			}
		}
		parts = append(parts, fmt.Sprintf("%d:%s", t, encHex([]byte(v))))
	}
	s := "-"
	if len(parts) > 0 {
		s = strings.Join(parts, ",")
	}
	x.emit("mkidx toks=%s", s)
}

func (x *gen) randomBytes(n int, validBias bool) []byte {
	var b []byte
	for len(b) < n {
		if validBias && x.g.chance(80) {
			b = append(b, []byte(tokPool[x.g.intn(len(tokPool))])...)
		} else {
			switch x.g.intn(4) {
			case 0:
				b = append(b, byte(0x80+x.g.intn(0x80))) // stray continuation / lead byte
			case 1:
				b = append(b, 0xE2, 0x82) // truncated 3-byte sequence
			case 2:
				b = append(b, 0xF0, 0x9F, 0x98) // truncated 4-byte sequence
			default:
				b = append(b, byte(x.g.next()))
			}
		}
	}
	return b
}

// longTokenizeOp: passwords longer than one index byte can count (255 characters and around
// multiples of it), with short indices of every kind.
func (x *gen) longTokenizeOp() {
	unit := []string{"a", "é", "日", "😀", "ab"}[x.g.intn(5)]
	n := []int{254, 255, 256, 257, 300, 509, 510, 511, 600, 1021}[x.g.intn(10)]
	pw := []byte(strings.Repeat(unit, n))
	chars := n * len([]rune(unit))
	var idx []byte
	switch x.g.intn(6) {
	case 0:
		idx = []byte{0}
	case 1:
		idx = []byte{0, byte(x.g.intn(256))}
	case 2:
		idx = []byte{1, 255, byte(minInt(chars-255, 255))}
	case 3:
		idx = []byte{2, 200, 55, byte(minInt(maxInt(chars-255, 0), 255))}
	case 4:
		idx = []byte{3, 255, 1, 1, 0, byte(minInt(maxInt(chars-256, 0), 255)), 1}
	default:
		idx = []byte{1}
		rem := chars
		for rem > 0 && len(idx) < 12 {
			l := minInt(rem, 255)
			idx = append(idx, byte(l))
			rem -= l
		}
	}
	x.emit("tokenize pw=%s idx=%s", encHex(pw), encHex(idx))
}

func minInt(a, b int) int {
	if a < b {
		return a
	}
	return b
}

func (x *gen) tokenizeOp() {
	if x.g.chance(4) {
		x.longTokenizeOp()
		return
	}
	pw := x.randomBytes(x.g.intn(16), x.g.chance(70))
	if x.g.chance(5) {
		pw = nil
	}
	nchars := len(strings.Split(string(pw), ""))
	if len(pw) == 0 {
		nchars = 0
	}
	var idx []byte
	ilen := x.g.intn(10)
	if ilen > 0 {
		k := byte(x.g.intn(5))
		if x.g.chance(10) {
			k = byte(x.g.intn(256))
		}
		idx = append(idx, k)
		remaining := nchars
		for i := 1; i < ilen; i++ {
			var v byte
			if k == 3 && i%2 == 0 {
				v = byte(x.g.intn(2))
				if x.g.chance(10) {
					v = byte(x.g.intn(256))
				}
			} else {
				switch x.g.intn(6) {
				case 0:
					v = byte(remaining)
				case 1:
					v = byte(remaining + 1)
				case 2:
					v = 0
				default:
					v = byte(x.g.intn(maxInt(remaining, 1) + 1))
				}
				remaining -= int(v)
				if remaining < 0 {
					remaining = 0
				}
			}
			idx = append(idx, v)
		}
	}
	x.emit("tokenize pw=%s idx=%s", encHex(pw), encHex(idx))
}

func (x *gen) explodeOp() {
	x.emit("explode pw=%s", encHex(x.randomBytes(x.g.intn(12), x.g.chance(40))))
}

// ---------- opgen command lines

func (x *gen) classList() string {
	words := []string{"uppercase", "lowercase", "digits", "symbols", "ambiguous", "bogus", "Uppercase", ""}
	n := x.g.intn(4)
	if n == 0 && x.g.chance(50) {
		return ""
	}
	var l []string
	for i := 0; i <= n; i++ {
		w := words[x.g.intn(len(words))]
		if x.g.chance(70) {
			w = words[x.g.intn(5)]
		}
		l = append(l, w)
	}
	sep := ","
	if x.g.chance(20) {
		sep = ", "
	}
	return strings.Join(l, sep)
}

func (x *gen) flagArg(args *[]string, name, value string) {
	dash := "--"
	if x.g.chance(30) {
		dash = "-"
	}
	if x.g.chance(50) {
		*args = append(*args, dash+name+"="+value)
	} else {
		*args = append(*args, dash+name, value)
	}
}

// cliFileTextOp: a word file given as TEXT — words separated by arbitrary non-empty runs of the
// characters Go's unicode.IsSpace accepts, with or without leading and trailing runs — so that
// the split opgen makes (strings.Fields) is compared with the model's (Spg.Fields.fields). The
// words= list, from which the model takes strings.Title only, is what this generator put in.
var spaceRuns = []string{" ", "\n", "\r\n", "\t", "\u00a0", "\u3000", "\u2028", "  \n\n", "\v", "\f", "\u0085", "\u1680", "\u2003",
	"\u202f", "\u205f", "\u2029", " \t \r\n", "\u2000\u200a"}

var fileNames = []string{"list$A.txt", "price$USD.txt", "w${A}x.txt", "$A", "${A}", "~words.txt", "a b.txt", "%41.txt", "w*.txt", "w?.txt", "é.txt", "w#1.txt",
	"[a]bc.txt", "w%s.txt", "w\\x.txt", "$HOME.txt", "w$.txt", "two  spaces.txt", "trailing.txt ", "w;x.txt", "w'q.txt"}

func (x *gen) cliFileTextOp() {
	var words []string
	for _, w := range x.wordList(false) {
		if f := strings.Fields(w); len(f) == 1 && f[0] == w {
			words = append(words, w)
		}
	}
	if len(words) == 0 {
		words = []string{"alpha", "beta"}
	}
	if len(words) > 8 {
		words = words[:8]
	}
	text := ""
	if x.g.chance(40) {
		text += spaceRuns[x.g.intn(len(spaceRuns))]
	}
	for i, w := range words {
		text += w
		if i < len(words)-1 || x.g.chance(60) {
			text += spaceRuns[x.g.intn(len(spaceRuns))]
			if x.g.chance(25) {
				text += spaceRuns[x.g.intn(len(spaceRuns))]
			}
		}
	}
	args := []string{"words", "--file", "@FILE"}
	if x.g.chance(60) {
		x.flagArg(&args, "size", []string{"1", "2", "3", "4"}[x.g.intn(4)])
	}
	if x.g.chance(50) {
		x.flagArg(&args, "capitalize", []string{"none", "first", "all", "random", "one"}[x.g.intn(5)])
	}
	if x.g.chance(50) {
		x.flagArg(&args, "separator", []string{"hyphen", "space", "comma", "period", "underscore", "digit", "none"}[x.g.intn(7)])
	}
	if x.g.chance(60) {
		args = append(args, "--entropy")
	}
	pipe := ""
	if x.g.chance(25) {
		pipe = " pipe=1"
	}
	// the file is the one the argument names, character for character: a name is not a pattern, a
	// template or a shell word, whatever the environment holds
	if pipe == "" && x.g.chance(35) {
		pipe = " fname=" + encCps(fileNames[x.g.intn(len(fileNames))])
		if x.g.chance(50) {
			pipe += " env=1"
		}
	}
	x.emit("cli argv=%s words=%s titles=%s filetext=%s%s", encList(args), encList(words), encList(wordTitles(words)), encCps(text), pipe)
}

func (x *gen) cliOp() {
	var args []string
	extra := ""
	switch c := x.g.intn(100); {
	case c < 3:
		// no arguments at all
	case c < 8:
		args = append(args, []string{"bogus", "-x", "--characters", "Characters", "-h", "--help", "--", "-", "recipe"}[x.g.intn(9)])
		if x.g.chance(50) {
			args = append(args, "--length=5")
		}
	case c < 55:
		args = append(args, "characters")
		if x.g.chance(70) {
			L := []string{"-1", "0", "1", "2", "3", "4", "5", "8", "20", "64", "200"}[x.g.intn(11)]
			if x.g.chance(3) {
				L = "abc"
			}
			x.flagArg(&args, "length", L)
		}
		if x.g.chance(50) {
			x.flagArg(&args, "allow", x.classList())
		}
		if x.g.chance(50) {
			x.flagArg(&args, "require", x.classList())
		}
		if x.g.chance(40) {
			x.flagArg(&args, "exclude", x.classList())
		}
		if x.g.chance(25) {
			args = append(args, []string{"--entropy", "-entropy", "--entropy=true", "--entropy=false", "--entropy=maybe"}[x.g.intn(5)])
		}
		if x.g.chance(4) {
			args = append(args, []string{"--bogus", "-h", "--size=3", "--", "stray"}[x.g.intn(5)])
		}
		if x.g.chance(3) {
			args = append(args, "--length") // missing value
		}
	default:
		args = append(args, "words")
		if x.g.chance(70) {
			x.flagArg(&args, "size", []string{"-1", "0", "1", "2", "3", "4", "7", "50"}[x.g.intn(8)])
		}
		if x.g.chance(35) {
			x.flagArg(&args, "list", []string{"words", "syllables", "syllables", "bogus", ""}[x.g.intn(5)])
		}
		if x.g.chance(35) {
			x.flagArg(&args, "file", "@FILE")
			if x.g.chance(85) {
				var words []string
				if x.g.chance(90) {
					for _, w := range x.wordList(false) {
						// a word file is split at Unicode white space: keep words that survive that intact
						if f := strings.Fields(w); len(f) == 1 && f[0] == w {
							words = append(words, w)
						}
					}
					// a very long word (word files are arbitrary text): beyond common buffer sizes
					if x.g.chance(6) {
						n := []int{4095, 4096, 65535, 65536, 70000}[x.g.intn(5)]
						long := strings.Repeat("q", n)
						pos := x.g.intn(len(words) + 1)
						words = append(words[:pos], append([]string{long}, words[pos:]...)...)
					}
					// words a shell user might well have in a file: format verbs, escapes, quotes
					if x.g.chance(35) {
						hostile := []string{"50%off", "x%%y", "%s", "%d%d", "100%", "a\\nb", "$HOME", "`id`", "--size", "-h", "%v%!"}
						for i, k := 0, 1+x.g.intn(3); i < k; i++ {
							words = append(words, hostile[x.g.intn(len(hostile))])
						}
					}
				}
				extra = fmt.Sprintf(" words=%s titles=%s", encList(words), encList(wordTitles(words)))
				if len(words) == 0 {
					extra = " words=- titles=-"
				}
			}
		}
		if x.g.chance(60) {
			x.flagArg(&args, "separator", []string{"hyphen", "space", "comma", "period", "underscore", "digit", "none", "bogus", ""}[x.g.intn(9)])
		}
		if x.g.chance(60) {
			x.flagArg(&args, "capitalize", []string{"none", "first", "all", "random", "one", "bogus", ""}[x.g.intn(7)])
		}
		if x.g.chance(25) {
			args = append(args, []string{"--entropy", "-entropy=1", "--entropy=T"}[x.g.intn(3)])
		}
		if x.g.chance(4) {
			args = append(args, []string{"--bogus", "-help", "--length=3", "stray", "--"}[x.g.intn(5)])
		}
	}
	al := encList(args)
	if len(args) == 0 {
		al = "-"
	}
	x.emit("cli argv=%s%s", al, extra)
}

// ---------- complete cells: every index tuple of one attempt, for small alphabets

func (x *gen) cellOps(maxCell int) {
	r := x.recipe(1)
	n := alphabetSize(r)
	if n == 0 || r.L < 1 {
		return
	}
	cell := 1
	for i := 0; i < r.L; i++ {
		cell *= n
		if cell > maxCell {
			return
		}
	}
	idx := make([]uint32, r.L)
	for c := 0; c < cell; c++ {
		v := c
		for i := r.L - 1; i >= 0; i-- {
			idx[i] = uint32(v % n)
			v /= n
		}
		// one attempt from this cell, then a second, random attempt in case the first is rejected
		t := append(append([]uint32{}, idx...), x.tape(n, r.L, 4)...)
		x.emit("chargen r=%s T=2 fr=1:1 tape=%s", r.enc(), encWords(t))
	}
}

// wordlist cells: every (capitalisation, word tuple) for a tiny list and constant separator
func (x *gen) wlCellOps(maxCell int) {
	words := x.wordList(false)
	sort.Strings(words)
	size := len(uniq(words))
	L := 1 + x.g.intn(3)
	scheme := schemes[x.g.intn(5)]
	capDraws, capBound := 0, 1
	switch scheme {
	case "one":
		capDraws, capBound = 1, L
	case "random":
		capDraws, capBound = L, 2
	}
	cell := 1
	for i := 0; i < capDraws; i++ {
		cell *= capBound
	}
	for i := 0; i < L; i++ {
		cell *= size
	}
	if cell > maxCell || size == 0 {
		return
	}
	sep := []string{"char:_", "char:45", "const:46.46", "preset:none"}[x.g.intn(4)]
	wa := fmt.Sprintf("words=%s titles=%s", encList(words), encList(wordTitles(words)))
	// the whole cell as one operation: outcome histogram on both sides
	x.emit("wlcell %s L=%d sep=%s cap=%s", wa, L, sep, encCps(scheme))
	for c := 0; c < cell; c++ {
		v := c
		t := make([]uint32, capDraws+L)
		for i := capDraws + L - 1; i >= capDraws; i-- {
			t[i] = uint32(v % size)
			v /= size
		}
		for i := capDraws - 1; i >= 0; i-- {
			t[i] = uint32(v % capBound)
			v /= capBound
		}
		x.emit("wlgen %s L=%d sep=%s cap=%s tape=%s", wa, L, sep, encCps(scheme), encWords(t))
	}
}

func uniq(l []string) []string {
	seen := map[string]bool{}
	var out []string
	for _, s := range l {
		if !seen[s] {
			seen[s] = true
			out = append(out, s)
		}
	}
	// capitalised twins are dropped by NewWordList
	var kept []string
	for _, s := range out {
		twin := false
		for _, u := range out {
			if u != s && strings.Title(u) == s {
				twin = true
			}
		}
		if !twin {
			kept = append(kept, s)
		}
	}
	return kept
}

// namedFlagBlock: every named flag constant of the package in every role (the model uses the
// documented value of the name, the harness the package's constant).
func (x *gen) namedFlagBlock() {
	names := []string{"Uppers", "Lowers", "Digits", "Symbols", "Ambiguous", "None", "Letters", "All"}
	for _, n := range names {
		x.emit("charinfo r=4/%s/0/0/_/-/_", n)
		x.emit("charinfo r=4/All/%s/0/_/-/_", n)
		x.emit("charinfo r=4/All/0/%s/_/-/_", n)
		x.emit("charinfo r=4/31/%s/%s/_/-/_", n, names[x.g.intn(len(names))])
		tape := make([]uint32, 40)
		for i := range tape {
			tape[i] = x.g.u32()
		}
		x.emit("chargen r=5/All/%s/0/_/-/_ tape=%s", n, encWords(tape))
	}
}

// presets driven through the complete cell of first-word residues
func (x *gen) presetCells() {
	for _, p := range []struct {
		name string
		n, l int
	}{{"none", 1, 0}, {"d1", 10, 1}, {"d2", 10, 2}, {"dna1", 7, 1}, {"dna2", 7, 2}, {"sym", 6, 1}, {"ds", 16, 1}} {
		cell := 1
		for i := 0; i < p.l; i++ {
			cell *= p.n
		}
		for c := 0; c < cell; c++ {
			// two words "a","b"; L=2: word, separator draws, word, entropy sample
			t := []uint32{0}
			v := c
			sepIdx := make([]uint32, p.l)
			for i := p.l - 1; i >= 0; i-- {
				sepIdx[i] = uint32(v % p.n)
				v /= p.n
			}
			t = append(t, sepIdx...)
			t = append(t, 1)
			t = append(t, sepIdx...)
			x.emit("wlgen words=97,98 titles=65,66 L=2 sep=preset:%s cap=%s tape=%s", p.name, encCps("none"), encWords(t))
		}
		x.emit("wlent words=97,98 titles=65,66 L=3 sep=preset:%s cap=%s tape=%s", p.name, encCps("one"), encWords([]uint32{3, 3, 3, 3}))
	}
}

// histories (C15): a small pool of long-lived recipes and lists; between calls the "caller"
// updates fields; every call is an ordinary op evaluated statelessly by the model.
func (x *gen) historyOps(steps int) {
	type obj struct {
		spec recipeSpec
	}
	pool := make([]obj, 3)
	base := x.nextID()
	for i := range pool {
		pool[i].spec = x.recipe(x.g.intn(4))
	}
	wl := x.wordList(true)
	if x.g.chance(35) {
		// the long-lived list holds the empty word: drawing it must leave the list as it was
		wl = append(wl, "")
	}
	wlid := fmt.Sprintf("h%d", base)
	fixed := map[int]string{} // a call replayed later with the same tape must give the same answer
	for s := 0; s < steps; s++ {
		i := x.g.intn(len(pool))
		o := &pool[i]
		// caller-side update of one field
		switch x.g.intn(10) {
		case 0:
			o.spec.L = 1 + x.g.intn(12)
		case 1:
			o.spec.allow = x.flagWord()
		case 2:
			o.spec.require = x.flagWord() & x.flagWord()
		case 3:
			o.spec.exclude = x.flagWord() & x.flagWord()
		case 4:
			o.spec.ac = x.poolString(6, true)
		case 5:
			o.spec.rs = append([]string{}, x.poolString(3, false), x.poolString(3, false))
		case 6:
			o.spec.ec = x.poolString(4, false)
		case 7:
			// the same required characters, partitioned differently (merged into one set, split into
			// single characters, or with an empty entry added): a different recipe with the same "text"
			all := strings.Join(o.spec.rs, "")
			if all == "" {
				all = "ab1"
				o.spec.L = 2 + x.g.intn(6)
			}
			switch x.g.intn(3) {
			case 0:
				o.spec.rs = []string{all}
			case 1:
				o.spec.rs = nil
				for _, c := range all {
					o.spec.rs = append(o.spec.rs, string(c))
				}
				if len(o.spec.rs) > 8 {
					o.spec.rs = append(o.spec.rs[:7], strings.Join(o.spec.rs[7:], ""))
				}
			default:
				o.spec.rs = append([]string{""}, all)
			}
		}
		id := fmt.Sprintf(" obj=c%d_%d", base, i)
		switch x.g.intn(5) {
		case 0:
			x.emit("charinfo r=%s%s", o.spec.enc(), id)
		case 1, 2:
			x.chargenOp(o.spec, id)
			if x.g.chance(30) {
				fixed[i] = x.out[len(x.out)-1]
			}
		case 3:
			if l, ok := fixed[i]; ok && x.g.chance(60) {
				// replay an earlier call of this object; its fields are reset by the line itself
				x.out = append(x.out, l)
				_, a := parseLine(l)
				o.spec = parseRecipe(a["r"])
			} else {
				x.charinfoOp(o.spec)
			}
		case 4:
			L := 1 + x.g.intn(4)
			sep := x.sepSpec()
			t := x.wlTape(len(wl), L, sep, x.g.intn(3))
			x.emit("wlgen words=%s titles=%s wlobj=%s L=%d sep=%s cap=%s tape=%s", encList(wl), encList(wordTitles(wl)), wlid, L, sep,
				encCps(schemes[x.g.intn(5)]), encWords(t))
		}
	}
}

// sepHistoryOps: ONE separator function (a recipe with requirements, so that a draw can run out of
// trials) used by several calls: a call whose separator draws succeed, a call whose second
// separator runs out of trials, the first call again. A separator function must not remember
// anything between calls.
func (x *gen) sepHistoryOps() {
	base := x.nextID()
	sets := [][2]string{{"01234", "56789"}, {"ab", "cd"}, {"x", "yz"}}[x.g.intn(3)]
	var sr recipeSpec
	sr.L = 2
	sr.rs = []string{sets[0], sets[1]}
	n := alphabetSize(sr)
	first := 0
	second := len([]rune(sets[0])) // sorted alphabet: index of the first character of the second set
	sep := "recipe:" + sr.enc()
	wl := []string{"aa", "bb", "cc"}
	T := 3 + x.g.intn(4)
	line := func(L int, good []bool) {
		var t []uint32
		for i := 0; i < L; i++ {
			t = append(t, uint32(x.g.intn(len(wl))))
			if i < L-1 {
				if good[i] {
					t = append(t, uint32(first), uint32(second))
				} else {
					for k := 0; k < T; k++ {
						t = append(t, uint32(first), uint32(first))
					}
				}
			}
		}
		// the separator call made by Entropy()
		t = append(t, uint32(first), uint32(second), 0, 0, 0, 0)
		_ = n
		x.emit("wlgen words=%s titles=%s L=%d sep=%s sepobj=s%d cap=_ T=%d fr=1:1 tape=%s", encList(wl), encList(wordTitles(wl)), L, sep, base, T, encWords(t))
	}
	line(3, []bool{true, true})
	line(3, []bool{true, false})
	line(2, []bool{false})
	line(3, []bool{false, true})
	line(3, []bool{true, true})
}

// fault injection (C09): a generation replayed with the tape cut at every read position, with
// stray bytes after the cut, and with reads split into short reads.
func (x *gen) faultOps() {
	r := x.recipe(1)
	n := alphabetSize(r)
	if n == 0 {
		return
	}
	t := x.tape(n, r.L*3, 0)
	line := func(tt []uint32, extra string) {
		x.emit("chargen r=%s T=3 fr=1:1 tape=%s%s", r.enc(), encWords(tt), extra)
	}
	line(t, "")
	line(t, fmt.Sprintf(" chunk=%d", x.g.next()%1000000))
	for k := 0; k <= len(t) && k <= 12; k++ {
		e := ""
		if k%4 != 0 || x.g.chance(50) {
			e = " extra=" + encHex([]byte{1, 2, 3}[:1+x.g.intn(3)])
		}
		line(t[:k], e)
	}
	// the source fails once — with an error that calls itself temporary, a timeout, an interrupted
	// system call, a wrapped one — and would deliver again afterwards: fail closed all the same
	for k := 0; k <= len(t) && k <= 6; k++ {
		line(t[:k], fmt.Sprintf(" resume=%d:%s", x.g.intn(len(errorKinds)), encWords(x.tape(n, r.L*3, 0))))
	}
	words := x.wordList(false)
	L := 1 + x.g.intn(3)
	sep := x.sepSpec()
	wt := x.wlTape(len(words), L, sep, 0)
	wa := fmt.Sprintf("words=%s titles=%s", encList(words), encList(wordTitles(words)))
	scheme := schemes[x.g.intn(5)]
	wline := func(tt []uint32, extra string) {
		x.emit("wlgen %s L=%d sep=%s cap=%s tape=%s%s", wa, L, sep, encCps(scheme), encWords(tt), extra)
	}
	wline(wt, " twice=1")
	wline(wt, fmt.Sprintf(" chunk=%d", x.g.next()%1000000))
	// many coin flips, not all equal, twice on the same bytes
	if x.g.chance(50) {
		ct := make([]uint32, 40)
		for i := range ct {
			ct[i] = x.g.u32()
		}
		x.emit("wlgen words=97,98 titles=65,66 L=12 sep=char:_ cap=%s tape=%s twice=1", encCps("random"), encWords(ct))
		x.emit("wlgen words=97,98 titles=65,66 L=12 sep=char:_ cap=%s tape=%s chunk=%d", encCps("random"), encWords(ct), x.g.next()%1000000)
		x.emit("wlgen words=97,98,99 titles=65,66,67 L=5 sep=preset:d1 cap=%s tape=%s chunk=%d", encCps("one"), encWords(ct), x.g.next()%1000000)
	}
	for k := 0; k <= len(wt) && k <= 10; k++ {
		e := ""
		if x.g.chance(50) {
			e = " extra=" + encHex([]byte{9, 8, 7}[:1+x.g.intn(3)])
		}
		wline(wt[:k], e)
	}
	for k := 0; k <= len(wt) && k <= 4; k++ {
		wline(wt[:k], fmt.Sprintf(" resume=%d:%s", x.g.intn(len(errorKinds)), encWords(x.wlTape(len(words), L, sep, 0))))
	}
}

// ---------- op sets per property

func generate(prop, tier string, seed uint64) []string {
	x := &gen{g: &rng{s: seed*0x9E3779B97F4A7C15 + hashString(prop)}, tier: tier}
	scale := 1
	if tier == "thorough" {
		scale = 8
	}
	rep := func(n int, f func()) {
		for i := 0; i < n*scale; i++ {
			f()
		}
	}
	switch prop {
	case "C01":
		// the raw word a draw is given is its own, whatever else the library is doing meanwhile
		rep(25, func() { x.chargenOp(x.recipe(1), fmt.Sprintf(" reenter=%d", 1+x.g.intn(5))) })
		rep(15, func() { x.wlgenOp("wlgen", fmt.Sprintf(" reenter=%d", 1+x.g.intn(5))) })
		x.budgetBoundaryOps()
		rep(3000, x.drawOp)
		rep(400, x.sourceOp)
		// the draws as the generators make them: characters, words, the 'one' position, coin flips
		rep(40, func() { x.chargenOp(x.recipe(1), "") })
		rep(60, func() { x.longCapsOp() })
		rep(25, x.pickCellOps)
		rep(12, x.oneCellOps)
		x.lookalikeBlock(true)
		// a pick whose raw word cannot be delivered yields no alternative at all: no result
		rep(8, x.faultOps)
	case "C02":
		rep(30, func() { x.chargenOp(x.recipe(1), fmt.Sprintf(" reconf=%d", 1+x.g.intn(4))) })
		x.bigAlphabetBlock()
		x.metaCharBlock()
		x.chunkedOps(15)
		for i := 0; i < 10*scale/scale; i++ {
			x.manySetsOp()
		}
		rep(60, x.sameLeadOp)
		rep(40, func() { x.cellOps(1500) })
		rep(400, func() { x.chargenOp(x.recipe(1), "") })
		rep(300, func() { x.chargenOp(x.recipe(0), "") })
	case "C03":
		rep(40, func() { x.chargenOp(x.recipe(x.g.intn(4)), fmt.Sprintf(" reconf=%d", 1+x.g.intn(4))) })
		x.bigAlphabetBlock()
		x.metaCharBlock()
		x.soleWitnessOps()
		for i := 0; i < 10*scale/scale; i++ {
			x.manySetsOp()
		}
		x.classRoleBlock()
		rep(80, x.sameLeadOp)
		rep(600, func() { x.charinfoOp(x.recipe(x.g.intn(4))) })
		rep(900, func() { x.chargenOp(x.recipe(x.g.intn(4)), "") })
		// every flag combination of one field against random others (a seed-permuted slice)
		rep(300, func() { x.charinfoOp(x.recipe(2)) })
	case "C04":
		// another complete call made in the middle of a generation: the choices are this call's own
		rep(40, func() { x.wlgenOp("wlgen", fmt.Sprintf(" reenter=%d", 1+x.g.intn(8))) })
		x.chunkedOps(10)
		x.budgetBoundaryOps()
		rep(40, x.longCapsOp)
		rep(25, func() { x.wlCellOps(1200) })
		rep(25, x.pickCellOps)
		rep(12, x.oneCellOps)
		x.lookalikeBlock(true)
		x.caseVariantCells()
		rep(8, x.faultOps)
		x.builtinListOps()
		rep(700, func() { x.wlgenOp("wlgen", "") })
	case "C05":
		x.emptyWordBlock()
		rep(30, func() { x.wlgenOp("wlgen", fmt.Sprintf(" reconf=%d", 1+x.g.intn(4))) })
		x.longGenerationOps()
		x.titleOps(150)
		rep(12, x.oneCellOps)
		rep(1500, func() { x.wlgenOp("wlgen", "") })
		x.emit("wlgen words=_ titles=_ L=3 sep=char:_ cap=%s tape=0.0.0", encCps("none")) // D8
	case "C06":
		x.chunkedOps(15)
		rep(400, func() { x.chargenOp(x.recipe(x.g.intn(4)), "") })
		rep(400, func() { x.charinfoOp(x.recipe(x.g.intn(4))) })
		rep(500, func() { x.wlgenOp("wlgen", "") })
		rep(300, func() { x.wlgenOp("wlent", "") })
		rep(15, func() { x.wlCellOps(600) })
		x.caseVariantCells()
		x.wlLengthBlock()
		x.charLengthBlock()
		rep(30, x.longCapsOp)
	case "C07":
		x.bigAlphabetBlock()
		x.thirteenSetsOps()
		x.charLengthBlock()
		rep(12, x.cancellationOp)
		for i := 0; i < 3; i++ {
			x.manySetsOp()
		}
		rep(8, x.collisionPairOps)
		rep(1200, func() { x.charinfoOp(x.recipe(3)) })
		rep(400, func() { x.charinfoOp(x.recipe(0)) })
	case "C08":
		for _, sch := range []string{"none", "random", "one"} {
			x.emit("wlent words=%s titles=%s L=4 sep=char:_ cap=%s tape=1.2.3.4 sfnone=reassigned", encList([]string{"uno", "dos", "tres"}), encList([]string{"Uno", "Dos", "Tres"}), encCps(sch))
			x.emit("wlent words=%s titles=%s L=4 sep=char:45 cap=%s tape=1.2.3.4 sfnone=reassigned", encList([]string{"uno", "dos", "tres"}), encList([]string{"Uno", "Dos", "Tres"}), encCps(sch))
		}
		x.budgetBoundaryOps()
		x.wlLengthBlock()
		// Entropy() on a source that fails at its first read: a panic, or the recipe's value — never another value
		for _, sp := range []string{"preset:d1", "preset:ds", "preset:sym", "recipe:2/4/0/0/_/-/_", "preset:none", "char:45"} {
			for _, L := range []int{1, 2, 5, 12} {
				x.emit("wlent words=%s titles=%s L=%d sep=%s cap=%s tape=_", encList([]string{"aa", "bb", "cc"}), encList([]string{"Aa", "Bb", "Cc"}), L, sp, encCps(schemes[x.g.intn(5)]))
			}
		}
		x.lookalikeBlock(false)
		// Entropy() of recipes Generate would refuse: the formula holds for every Length
		for _, L := range []int{0, -1, -7} {
			for _, sp := range []string{"char:45", "preset:d1", "preset:d2", "preset:sym", "preset:none", "custom:8:45,46", "const:46"} {
				for _, ws := range [][]string{{"uno", "dos", "tres"}, {"a", "b", "c", "d", "e", "f", "g"}, {"solo"}} {
					x.emit("wlent0 words=%s titles=%s L=%d sep=%s cap=%s", encList(ws), encList(wordTitles(ws)), L, sp, encCps([]string{"none", "first", "all"}[(L*L+len(ws))%3]))
				}
			}
		}
		x.titleOps(150)
		rep(500, func() { x.wlnewOp(8 * scale) })
		rep(500, func() { x.wlgenOp("wlent", "") })
	case "C09":
		// calls with another complete call made in the middle of them: the bytes a call was given are its own
		rep(30, func() { x.chargenOp(x.recipe(x.g.intn(4)), fmt.Sprintf(" reenter=%d", 1+x.g.intn(6))) })
		rep(30, func() { x.wlgenOp("wlgen", fmt.Sprintf(" reenter=%d", 1+x.g.intn(6))) })
		rep(40, x.faultOps)
		// a source that answers (0, nil) many times before it delivers: io.ReadFull keeps asking
		for _, z := range []int{1, 99, 100, 101, 150, 300} {
			plan := strings.Repeat("0:0,", z) + "4:0"
			x.emit("source n=10 plan=%s bytes=%s", plan, encHex([]byte{0, 0, 0, 7, 1, 2, 3, 4}))
			x.emit("source n=10 plan=2:0,%s bytes=%s", plan, encHex([]byte{0, 0, 0, 7, 1, 2, 3, 4}))
		}
		// every error kind once, at the first and at a later read
		for k := range errorKinds {
			x.emit("chargen r=4/0/0/0/97.98.99/-/_ T=3 fr=1:1 tape=_ resume=%d:1.2.0.1.2.0", k)
			x.emit("chargen r=4/0/0/0/97.98.99/-/_ T=3 fr=1:1 tape=1.2 resume=%d:1.2.0.1.2.0", k)
			x.emit("wlgen words=%s titles=%s L=3 sep=preset:d1 cap=%s tape=1.2.0 resume=%d:1.2.0.1.2.0", encList([]string{"uno", "dos", "tres"}), encList([]string{"Uno", "Dos", "Tres"}), encCps("none"), k)
		}
		rep(600, x.sourceOp)
	case "C10":
		x.longWordLists()
		x.bigListOps()
		x.titleOps(300)
		x.lookalikeBlock(false)
		x.builtinListOps()
		rep(1200, func() { x.wlnewOp(4) })
		rep(200, func() { x.wlgenOp("wlgen", "") })
		x.emit("wlnew words=@agilewords show=0 reps=1")
		x.emit("wlnew words=@agilesyllables show=0 reps=1")
	case "C11":
		rep(2500, x.mkidxOp)
		// generated passwords round-trip with their own entropy (checked by the harness on every
		// generation), zero-entropy recipes included
		rep(150, func() { x.chargenOp(x.recipe(x.g.intn(4)), "") })
		rep(150, func() { x.wlgenOp("wlgen", "") })
		x.emit("chargen r=3/0/0/0/233/-/_ tape=0.0.0.0.0.0")
		x.emit("chargen r=1/0/0/0/97/-/_ tape=0.0.0")
		x.emit("wlgen words=%s titles=%s L=3 sep=char:45 cap=%s tape=0.0.0.0.0.0", encList([]string{"solo"}), encList([]string{"Solo"}), encCps("none"))
		x.emit("wlgen words=%s titles=%s L=1 sep=preset:none cap=%s tape=0.0.0.0", encList([]string{"solo"}), encList([]string{"Solo"}), encCps("first"))
	case "C12":
		x.typeByteBlock()
		rep(3000, x.tokenizeOp)
		rep(800, x.explodeOp)
	case "C13":
		x.defaultBudgetOps()
		x.emptyWordBlock()
		x.metaCharBlock()
		x.thirteenSetsOps()
		x.soleWitnessOps()
		x.budgetBoundaryOps()
		rep(700, func() { x.chargenOp(x.recipe(x.g.intn(4)), "") })
		rep(500, func() { x.charinfoOp(x.recipe(x.g.intn(4))) })
		rep(300, func() { x.wlgenOp("wlgen", "") })
		rep(12, x.collisionPairOps)
		x.zeroToleranceBlock()
		x.emit("wlgen words=nil L=3 sep=char:_ cap=_ tape=1.2.3")
		x.emit("wlgen words=@zero L=3 sep=char:_ cap=_ tape=1.2.3")
		x.emit("wlgen words=@zero L=2 sep=preset:d1 cap=%s tape=1.2.3", encCps("random"))
		x.emit("chargen r=0/0/0/0/_/-/_ tape=1.2.3")
	case "C14":
		rep(20, func() { x.chargenOp(x.recipe(x.g.intn(4)), fmt.Sprintf(" reconf=%d", 1+x.g.intn(4))) })
		rep(20, func() { x.wlgenOp("wlgen", fmt.Sprintf(" reconf=%d", 1+x.g.intn(4))) })
		// the sequential behaviour of what the racer calls concurrently
		rep(200, func() { x.chargenOp(x.recipe(x.g.intn(4)), "") })
		rep(150, func() { x.charinfoOp(x.recipe(x.g.intn(4))) })
		rep(200, func() { x.wlgenOp("wlgen", "") })
		x.presetCells()
	case "C15":
		// forty calls nested in one another, all the same recipe on the same bytes
		for i := 0; i < 3; i++ {
			x.wlgenOp("wlgen", " reenter=2 depth=40")
			x.chargenOp(x.recipe(1), " reenter=1 depth=40")
		}
		// the program reassigns an exported preset variable; recipes that do not mention it are unaffected
		for _, sch := range []string{"none", "random"} {
			x.emit("wlent words=%s titles=%s L=4 sep=char:_ cap=%s tape=1.2.3.4 sfnone=reassigned", encList([]string{"uno", "dos", "tres"}), encList([]string{"Uno", "Dos", "Tres"}), encCps(sch))
			x.emit("wlgen words=%s titles=%s L=4 sep=char:_ cap=%s tape=1.2.3.4.5.6.7.8.9.10 sfnone=reassigned", encList([]string{"uno", "dos", "tres"}), encList([]string{"Uno", "Dos", "Tres"}), encCps(sch))
		}
		x.budgetBoundaryOps()
		x.reassignOps()
		rep(8, x.collisionPairOps)
		rep(6, x.sepHistoryOps)
		// calls with another complete call made in the middle of them
		rep(60, func() { x.chargenOp(x.recipe(x.g.intn(4)), fmt.Sprintf(" reenter=%d", 1+x.g.intn(6))) })
		rep(60, func() { x.wlgenOp("wlgen", fmt.Sprintf(" reenter=%d", 1+x.g.intn(6))) })
		rep(60, func() { x.historyOps(25) })
		rep(30, func() { x.chargenOp(x.recipe(x.g.intn(4)), fmt.Sprintf(" reconf=%d", 1+x.g.intn(4))) })
		rep(30, func() { x.wlgenOp("wlgen", fmt.Sprintf(" reconf=%d", 1+x.g.intn(4))) })
		if x.thorough() {
			x.slowSourceOps([]int{2500, 6000, 12000})
		} else {
			x.slowSourceOps([]int{2500})
		}
	case "C16":
		x.defaultBudgetOps()
		x.builtinListOps()
		x.reassignOps()
		// the bounded draw at the sizes of the preset alphabets (10, 7, 6, 16) and of the default
		// alphabet, on raw words at and around the rejection limit
		for _, n := range []uint32{10, 7, 6, 16, 61, 26, 52, 62} {
			lim := uint32((uint64(1) << 32) / uint64(n) * uint64(n)) // 0 for powers of two (wraps)
			for _, d := range []uint32{0, 1, 2} {
				x.emit("draw n=%d tape=%s", n, encWords([]uint32{lim - 1 + d, lim + d, 3, 2, 1}))
			}
			x.emit("draw n=%d tape=%s", n, encWords([]uint32{0xFFFFFFFF, 0xFFFFFFFF, 0xFFFFFFFE, 5, 1}))
		}
		// the presets on a source that answers in short reads
		for _, sp := range []string{"preset:d1", "preset:d2", "preset:sym", "preset:ds", "preset:dna1"} {
			t := make([]uint32, 24)
			for i := range t {
				t[i] = x.g.u32()
			}
			x.emit("wlgen words=%s titles=%s L=4 sep=%s cap=%s tape=%s chunk=%d", encList([]string{"uno", "dos", "tres"}), encList([]string{"Uno", "Dos", "Tres"}), sp, encCps("none"), encWords(t), x.g.next()%1000000)
		}
		for _, sp := range []string{"preset:d1", "preset:d2", "preset:dna2", "preset:sym", "preset:ds"} {
			t := make([]uint32, 24)
			for i := range t {
				t[i] = x.g.u32()
			}
			x.emit("wlgen words=%s titles=%s L=4 sep=%s cap=%s tape=%s reenter=%d", encList([]string{"uno", "dos", "tres"}), encList([]string{"Uno", "Dos", "Tres"}), sp, encCps("one"), encWords(t), 2+x.g.intn(5))
		}
		x.classRoleBlock()
		x.presetCells()
		x.emit("wlnew words=@agilewords show=0 reps=1")
		x.emit("wlnew words=@agilesyllables show=0 reps=1")
		for _, f := range []uint32{1, 2, 4, 8, 16, 0, 3, 15, 31} {
			x.emit("charinfo r=1/%d/0/0/_/-/_", f)
		}
		x.emit("charinfo r=7/15/0/16/_/-/_")
		x.namedFlagBlock()
		x.zeroToleranceBlock()
		// every preset on a source that fails at its own read: no value other than the documented
		// ones ever comes out — a failed read is a panic, not an empty separator
		for _, sp := range []string{"preset:d1", "preset:d2", "preset:dna1", "preset:dna2", "preset:sym", "preset:ds"} {
			for cut := 1; cut <= 3; cut++ {
				t := []uint32{0, 1, 0, 1, 0, 1}[:cut]
				x.emit("wlgen words=%s titles=%s L=3 sep=%s cap=%s tape=%s", encList([]string{"uno", "dos"}), encList([]string{"Uno", "Dos"}), sp, encCps("none"), encWords(t))
				x.emit("wlent words=%s titles=%s L=3 sep=%s cap=%s tape=_", encList([]string{"uno", "dos"}), encList([]string{"Uno", "Dos"}), sp, encCps("none"))
			}
		}
		for i := 0; i < 4; i++ {
			x.emit("newcr L=%d", 1+x.g.intn(40))
			x.emit("newwl L=%d", 1+x.g.intn(12))
		}
		rep(100, func() { x.wlgenOp("wlgen", "") })
		// ordinary use of the library in the same process (custom exclusions next to the Ambiguous
		// class, requirements, custom strings) …
		rep(150, func() {
			r := x.recipe(x.g.intn(4))
			if x.g.chance(50) {
				r.exclude |= 16
				if r.ec == "" {
					r.ec = x.poolString(4, false)
				}
			}
			if x.g.chance(50) {
				x.charinfoOp(r)
			} else {
				x.chargenOp(r, "")
			}
		})
		// … after which the built-ins must still be exactly as documented
		x.emit("newcr L=%d", 1+x.g.intn(40))
		x.emit("newwl L=%d", 1+x.g.intn(12))
		x.presetCells()
		for _, f := range []uint32{1, 2, 4, 8, 16, 0, 3, 15, 31} {
			x.emit("charinfo r=1/%d/0/0/_/-/_", f)
		}
		x.emit("charinfo r=7/15/0/16/_/-/_")
		x.emit("chargen r=20/15/0/16/_/-/_ tape=%s", encWords(x.tape(61, 20, 4)))
	case "C17":
		rep(250, x.cliOp)
		rep(120, x.cliFileTextOp)
		x.emit("cli argv=%s words=- titles=- filetext=%s", encList([]string{"words", "--file", "@FILE"}), encCps(" \n\t\u3000"))
		x.emit("cli argv=%s words=- titles=- filetext=_", encList([]string{"words", "--file", "@FILE", "--entropy"}))
		// every class word in every role, against exclusions that do and do not contain it
		for _, c := range []string{"uppercase", "lowercase", "digits", "symbols", "ambiguous"} {
			for _, role := range []string{"--require", "--allow", "--exclude"} {
				for _, other := range [][]string{nil, {"--exclude", "symbols"}, {"--exclude=" + c}, {"--allow=lowercase,digits"}} {
					if len(other) > 0 && strings.HasPrefix(other[0], role) {
						continue
					}
					args := append([]string{"characters", "--length", "8", role, c}, other...)
					x.emit("cli argv=%s", encList(append(args, "--entropy")))
					if x.g.chance(50) {
						args[2] = "3"
						x.emit("cli argv=%s", encList(args))
					}
				}
			}
		}
		// every capitalisation scheme and separator name over word files of every shape (all
		// capitalisable, mixed, none capitalisable, one word, a lower/Title pair, duplicates) and
		// the built-in lists, with and without --entropy
		files := [][]string{{"one", "two", "three"}, {"one", "two", "4"}, {"4", "5", "正確"}, {"solo"}, {"polish", "Polish", "amber"},
			{"dup", "dup", "other", "dup"}, {"Paris", "rome"},
			// capitalisable although the first character is not a lower-case letter; not capitalisable although it is
			{"'tis", "x-ray", "amber"}, {"X-ray", "amber"}, {"ßeta", "amber"}, {"4ever", "o'neil"}}
		for _, scheme := range []string{"none", "first", "all", "random", "one", "bogus"} {
			for fi, ws := range files {
				sepName := []string{"hyphen", "space", "comma", "period", "underscore", "digit", "none", "bogus"}[(fi+len(scheme))%8]
				for _, ent := range []bool{true, false} {
					args := []string{"words", "--file", "@FILE", "--size", fmt.Sprint(1 + (fi+len(scheme))%4), "--capitalize", scheme, "--separator", sepName}
					if ent {
						args = append(args, "--entropy")
					}
					x.emit("cli argv=%s words=%s titles=%s", encList(args), encList(ws), encList(wordTitles(ws)))
				}
			}
			for _, l := range []string{"words", "syllables"} {
				x.emit("cli argv=%s", encList([]string{"words", "--list", l, "--size", "3", "--capitalize", scheme, "--entropy"}))
			}
		}
		// word files with one very long word, at three positions, with and without --entropy
		for _, n := range []int{65535, 65536, 70000} {
			long := strings.Repeat("q", n)
			for pos := 0; pos < 3; pos++ {
				ws := []string{"alpha", "beta", "gamma", "delta"}
				ws = append(ws[:pos*2], append([]string{long}, ws[pos*2:]...)...)
				for _, extra := range [][]string{{"--entropy"}, {"--size=2", "--separator=space"}} {
					args := append([]string{"words", "--file", "@FILE"}, extra...)
					x.emit("cli argv=%s words=%s titles=%s", encList(args), encList(ws), encList(wordTitles(ws)))
				}
			}
		}
	case "C18":
		// a word (and a separator) too long for an index: nothing about it may be written anywhere
		{
			long := strings.Repeat("qzvkjunkline", 25)
			ws := []string{long, "short", long + "x"}
			for i := 0; i < 3; i++ {
				x.emit("wlgen words=%s titles=%s L=3 sep=char:45 cap=%s tape=%d.%d.%d.0.0.0", encList(ws), encList(wordTitles(ws)), encCps("first"), i, (i+1)%3, (i+2)%3)
			}
			x.emit("wlgen words=%s titles=%s L=3 sep=const:%s cap=%s tape=0.1.0.0.0", encList([]string{"a", "b"}), encList([]string{"A", "B"}), encCps(strings.Repeat("-=", 150)), encCps("none"))
		}
		rep(300, func() { x.chargenOp(x.recipe(x.g.intn(4)), "") })
		rep(200, func() { x.charinfoOp(x.recipe(x.g.intn(4))) })
		rep(300, func() { x.wlgenOp("wlgen", "") })
		rep(200, func() { x.wlnewOp(1) })
		rep(100, x.mkidxOp)
		rep(100, x.tokenizeOp)
	default:
		return nil
	}
	// results the caller keeps across garbage collections (the collections are forced, which also
	// empties every sync.Pool — hence at the end of the stream, after the history operations)
	switch prop {
	case "C15", "C05", "C03", "C02", "C04":
		for i := 0; i < 25; i++ {
			if prop == "C05" || prop == "C04" || (prop == "C15" && i%2 == 0) {
				x.wlgenOp("wlgen", " gc=1")
			} else {
				x.chargenOp(x.recipe(x.g.intn(4)), " gc=1")
			}
		}
	}
	// Replay the head of the stream at its end, in the same process: whatever the library has seen
	// in between, the same call must give the same answer (process-level caches, polluted shared
	// tables, once-flags show up here for every property).
	head := 80
	if len(x.out) < head {
		head = len(x.out)
	}
	for _, l := range x.out[:head] {
		if !strings.Contains(l, " obj=") && !strings.Contains(l, " wlobj=") && len(l) < 20000 {
			x.out = append(x.out, l)
		}
	}
	return x.out
}

func hashString(s string) uint64 {
	var h uint64 = 1469598103934665603
	for i := 0; i < len(s); i++ {
		h ^= uint64(s[i])
		h *= 1099511628211
	}
	return h
}

var _ = spg.MaxTrials
