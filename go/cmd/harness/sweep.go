package main

import (
	crand "crypto/rand"
	"encoding/json"
	"fmt"
	"os"
	"strconv"

	"go.1password.io/spg"
)

// sweep: run the real bounded draw on EVERY raw 32-bit word of one shard for one bound n and
// compare with the specification proved in Lean (SpgProofs/Properties/C01.lean, step_spec):
//   accepted  <=>  v < n*floor(2^32/n),   result = v % n.
// This is validation of the tie and the failing-input oracle of C01, not the proof.

type sweepReader struct {
	v     uint32
	calls int
}

func (r *sweepReader) Read(b []byte) (int, error) {
	r.calls++
	if r.calls == 1 {
		b[0], b[1], b[2], b[3] = byte(r.v>>24), byte(r.v>>16), byte(r.v>>8), byte(r.v)
	} else {
		b[0], b[1], b[2], b[3] = 0, 0, 0, 0 // raw word 0 is accepted for every bound
	}
	return 4, nil
}

type sweepResult struct {
	N            uint64            `json:"n"`
	Shard        int               `json:"shard"`
	Words        uint64            `json:"words"`
	Accepted     uint64            `json:"accepted"`
	SpecAccepted uint64            `json:"spec_accepted"`
	Mismatches   uint64            `json:"mismatches"`
	FirstMis     string            `json:"first_mismatch,omitempty"`
	RangeFail    string            `json:"range_fail,omitempty"`
	Panic        string            `json:"panic,omitempty"`
	Hist         []uint32          `json:"hist,omitempty"`    // n <= 65536
	Tracked      map[string]uint64 `json:"tracked,omitempty"` // preimage counts of requested residues
}

func sweep(args []string) {
	n64, _ := strconv.ParseUint(args[0], 10, 64)
	shard, _ := strconv.Atoi(args[1])
	nshards, _ := strconv.Atoi(args[2])
	n := uint32(n64)
	res := sweepResult{N: n64, Shard: shard}
	tracked := map[uint32]*uint64{}
	for _, a := range args[3:] {
		k, _ := strconv.ParseUint(a, 10, 64)
		tracked[uint32(k)] = new(uint64)
	}
	if n64 <= 65536 {
		res.Hist = make([]uint32, n64)
	}
	rd := &sweepReader{}
	crand.Reader = rd
	lo := uint64(shard) * (1 << 32) / uint64(nshards)
	hi := uint64(shard+1) * (1 << 32) / uint64(nshards)
	limit := uint64(n64) * ((1 << 32) / n64)
	func() {
		defer func() {
			if r := recover(); r != nil {
				res.Panic = fmt.Sprintf("v=%d: %v", rd.v, r)
			}
		}()
		for v := lo; v < hi; v++ {
			rd.v, rd.calls = uint32(v), 0
			k := spg.VerifRandomUint32n(n)
			acc := rd.calls == 1
			specAcc := v < limit
			if specAcc {
				res.SpecAccepted++
			}
			if acc {
				res.Accepted++
				if uint64(k) >= n64 && res.RangeFail == "" {
					res.RangeFail = fmt.Sprintf("v=%d returned %d >= n", v, k)
				}
				if res.Hist != nil && uint64(k) < n64 {
					res.Hist[k]++
				}
				if c, ok := tracked[k]; ok {
					*c++
				}
			}
			if acc != specAcc || (acc && uint64(k) != v%n64) {
				res.Mismatches++
				if res.FirstMis == "" {
					if acc {
						res.FirstMis = fmt.Sprintf("v=%d impl=%d spec_accept=%v spec=%d", v, k, specAcc, v%n64)
					} else {
						res.FirstMis = fmt.Sprintf("v=%d impl=rejected spec_accept=%v spec=%d", v, specAcc, v%n64)
					}
				}
			}
		}
	}()
	res.Words = hi - lo
	if len(tracked) > 0 {
		res.Tracked = map[string]uint64{}
		for k, c := range tracked {
			res.Tracked[strconv.FormatUint(uint64(k), 10)] = *c
		}
	}
	js, _ := json.Marshal(res)
	os.Stdout.Write(js)
	os.Stdout.Write([]byte("\n"))
}
