package main

import (
	"fmt"
	"math"
	"sort"
	"strings"

	"go.1password.io/spg"
)

// wlOracle: direct structural check of a wordlist password against its recipe (C05, C10),
// independent of the Lean model. kept = the list's words (read back through generation).
func wlOracle(p *spg.Password, kept []string, L int, sep, scheme string) string {
	if p == nil || L < 1 {
		return ""
	}
	for _, w := range kept {
		if w == "" {
			return "" // known finding D8: a list with the empty word
		}
	}
	lower := map[string]bool{}
	upper := map[string]bool{}
	for _, w := range kept {
		lower[w] = true
		upper[strings.Title(w)] = true
	}
	ts := p.Tokens()
	var atoms []string
	prevSep := true // a separator may not come first
	nsep := 0
	for i, t := range ts {
		switch t.Type() {
		case spg.AtomType:
			if !prevSep && nsep == 0 && i > 0 {
				// two atoms in a row are fine only when the separator is empty (checked below)
			}
			atoms = append(atoms, t.Value())
			prevSep = false
		case spg.SeparatorType:
			if prevSep {
				return " STRUCT-FAIL=leading-or-doubled-separator"
			}
			if t.Value() == "" {
				return " STRUCT-FAIL=empty-separator-token"
			}
			nsep++
			prevSep = true
		default:
			return " STRUCT-FAIL=token-type"
		}
	}
	if len(ts) > 0 && ts[len(ts)-1].Type() != spg.AtomType {
		return " STRUCT-FAIL=trailing-separator"
	}
	if len(atoms) != L {
		return fmt.Sprintf(" STRUCT-FAIL=atom-count(%d,want %d)", len(atoms), L)
	}
	if nsep != 0 && nsep != L-1 {
		// with a functional separator that can fail some gaps may legitimately be empty
		if !strings.HasPrefix(sep, "recipe:") && !strings.HasPrefix(sep, "custom:") {
			return " STRUCT-FAIL=separator-count"
		}
	}
	if strings.HasPrefix(sep, "char:") || strings.HasPrefix(sep, "const:") {
		c := decCps(sep[strings.IndexByte(sep, ':')+1:])
		want := L - 1
		if c == "" {
			want = 0
		}
		if nsep != want {
			return " STRUCT-FAIL=separator-count"
		}
		for _, t := range ts {
			if t.Type() == spg.SeparatorType && t.Value() != c {
				return " STRUCT-FAIL=separator-value"
			}
		}
	}
	ncapOnly := 0 // atoms that can only be explained as a capitalised word
	for i, a := range atoms {
		lo, up := lower[a], upper[a]
		if !lo && !up {
			return " STRUCT-FAIL=atom-not-a-list-word-or-its-title-form"
		}
		switch scheme {
		case "first":
			if i == 0 && !up || i > 0 && !lo {
				return " STRUCT-FAIL=capitalisation(first)"
			}
		case "all":
			if !up {
				return " STRUCT-FAIL=capitalisation(all)"
			}
		case "one", "random":
			if !lo {
				ncapOnly++
			}
		default:
			if !lo {
				return " STRUCT-FAIL=capitalisation(none)"
			}
		}
	}
	if scheme == "one" {
		if ncapOnly > 1 {
			return " STRUCT-FAIL=capitalisation(one:several)"
		}
		if ncapOnly == 0 {
			// the capitalised position must then be a word equal to its own title form
			okp := false
			for _, a := range atoms {
				if upper[a] {
					okp = true
				}
			}
			if !okp {
				return " STRUCT-FAIL=capitalisation(one:none)"
			}
		}
	}
	return ""
}

// wlCell: run the real generator on EVERY stream of a small recipe (capitalisation draws, then
// one word draw per position; constant separators only) and summarise the outcome histogram.
// Direct oracles: when the implementation itself reports every word capitalisable the outcomes
// must be equally likely (C04); in every case no outcome may be likelier than 2^-Entropy (C06).
func (e *executor) wlCell(a opArgs, lean string) string {
	wl, werr, _ := e.wordList(a)
	if werr != nil || wl == nil {
		return "err empty-list"
	}
	L := a.int("L")
	r := spg.NewWLRecipe(L, wl)
	applySep(r, a["sep"])
	scheme := decCps(a["cap"])
	r.Capitalize = spg.CapScheme(scheme)
	size := int(wl.Size())
	var bounds []int
	switch scheme {
	case "one":
		bounds = append(bounds, L)
	case "random":
		for i := 0; i < L; i++ {
			bounds = append(bounds, 2)
		}
	}
	for i := 0; i < L; i++ {
		bounds = append(bounds, size)
	}
	total := 1
	for _, b := range bounds {
		total *= b
		if total > 20000 {
			return "cell-too-large"
		}
	}
	counts := map[string]int{}
	var ent float32
	idx := make([]uint32, len(bounds))
	// the word pick on its own: Length 1, no capitalising scheme, a separator that is never used
	kept := readBack(wl)
	capt.take()
	keptOK := len(kept) == size
	capSeen := map[string]map[int]int{}
	pickOnly := L == 1 && len(bounds) == 1 && scheme != "first" && scheme != "all"
	for c := 0; c < total; c++ {
		v := c
		for i := len(bounds) - 1; i >= 0; i-- {
			idx[i] = uint32(v % bounds[i])
			v /= bounds[i]
		}
		s := &scripted{bytes: wordsToBytes(idx)}
		var p *spg.Password
		var err error
		ro := withReader(s, func() { p, err = r.Generate() })
		capt.take()
		if (ro.panicked || err != nil || p == nil) && pickOnly {
			// more draws than the one the pick needs: let it have them (every further raw word is 1),
			// the complete cell still has to select every kept word exactly once
			s2 := &scripted{bytes: wordsToBytes(append(append([]uint32{}, idx...), 1, 1, 1, 1, 1, 1, 1, 1))}
			ro = withReader(s2, func() { p, err = r.Generate() })
			capt.take()
		}
		if ro.panicked || err != nil || p == nil {
			// the code does not make exactly the draws of the specified choice structure on this
			// stream; what it does to the distribution is for the statistical check to say
			out := "cell-generation-failed"
			if wlPremise(wl) {
				out += statMarginal(r, readBack(wl), L, a["words"]+a["cap"]+a["sep"])
				out += statCaps(r, readBack(wl), L, scheme, a["words"]+a["cap"]+a["L"])
			}
			capt.take()
			return out
		}
		ent = p.Entropy
		counts[showTokens(p.Tokens())]++
		if scheme == "one" && keptOK {
			// which position shows a capital in this result, for this word tuple
			atoms := p.Tokens().Atoms()
			key := fmt.Sprint(idx[1:])
			k := 0
			for i := 0; i < L; i++ {
				w := kept[idx[1+i]]
				if w == "" {
					continue // the empty word leaves no atom
				}
				if k >= len(atoms) || (atoms[k] != w && atoms[k] != strings.Title(w)) {
					keptOK = false
					break
				}
				if atoms[k] != w {
					if capSeen[key] == nil {
						capSeen[key] = map[int]int{}
					}
					capSeen[key][i]++
				}
				k++
			}
		}
	}
	oneFail := ""
	if scheme == "one" && keptOK {
		for key, m := range capSeen {
			for pos, n := range m {
				if n > 1 && oneFail == "" {
					oneFail = fmt.Sprintf(" CELL-FAIL=one-position-not-uniform(word draws %s: position %d is capitalised by %d of the %d raw position words)", key, pos, n, L)
				}
			}
		}
	}
	maxm, minm := 0, total+1
	for _, n := range counts {
		if n > maxm {
			maxm = n
		}
		if n < minm {
			minm = n
		}
	}
	keys := make([]string, 0, len(counts))
	for k := range counts {
		keys = append(keys, k)
	}
	sort.Strings(keys)
	out := fmt.Sprintf("streams=%d distinct=%d maxmult=%d %s", total, len(counts), maxm, dField(lean, ent, 8))
	out += oneFail
	if pickOnly && (len(counts) != size || maxm != 1) {
		// `size` raw words, one per residue, and `size` distinct kept words (the empty word shows as a
		// password without atoms): each must come out exactly once
		out += fmt.Sprintf(" CELL-FAIL=word-pick-not-uniform(%d kept words, %d distinct results over the complete cell, one result %d times)", size, len(counts), maxm)
	}
	// all capitalisable according to the implementation itself?
	r1 := spg.NewWLRecipe(1, wl)
	r1.Capitalize = spg.CSRandom
	e1 := r1.Entropy()
	r1.Capitalize = spg.CSNone
	allcap := e1 > r1.Entropy()+0.5
	// the property's premise: no two kept words share a title-cased form (C04, C06)
	premise := wlPremise(wl)
	capt.take()
	if !premise {
		return out
	}
	out += statMarginal(r, readBack(wl), L, a["words"]+a["cap"]+a["sep"])
	out += statCaps(r, readBack(wl), L, scheme, a["words"]+a["cap"]+a["L"])
	capt.take()
	if allcap && maxm != minm {
		out += " CELL-FAIL=not-uniform-although-all-capitalisable"
	}
	if float64(maxm)/float64(total) > math.Pow(2, -float64(ent))*(1+1e-4) {
		out += fmt.Sprintf(" ENTROPY-OVERSTATED(p=%d/%d,entropy=%v)", maxm, total, ent)
	}
	return out
}

// statMarginal: a statistical check that does not depend on how many draws the implementation
// makes or in which order (so it stays meaningful when the complete-cell enumeration above no
// longer matches the code): over 12,000 pseudo-random streams the word at every position must be
// uniform over the kept list, whatever the capitalisation (C04: "each of the Length words is
// chosen uniformly … independently of every other choice"). The threshold is nine standard
// deviations (a false alarm has probability below 1e-15 per count); the streams are derived from
// the operation's own text, so a finding replays exactly.
func statMarginal(r *spg.WLRecipe, kept []string, L int, seedText string) string {
	size := len(kept)
	if size < 2 || size > 12 || L < 1 || L > 6 {
		return ""
	}
	idx := map[string]int{}
	for i, w := range kept {
		if w == "" {
			return ""
		}
		idx[w] = i
	}
	for i, w := range kept {
		if t := strings.Title(w); t != w {
			if _, ok := idx[t]; !ok {
				idx[t] = i
			}
		}
	}
	h := uint64(1469598103934665603)
	for i := 0; i < len(seedText); i++ {
		h = (h ^ uint64(seedText[i])) * 1099511628211
	}
	g := &rng{s: h}
	const N = 12000
	counts := make([][]int, L)
	for i := range counts {
		counts[i] = make([]int, size)
	}
	tape := make([]uint32, 8*L+32)
	for n := 0; n < N; n++ {
		for i := range tape {
			tape[i] = g.u32()
		}
		sc := &scripted{bytes: wordsToBytes(tape)}
		var p *spg.Password
		var err error
		ro := withReader(sc, func() { p, err = r.Generate() })
		if ro.panicked || err != nil || p == nil {
			return ""
		}
		atoms := p.Tokens().Atoms()
		if len(atoms) != L {
			return ""
		}
		for i, a := range atoms {
			k, ok := idx[a]
			if !ok {
				return ""
			}
			counts[i][k]++
		}
	}
	q := 1 / float64(size)
	exp := N * q
	sigma := math.Sqrt(N * q * (1 - q))
	for i := range counts {
		for k, c := range counts[i] {
			if math.Abs(float64(c)-exp) > 9*sigma {
				return fmt.Sprintf(" CELL-FAIL=word-marginal(position=%d,word=%s,count=%d,of=%d,expected=%.0f)", i, encCps(kept[k]), c, N, exp)
			}
		}
	}
	return ""
}

// wlPremise: the premise of C04/C06 — no two kept words share a title-cased form.
func wlPremise(wl *spg.WordList) bool {
	seen := map[string]string{}
	for _, w := range readBack(wl) {
		t := strings.Title(w)
		if o, ok := seen[t]; ok && o != w {
			return false
		}
		seen[t] = w
	}
	return true
}

// statCaps: over many pseudo-random streams, with every word capitalisable (so that every
// capitalisation decision is visible), position i is capitalised with probability 1/2 under
// `random` and 1/Length under `one` — for every position, also beyond 32 and 64. Nine standard
// deviations, streams derived from the operation's text.
func statCaps(r *spg.WLRecipe, kept []string, L int, scheme string, seedText string) string {
	if L < 1 || L > 200 || len(kept) == 0 || (scheme != "random" && scheme != "one") {
		return ""
	}
	lower := map[string]bool{}
	for _, w := range kept {
		if w == "" || strings.Title(w) == w {
			return ""
		}
		lower[w] = true
	}
	for _, w := range kept {
		if lower[strings.Title(w)] {
			return ""
		}
	}
	h := uint64(1469598103934665603)
	for i := 0; i < len(seedText); i++ {
		h = (h ^ uint64(seedText[i])) * 1099511628211
	}
	g := &rng{s: h}
	N := 4000
	q := 0.5
	if scheme == "one" {
		q = 1 / float64(L)
		if N < 400*L {
			N = 400 * L
		}
	}
	counts := make([]int, L)
	patterns := map[uint32]int{} // scheme random, up to 5 positions: every subset of positions
	tape := make([]uint32, 6*L+32)
	for n := 0; n < N; n++ {
		for i := range tape {
			tape[i] = g.u32()
		}
		sc := &scripted{bytes: wordsToBytes(tape)}
		var p *spg.Password
		var err error
		ro := withReader(sc, func() { p, err = r.Generate() })
		if ro.panicked || err != nil || p == nil {
			return ""
		}
		atoms := p.Tokens().Atoms()
		if len(atoms) != L {
			return ""
		}
		var pat uint32
		for i, a := range atoms {
			if !lower[a] {
				counts[i]++
				if i < 32 {
					pat |= 1 << uint(i)
				}
			}
		}
		patterns[pat]++
	}
	if scheme == "random" && L <= 5 {
		// "under 'random' every subset of positions is equally likely" — the empty one included
		pq := 1 / float64(uint(1)<<uint(L))
		pexp := float64(N) * pq
		psig := math.Sqrt(float64(N) * pq * (1 - pq))
		for pat := uint32(0); pat < 1<<uint(L); pat++ {
			if math.Abs(float64(patterns[pat])-pexp) > 9*psig {
				return fmt.Sprintf(" CELL-FAIL=capitalisation-pattern(subset=%b,count=%d,of=%d,expected=%.0f)", pat, patterns[pat], N, pexp)
			}
		}
	}
	exp := float64(N) * q
	sigma := math.Sqrt(float64(N) * q * (1 - q))
	if sigma == 0 {
		return ""
	}
	for i, c := range counts {
		if math.Abs(float64(c)-exp) > 9*sigma {
			return fmt.Sprintf(" CELL-FAIL=capitalisation-marginal(position=%d,capitalised=%d,of=%d,expected=%.0f)", i, c, N, exp)
		}
	}
	return ""
}

// statSeps: a caller-written separator function that draws one of k strings uniformly: the
// separator in every gap must have exactly that law ("each separator is a fresh independent draw
// from its separator function", C04), whatever was drawn in the gaps before. 12,000 streams from
// the operation's text, nine standard deviations.
func statSeps(r *spg.WLRecipe, L int, sepSpec string, seedText string) string {
	parts := strings.SplitN(sepSpec, ":", 3)
	if len(parts) != 3 || L < 2 || L > 8 {
		return ""
	}
	outs := decList(parts[2])
	if len(outs) == 0 {
		outs = []string{""}
	}
	mult := map[string]int{}
	for _, o := range outs {
		mult[o]++
	}
	h := uint64(1469598103934665603)
	for i := 0; i < len(seedText); i++ {
		h = (h ^ uint64(seedText[i])) * 1099511628211
	}
	g := &rng{s: h}
	const N = 12000
	counts := make([]map[string]int, L-1)
	for i := range counts {
		counts[i] = map[string]int{}
	}
	tape := make([]uint32, 8*L+32)
	for n := 0; n < N; n++ {
		for i := range tape {
			tape[i] = g.u32()
		}
		sc := &scripted{bytes: wordsToBytes(tape)}
		var p *spg.Password
		var err error
		ro := withReader(sc, func() { p, err = r.Generate() })
		if ro.panicked || err != nil || p == nil {
			return ""
		}
		toks := p.Tokens()
		gap := -1
		for i, t := range toks {
			if t.Type() == spg.AtomType {
				gap++
				if gap < L-1 {
					sep := ""
					if i+1 < len(toks) && toks[i+1].Type() == spg.SeparatorType {
						sep = toks[i+1].Value()
					}
					counts[gap][sep]++
				}
			}
		}
		if gap != L-1 {
			return "" // an empty word: the gaps cannot be told apart
		}
	}
	for gi, c := range counts {
		for sp, m := range mult {
			q := float64(m) / float64(len(outs))
			exp := N * q
			sigma := math.Sqrt(N * q * (1 - q))
			if sigma > 0 && math.Abs(float64(c[sp])-exp) > 9*sigma {
				return fmt.Sprintf(" CELL-FAIL=separator-marginal(gap=%d,separator=%s,count=%d,of=%d,expected=%.0f)", gi, encCps(sp), c[sp], N, exp)
			}
		}
	}
	return ""
}
