// Command harness generates operations from VERIF_SEED and executes them on the real package.
//
//	harness gen  <property> <tier> <seed>            -> operation lines on stdout
//	harness exec <ops file> <model results> <stats.json> [opgen binary]
//	                                                 -> one implementation result line per operation
package main

import (
	"bufio"
	"encoding/json"
	"fmt"
	"os"
	"strconv"
	"strings"
)

func main() {
	if len(os.Args) < 2 {
		fmt.Fprintln(os.Stderr, "usage: harness gen|exec …")
		os.Exit(3)
	}
	switch os.Args[1] {
	case "gen":
		if len(os.Args) != 5 {
			fmt.Fprintln(os.Stderr, "usage: harness gen <property> <tier> <seed>")
			os.Exit(3)
		}
		seed, _ := strconv.ParseUint(os.Args[4], 10, 64)
		startCapture()
		lines := generate(os.Args[2], os.Args[3], seed)
		w := bufio.NewWriterSize(resultOut, 1<<20)
		for _, l := range lines {
			w.WriteString(l)
			w.WriteByte('\n')
		}
		w.Flush()
	case "exec":
		if len(os.Args) < 5 {
			fmt.Fprintln(os.Stderr, "usage: harness exec <ops> <model results> <stats.json> [opgen]")
			os.Exit(3)
		}
		ops, err := os.Open(os.Args[2])
		if err != nil {
			fmt.Fprintln(os.Stderr, err)
			os.Exit(3)
		}
		lean, err := os.Open(os.Args[3])
		if err != nil {
			fmt.Fprintln(os.Stderr, err)
			os.Exit(3)
		}
		startCapture()
		e := newExecutor()
		if len(os.Args) > 5 {
			e.opgen = os.Args[5]
		}
		e.tmpdir, _ = os.MkdirTemp("", "spgharness")
		defer os.RemoveAll(e.tmpdir)
		so := bufio.NewScanner(ops)
		so.Buffer(make([]byte, 1<<20), 1<<28)
		sl := bufio.NewScanner(lean)
		sl.Buffer(make([]byte, 1<<20), 1<<28)
		w := bufio.NewWriterSize(resultOut, 1<<20)
		var titleWords []string
		for so.Scan() {
			if op, a := parseLine(so.Text()); op == "wlnew" || op == "wlgen" {
				if ws := a["words"]; len(ws) < 4096 && ws != "nil" && !strings.HasPrefix(ws, "@") {
					titleWords = append(titleWords, decList(ws)...)
				}
			}
			leanLine := ""
			if sl.Scan() {
				leanLine = sl.Text()
			}
			w.WriteString(e.exec(so.Text(), leanLine))
			w.WriteByte('\n')
		}
		w.Flush()
		if len(titleWords) > 200 {
			checkTitleIdempotent(titleWords)
		}
		js, _ := json.Marshal(st)
		os.WriteFile(os.Args[4], js, 0o644)
	case "sweep":
		// harness sweep <n> <shard> <nshards> [tracked residues…]
		if len(os.Args) < 5 {
			fmt.Fprintln(os.Stderr, "usage: harness sweep <n> <shard> <nshards> [residue…]")
			os.Exit(3)
		}
		sweep(os.Args[2:])
	default:
		fmt.Fprintln(os.Stderr, "unknown mode", os.Args[1])
		os.Exit(3)
	}
}
