package main

import (
	"encoding/hex"
	"fmt"
	"io"
	"math"
	"math/big"
	"os"
	"strconv"
	"strings"
	"syscall"
	"time"
	"unicode/utf8"
)

// ---------- one PRNG for every random choice (splitmix64), seeded from VERIF_SEED

type rng struct{ s uint64 }

func (r *rng) next() uint64 {
	r.s += 0x9e3779b97f4a7c15
	z := r.s
	z = (z ^ (z >> 30)) * 0xbf58476d1ce4e5b9
	z = (z ^ (z >> 27)) * 0x94d049bb133111eb
	return z ^ (z >> 31)
}
func (r *rng) intn(n int) int {
	if n <= 0 {
		return 0
	}
	return int(r.next() % uint64(n))
}
func (r *rng) u32() uint32      { return uint32(r.next() >> 32) }
func (r *rng) chance(p int) bool { return r.intn(100) < p }
func (r *rng) pick(l []string) string {
	return l[r.intn(len(l))]
}

// ---------- encodings shared with the Lean driver

func encCps(s string) string {
	if s == "" {
		return "_"
	}
	var p []string
	for _, c := range s {
		p = append(p, strconv.Itoa(int(c)))
	}
	return strings.Join(p, ".")
}

func decCps(s string) string {
	if s == "_" || s == "" {
		return ""
	}
	var b strings.Builder
	for _, f := range strings.Split(s, ".") {
		n, err := strconv.Atoi(f)
		if err == nil {
			b.WriteRune(rune(n))
		}
	}
	return b.String()
}

func encList(l []string) string {
	if len(l) == 0 {
		return "-"
	}
	var p []string
	for _, s := range l {
		p = append(p, encCps(s))
	}
	return strings.Join(p, ",")
}

func decList(s string) []string {
	if s == "-" || s == "" {
		return nil
	}
	var out []string
	for _, f := range strings.Split(s, ",") {
		out = append(out, decCps(f))
	}
	return out
}

func encHex(b []byte) string {
	if len(b) == 0 {
		return "_"
	}
	return hex.EncodeToString(b)
}

func decHex(s string) []byte {
	if s == "_" || s == "" {
		return nil
	}
	b, _ := hex.DecodeString(s)
	return b
}

func encWords(t []uint32) string {
	if len(t) == 0 {
		return "_"
	}
	var b strings.Builder
	for i, w := range t {
		if i > 0 {
			b.WriteByte('.')
		}
		b.WriteString(strconv.FormatUint(uint64(w), 10))
	}
	return b.String()
}

func decWords(s string) []uint32 {
	if s == "_" || s == "" {
		return nil
	}
	var out []uint32
	for _, f := range strings.Split(s, ".") {
		n, _ := strconv.ParseUint(f, 10, 64)
		out = append(out, uint32(n))
	}
	return out
}

// args of an op line
type opArgs map[string]string

func parseLine(line string) (string, opArgs) {
	f := strings.Fields(line)
	if len(f) == 0 {
		return "", nil
	}
	a := opArgs{}
	for _, kv := range f[1:] {
		if i := strings.IndexByte(kv, '='); i > 0 {
			a[kv[:i]] = kv[i+1:]
		}
	}
	return f[0], a
}

func (a opArgs) int(k string) int {
	n, _ := strconv.Atoi(a[k])
	return n
}

// field of a "k=v k=v" result line
func field(line, k string) (string, bool) {
	for _, f := range strings.Fields(line) {
		if strings.HasPrefix(f, k+"=") {
			return f[len(k)+1:], true
		}
	}
	return "", false
}

// ---------- scripted crypto/rand.Reader (the model's `Source`)

type resp struct {
	give int
	err  bool
}

type scripted struct {
	plan      []resp
	bytes     []byte
	pos       int
	reads     int
	chunkSeed *rng // when set, unplanned reads are split into random short reads without error
	// reenter, when set, is called once, inside the reenterAt-th Read, after the bytes of that
	// read have been delivered: another complete library call made while this one is in progress
	reenter   func()
	reenterAt int
	failed    bool // an error or EOF has been reported to the caller
	// pauseAt, when positive: sleep `pause` before answering the pauseAt-th Read (a slow source)
	pauseAt int
	pause   time.Duration
	// resumeErr, when set: the first time the bytes run dry the reader reports this error instead of
	// io.EOF and, from the next Read on, delivers resumeBytes (a transient failure)
	resumeErr   error
	resumeBytes []byte
}

type timeoutErr struct{}

func (timeoutErr) Error() string   { return "i/o timeout (injected)" }
func (timeoutErr) Timeout() bool   { return true }
func (timeoutErr) Temporary() bool { return true }

// errorKinds: what a failing random source may report. None of them makes the failure less of one.
var errorKinds = []error{errInjected, syscall.EINTR, syscall.EAGAIN, fmt.Errorf("read /dev/urandom: %w", syscall.EINTR), timeoutErr{},
	io.ErrUnexpectedEOF, io.ErrNoProgress, os.ErrDeadlineExceeded, &os.PathError{Op: "read", Path: "/dev/urandom", Err: syscall.EAGAIN},
	// what a sandbox, a container or an old kernel answers: none of them is a licence to look elsewhere
	syscall.ENOSYS, syscall.EPERM, &os.SyscallError{Syscall: "getrandom", Err: syscall.ENOSYS}, fmt.Errorf("getrandom: %w", syscall.EPERM),
	syscall.EACCES, syscall.EIO, syscall.EBADF, syscall.EINVAL, syscall.ENOENT, syscall.EFAULT, os.ErrPermission, os.ErrNotExist, os.ErrClosed, io.ErrClosedPipe}


var errInjected = fmt.Errorf("injected read failure")

// set when a nested library call made from inside Read did not return within three seconds
var reentryBlocked bool

func (s *scripted) Read(buf []byte) (int, error) {
	s.reads++
	if s.pauseAt > 0 && s.reads == s.pauseAt {
		time.Sleep(s.pause)
	}
	r := resp{give: len(buf)}
	if len(s.plan) > 0 {
		r = s.plan[0]
		s.plan = s.plan[1:]
	} else if s.chunkSeed != nil && len(buf) > 1 {
		r.give = 1 + s.chunkSeed.intn(len(buf))
	}
	k := r.give
	if k > len(buf) {
		k = len(buf)
	}
	d := k
	if rem := len(s.bytes) - s.pos; d > rem {
		d = rem
	}
	copy(buf, s.bytes[s.pos:s.pos+d])
	s.pos += d
	if s.reenter != nil && s.reads == s.reenterAt {
		f := s.reenter
		s.reenter = nil
		// in a goroutine of its own, so that a library that blocks on re-entry (a lock held across
		// the read) is reported instead of hanging the harness
		done := make(chan struct{})
		go func() { defer close(done); f() }()
		select {
		case <-done:
		case <-time.After(3 * time.Second):
			reentryBlocked = true
		}
	}
	if r.err {
		s.failed = true
		return d, errInjected
	}
	if d < k {
		s.failed = true
		if s.resumeErr != nil {
			err := s.resumeErr
			s.resumeErr = nil
			s.bytes = append(s.bytes[:s.pos], s.resumeBytes...)
			return d, err
		}
		return d, io.EOF
	}
	return d, nil
}

func wordsToBytes(t []uint32) []byte {
	b := make([]byte, 4*len(t))
	for i, w := range t {
		b[4*i] = byte(w >> 24)
		b[4*i+1] = byte(w >> 16)
		b[4*i+2] = byte(w >> 8)
		b[4*i+3] = byte(w)
	}
	return b
}

// ---------- capture of everything written to fd 1 and fd 2

type capture struct {
	f   *os.File
	off int64
}

var capt *capture
var resultOut *os.File // where the harness itself writes (the original stdout)

func startCapture() {
	// keep the real stdout for our own results
	fd, err := syscall.Dup(1)
	if err != nil {
		panic(err)
	}
	resultOut = os.NewFile(uintptr(fd), "results")
	f, err := os.CreateTemp("", "spgcap")
	if err != nil {
		panic(err)
	}
	os.Remove(f.Name())
	if err := syscall.Dup2(int(f.Fd()), 1); err != nil {
		panic(err)
	}
	if err := syscall.Dup2(int(f.Fd()), 2); err != nil {
		panic(err)
	}
	capt = &capture{f: f}
}

// take returns what was written to fd 1/2 since the last call.
func (c *capture) take() string {
	if c == nil {
		return ""
	}
	st, err := c.f.Stat()
	if err != nil || st.Size() <= c.off {
		return ""
	}
	buf := make([]byte, st.Size()-c.off)
	n, _ := c.f.ReadAt(buf, c.off)
	c.off += int64(n)
	if c.off > 1<<26 { // keep the file small
		c.f.Truncate(0)
		c.f.Seek(0, 0)
		c.off = 0
	}
	return string(buf[:n])
}

// ---------- exact log2 of big integers and float comparison

// log2Big returns log2(d) for d > 0 as a float64 (error below 1e-12 relative).
func log2Big(d *big.Int) float64 {
	if d.Sign() <= 0 {
		return math.Inf(-1)
	}
	f := new(big.Float).SetPrec(128).SetInt(d)
	mant := new(big.Float)
	exp := f.MantExp(mant)
	m, _ := mant.Float64()
	return math.Log2(m) + float64(exp)
}

// floatMatches: is the implementation's float32 `got` an acceptable rendering of `want`
// (a float64 computed exactly)? Relative tolerance `ulps` float32 ulps of max(|want|,1).
func floatMatches(got float32, want float64, ulps float64) bool {
	g := float64(got)
	if math.IsNaN(g) {
		return false
	}
	if math.IsInf(want, 0) {
		return math.IsInf(g, 0) && (g < 0) == (want < 0)
	}
	if math.IsInf(g, 0) {
		return false
	}
	scale := math.Max(math.Abs(want), 1.0)
	return math.Abs(g-want) <= ulps*scale*math.Pow(2, -23)
}

func runeList(s string) []string {
	var out []string
	for len(s) > 0 {
		_, w := utf8.DecodeRuneInString(s)
		out = append(out, s[:w])
		s = s[w:]
	}
	return out
}
