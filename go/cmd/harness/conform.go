package main

import (
	"fmt"
	"sort"
	"strings"

	"go.1password.io/spg"
)

// An independent reading of what a character recipe allows, used as the direct oracle for
// C02/C03 (it shares no code with the library's buildCharacterList or with the Lean model).

type recipeSets struct {
	alphabet []rune            // sorted, no repeats
	required []map[rune]bool   // declared required sets minus excluded (possibly empty)
	excluded map[rune]bool
}

func setsOf(r recipeSpec) recipeSets {
	tbl := spg.VerifClassTable()
	class := func(flags uint32) map[rune]bool {
		m := map[rune]bool{}
		for f, s := range tbl {
			if flags&uint32(f) != 0 {
				for _, c := range s {
					m[c] = true
				}
			}
		}
		return m
	}
	ex := class(r.exclude)
	for _, c := range r.ec {
		ex[c] = true
	}
	var req []map[rune]bool
	for _, s := range r.rs {
		if s == "" {
			continue
		}
		m := map[rune]bool{}
		for _, c := range s {
			if !ex[c] {
				m[c] = true
			}
		}
		req = append(req, m)
	}
	var flags []int
	for f := range tbl {
		flags = append(flags, int(f))
	}
	sort.Ints(flags)
	for _, f := range flags {
		if r.require&uint32(f) != 0 {
			m := map[rune]bool{}
			for _, c := range tbl[spg.CTFlag(f)] {
				if !ex[c] {
					m[c] = true
				}
			}
			req = append(req, m)
		}
	}
	al := class(r.allow)
	for _, c := range r.ac {
		al[c] = true
	}
	all := map[rune]bool{}
	for c := range al {
		if !ex[c] {
			all[c] = true
		}
	}
	for _, m := range req {
		for c := range m {
			all[c] = true
		}
	}
	var alpha []rune
	for c := range all {
		alpha = append(alpha, c)
	}
	sort.Slice(alpha, func(i, j int) bool { return alpha[i] < alpha[j] })
	return recipeSets{alphabet: alpha, required: req, excluded: ex}
}

// meets: does the string hit every non-empty required set?
func (rs recipeSets) meets(s []rune) bool {
	for _, m := range rs.required {
		if len(m) == 0 {
			continue
		}
		hit := false
		for _, c := range s {
			if m[c] {
				hit = true
				break
			}
		}
		if !hit {
			return false
		}
	}
	return true
}

// conform: why a returned password violates its recipe ("" if it does not)
func (rs recipeSets) conform(r recipeSpec, pw string) string {
	s := []rune(pw)
	if len(s) != r.L {
		return "length"
	}
	in := map[rune]bool{}
	for _, c := range rs.alphabet {
		in[c] = true
	}
	for _, c := range s {
		if rs.excluded[c] {
			return "excluded-character"
		}
		if !in[c] {
			return "character-not-allowed"
		}
	}
	if !rs.meets(s) {
		return "required-set-missed"
	}
	return ""
}

// drawSpec: the specification of one bounded draw (C01 step_spec), for replaying a tape.
func drawSpec(n uint64, tape []uint32, pos int) (k int, next int, ok bool) {
	limit := n * ((1 << 32) / n)
	for pos < len(tape) {
		v := uint64(tape[pos])
		pos++
		if v < limit {
			return int(v % n), pos, true
		}
	}
	return 0, pos, false
}

// replayCandidates: the candidates a generation consumed from the tape, in order, given the
// (sorted) alphabet; stops when the tape is exhausted.
func replayCandidates(alpha []rune, L int, tape []uint32, max int) (cands [][]rune, ends []int) {
	pos := 0
	for len(cands) < max {
		c := make([]rune, 0, L)
		for i := 0; i < L; i++ {
			k, np, ok := drawSpec(uint64(len(alpha)), tape, pos)
			if !ok {
				return
			}
			pos = np
			c = append(c, alpha[k])
		}
		cands = append(cands, c)
		ends = append(ends, pos)
	}
	return
}

// charOracle: direct checks of one Generate outcome against the recipe and the tape.
func charOracle(spec recipeSpec, tape []uint32, p *spg.Password, used int, maxTrials int) string {
	rs := setsOf(spec)
	out := ""
	if p != nil {
		if why := rs.conform(spec, p.String()); why != "" {
			out += " CONFORM-FAIL=" + why
		}
		for _, t := range p.Tokens() {
			if t.Type() != spg.AtomType || len([]rune(t.Value())) != 1 {
				out += " CONFORM-FAIL=token-shape"
				break
			}
		}
	}
	if spec.L < 1 || len(rs.alphabet) == 0 || spec.L > 4096 {
		return out
	}
	cands, ends := replayCandidates(rs.alphabet, spec.L, tape, maxTrials)
	for i, c := range cands {
		if ends[i] > used {
			break
		}
		last := ends[i] == used
		if p != nil && last {
			if string(c) != p.String() {
				out += " NOT-THE-DRAWN-CANDIDATE"
			}
			break
		}
		// this candidate was consumed and not returned: it must really miss a requirement
		if rs.meets(c) {
			out += " VALID-REJECTED=" + encCps(string(c))
			break
		}
	}
	return strings.TrimRight(out, " ")
}

// attemptsOracle (C13): the retry budget, read off the tape. The implementation may consume at
// most MaxTrials complete candidates — reading past the end of the MaxTrials-th means it went on
// drawing after its budget — and it may report "couldn't generate … after N attempts" only when
// it really consumed MaxTrials candidates.
func attemptsOracle(spec recipeSpec, tape []uint32, err error, used int, maxTrials int) string {
	rs := setsOf(spec)
	if spec.L < 1 || len(rs.alphabet) == 0 || spec.L > 4096 || maxTrials < 1 || maxTrials > 50000000 {
		return ""
	}
	_, ends := replayCandidates(rs.alphabet, spec.L, tape, maxTrials)
	if len(ends) == maxTrials && used > ends[maxTrials-1] {
		return fmt.Sprintf(" ATTEMPTS-EXCEEDED(budget=%d,words-of-budget=%d,words-consumed=%d)", maxTrials, ends[maxTrials-1], used)
	}
	if err != nil && errKind(err) == "exhausted" {
		done := 0
		for _, e := range ends {
			if e <= used {
				done++
			}
		}
		if done < maxTrials && len(ends) > done {
			return fmt.Sprintf(" GAVE-UP-EARLY(attempts=%d,budget=%d)", done, maxTrials)
		}
	}
	return ""
}
