// Command plainprobe runs order-independent checks against the package built WITHOUT the
// `verif` tag — the code users run. The differential harness needs the tag (its hooks give the
// word list and the alphabet a deterministic order, so that a draw can be predicted), and a
// hook, however careful, changes something: one that sorts in place keeps a list aliased to the
// caller's slice but tidies that slice up again; one that sorts a copy breaks the aliasing. The
// properties below do not depend on the order, so they are checked here on the untagged build,
// from the same operation stream:
//
//	wlnew / wlgen / wlcell   the kept set of NewWordList as a SET (C10), Size(), no duplicates;
//	                         the caller's slice unchanged by construction (C15/C10); the list
//	                         unaffected by the caller overwriting its slice afterwards (C04/C15);
//	                         the exported shipped lists unchanged (C16); a second construction
//	                         from the same words gives the same set (C08/C10)
//
// Usage: plainprobe <ops-file>   — prints one line per probed operation that fails, the
// operation's line number first ("PROBE <line> PLAIN: …"), and a last line "PROBE probed <n>".
package main

import (
	"bufio"
	"fmt"
	"os"
	"sort"
	"strconv"
	"strings"

	crand "crypto/rand"

	"go.1password.io/spg"
)

func decCps(s string) string {
	if s == "_" || s == "" {
		return ""
	}
	var b strings.Builder
	for _, f := range strings.Split(s, ".") {
		if n, err := strconv.Atoi(f); err == nil {
			b.WriteRune(rune(n))
		}
	}
	return b.String()
}

func decList(s string) []string {
	if s == "-" || s == "" {
		return nil
	}
	var out []string
	for _, f := range strings.Split(s, ",") {
		out = append(out, decCps(f))
	}
	return out
}

func encCps(s string) string {
	if s == "" {
		return "_"
	}
	var p []string
	for _, c := range s {
		p = append(p, strconv.Itoa(int(c)))
	}
	return strings.Join(p, ".")
}

// fixed is a reader that delivers the same 32-bit word for ever.
type fixed uint32

func (f fixed) Read(b []byte) (int, error) {
	for i := range b {
		b[i] = byte(uint32(f) >> (8 * uint(3-i%4)))
	}
	return len(b), nil
}

// contents reads the words of a list through generation: index i for every i below Size().
func contents(wl *spg.WordList) (words []string, ok bool) {
	n := int(wl.Size())
	r := spg.NewWLRecipe(1, wl)
	old := crand.Reader
	defer func() {
		crand.Reader = old
		if recover() != nil {
			ok = false
		}
	}()
	for i := 0; i < n; i++ {
		crand.Reader = fixed(uint32(i)) // i < n is accepted whatever n is (n <= 2^31 here)
		p, err := r.Generate()
		if err != nil || p == nil {
			return nil, false
		}
		words = append(words, p.String())
	}
	sort.Strings(words)
	return words, true
}

func same(a, b []string) bool {
	if len(a) != len(b) {
		return false
	}
	for i := range a {
		if a[i] != b[i] {
			return false
		}
	}
	return true
}

// wantKept: the specification of the kept set, computed directly.
func wantKept(input []string) []string {
	in := map[string]bool{}
	for _, w := range input {
		in[w] = true
	}
	titled := map[string]bool{}
	for u := range in {
		if t := strings.Title(u); t != u {
			titled[t] = true
		}
	}
	var want []string
	for w := range in {
		if !titled[w] {
			want = append(want, w)
		}
	}
	sort.Strings(want)
	return want
}

var buffers = map[int][]string{}

func probe(wordsArg string) string {
	var words []string
	exported := false
	switch wordsArg {
	case "@agilewords":
		words, exported = spg.AgileWords, true
	case "@agilesyllables":
		words, exported = spg.AgileSyllables, true
	case "nil", "":
		return ""
	default:
		words = decList(wordsArg)
	}
	for _, w := range words {
		if w == "" {
			return "" // known finding D8: a list containing "" is outside these checks
		}
	}
	snapshot := append([]string(nil), words...)
	src := words
	if !exported {
		// one caller buffer per length, refilled in place
		b, ok := buffers[len(words)]
		if !ok {
			b = make([]string, len(words))
			buffers[len(words)] = b
		}
		copy(b, words)
		src = b
	}
	wl, err := spg.NewWordList(src)
	if err != nil || wl == nil {
		if len(words) == 0 {
			return ""
		}
		return "PLAIN: NewWordList refused a non-empty list"
	}
	if !same(src, snapshot) {
		if exported {
			return "PLAIN: BUILTIN-CHANGED (the exported list was modified by NewWordList)"
		}
		return "PLAIN: MUTATED=caller-slice (NewWordList modified its argument)"
	}
	got, ok := contents(wl)
	if !ok {
		return "PLAIN: the list cannot be read back"
	}
	want := wantKept(snapshot)
	if !same(got, want) {
		return fmt.Sprintf("PLAIN: KEPT-FAIL (kept %d words, specification %d)", len(got), len(want))
	}
	if int(wl.Size()) != len(want) {
		return "PLAIN: KEPT-FAIL=size"
	}
	if len(snapshot) != len(want) {
		// something was dropped, so the duplicate-words notice is written: whether standard error can
		// take it is no business of the list being built
		f, ferr := os.CreateTemp("", "closedstderr")
		if ferr == nil {
			name := f.Name()
			f.Close()
			os.Remove(name)
			saved := os.Stderr
			os.Stderr = f // a closed file: every write to it fails
			copy(src, snapshot)
			wl3, err3 := spg.NewWordList(src)
			os.Stderr = saved
			if err3 != nil || wl3 == nil {
				return "PLAIN: NewWordList refused a non-empty list (when standard error cannot be written to)"
			}
			if got3, ok := contents(wl3); !ok || !same(got3, want) {
				return "PLAIN: KEPT-FAIL (with standard error unwritable)"
			}
		}
	}
	if !exported {
		// the caller goes on using its slice
		for i := range src {
			src[i] = "CALLER-REUSED-SLICE"
		}
		again, ok := contents(wl)
		if !ok || !same(again, want) {
			return "PLAIN: MUTATED=caller-wordlist (the list changed when the caller overwrote the slice it had passed)"
		}
		// a second construction from the same words, through the same buffer
		copy(src, snapshot)
		wl2, err2 := spg.NewWordList(src)
		if err2 != nil || wl2 == nil {
			return "PLAIN: UNSTABLE (second construction refused)"
		}
		got2, ok := contents(wl2)
		if !ok || !same(got2, want) {
			return "PLAIN: UNSTABLE (a second construction from the same words keeps a different set)"
		}
	}
	return ""
}

func main() {
	if len(os.Args) != 2 {
		fmt.Fprintln(os.Stderr, "usage: plainprobe <ops-file>")
		os.Exit(3)
	}
	f, err := os.Open(os.Args[1])
	if err != nil {
		fmt.Fprintln(os.Stderr, err)
		os.Exit(3)
	}
	defer f.Close()
	agileW := append([]string(nil), spg.AgileWords...)
	agileS := append([]string(nil), spg.AgileSyllables...)
	// the library's own notices go to fd 1/2 as well: our lines start with "PROBE "
	out := bufio.NewWriter(os.Stdout)
	defer out.Flush()
	sc := bufio.NewScanner(f)
	sc.Buffer(make([]byte, 1<<20), 1<<28)
	line := 0
	probed := 0
	for sc.Scan() {
		line++
		fs := strings.Fields(sc.Text())
		if len(fs) == 0 || (fs[0] != "wlnew" && fs[0] != "wlgen" && fs[0] != "wlcell" && fs[0] != "wlent") {
			continue
		}
		words := ""
		for _, kv := range fs[1:] {
			if strings.HasPrefix(kv, "words=") {
				words = kv[6:]
			}
		}
		probed++
		msg := probe(words)
		if msg == "" && (!same(spg.AgileWords, agileW) || !same(spg.AgileSyllables, agileS)) {
			msg = "PLAIN: BUILTIN-CHANGED (an exported list no longer holds what it held at start)"
		}
		if msg != "" {
			fmt.Fprintf(out, "PROBE %d %s words=%s\n", line, msg, words)
		}
	}
	fmt.Fprintf(out, "PROBE probed %d\n", probed)
}
