// Command facts extracts static facts about /repo's library and CLI sources with go/ast and
// go/types and writes them as Lean data modules (DESIGN.md §5.1). Run with cwd = the repository.
// Usage: facts <outdir> <repodir>
package main

import (
	"fmt"
	"go/ast"
	"go/constant"
	"go/importer"
	"go/parser"
	"go/printer"
	"go/token"
	"go/types"
	"os"
	"path/filepath"
	"sort"
	"strconv"
	"strings"
)

var fset = token.NewFileSet()

func fatal(a ...interface{}) {
	fmt.Fprintln(os.Stderr, append([]interface{}{"facts:"}, a...)...)
	os.Exit(3)
}

func exprText(e ast.Expr) string {
	var b strings.Builder
	printer.Fprint(&b, fset, e)
	return strings.Join(strings.Fields(b.String()), " ")
}

func q(s string) string { return strconv.Quote(s) }

func qlist(l []string) string {
	var p []string
	for _, s := range l {
		p = append(p, q(s))
	}
	return "[" + strings.Join(p, ", ") + "]"
}

func cps(s string) string {
	var p []string
	for _, r := range s {
		p = append(p, strconv.Itoa(int(r)))
	}
	return "[" + strings.Join(p, ", ") + "]"
}

// hasVerifTag reports whether the file is only built with the verif tag.
func hasVerifTag(f *ast.File) bool {
	for _, cg := range f.Comments {
		if cg.Pos() > f.Package {
			break
		}
		for _, c := range cg.List {
			t := strings.TrimSpace(c.Text)
			if t == "//go:build verif" {
				return true
			}
		}
	}
	return false
}

type pkgInfo struct {
	files map[string]*ast.File // base name -> file
	names []string
	info  *types.Info
	pkg   *types.Package
}

func load(dir string) *pkgInfo {
	pkgs, err := parser.ParseDir(fset, dir, func(fi os.FileInfo) bool {
		return !strings.HasSuffix(fi.Name(), "_test.go")
	}, parser.ParseComments)
	if err != nil {
		fatal(err)
	}
	if len(pkgs) != 1 {
		fatal("expected one package in", dir, "found", len(pkgs))
	}
	pi := &pkgInfo{files: map[string]*ast.File{}}
	for name, p := range pkgs {
		var files []*ast.File
		var fnames []string
		for fn := range p.Files {
			fnames = append(fnames, fn)
		}
		sort.Strings(fnames)
		for _, fn := range fnames {
			f := p.Files[fn]
			if hasVerifTag(f) {
				continue
			}
			files = append(files, f)
			pi.files[filepath.Base(fn)] = f
			pi.names = append(pi.names, filepath.Base(fn))
		}
		conf := types.Config{Importer: importer.ForCompiler(fset, "source", nil)}
		pi.info = &types.Info{
			Types:      map[ast.Expr]types.TypeAndValue{},
			Uses:       map[*ast.Ident]types.Object{},
			Defs:       map[*ast.Ident]types.Object{},
			Selections: map[*ast.SelectorExpr]*types.Selection{},
		}
		pkg, err := conf.Check(name, fset, files, pi.info)
		if err != nil {
			fatal("type check:", err)
		}
		pi.pkg = pkg
	}
	return pi
}

// calleeName returns "pkg.Func" for a package-qualified call, "recv.Method" text otherwise.
func (pi *pkgInfo) calleeName(call *ast.CallExpr) string {
	switch f := call.Fun.(type) {
	case *ast.SelectorExpr:
		if id, ok := f.X.(*ast.Ident); ok {
			if pn, ok := pi.info.Uses[id].(*types.PkgName); ok {
				return pn.Imported().Path() + "." + f.Sel.Name
			}
		}
		return exprText(f)
	case *ast.Ident:
		if _, ok := pi.info.Uses[f].(*types.Builtin); ok {
			return "builtin." + f.Name
		}
		return f.Name
	}
	return exprText(call.Fun)
}

// qualifiedCallee: like calleeName, but a method call is named by the method's receiver type
// rather than by the variable it is called on.
func (pi *pkgInfo) qualifiedCallee(call *ast.CallExpr) string {
	if f, ok := call.Fun.(*ast.SelectorExpr); ok {
		if sel, ok := pi.info.Selections[f]; ok && sel.Kind() == types.MethodVal {
			if fn, ok := sel.Obj().(*types.Func); ok {
				if sig, ok := fn.Type().(*types.Signature); ok && sig.Recv() != nil {
					return "(" + types.TypeString(sig.Recv().Type(), func(p *types.Package) string { return p.Path() }) + ")." + fn.Name()
				}
			}
		}
	}
	if f, ok := call.Fun.(*ast.SelectorExpr); ok {
		if id, ok := f.X.(*ast.Ident); ok {
			if _, ok := pi.info.Uses[id].(*types.PkgName); ok {
				return pi.calleeName(call) // a function of another package
			}
		}
		return "" // a function value held in a field or variable of the program itself
	}
	return pi.calleeName(call)
}

func isNumeric(t types.Type) bool {
	b, ok := t.Underlying().(*types.Basic)
	if !ok {
		return false
	}
	return b.Info()&(types.IsInteger|types.IsFloat|types.IsUnsigned) != 0
}

// argClass classifies one argument of an output-like call: "const" for a compile-time constant,
// "numeric:<type>" for numeric types, "errtext" for err.Error() on an error value,
// "stream:<expr>" for os.Stdout / os.Stderr, otherwise "other:<type>".
func (pi *pkgInfo) argClass(e ast.Expr) []string {
	tv := pi.info.Types[e]
	if tv.Value != nil {
		return []string{"const"}
	}
	if be, ok := e.(*ast.BinaryExpr); ok && be.Op == token.ADD {
		if b, ok := tv.Type.Underlying().(*types.Basic); ok && b.Info()&types.IsString != 0 {
			return append(pi.argClass(be.X), pi.argClass(be.Y)...)
		}
	}
	if call, ok := e.(*ast.CallExpr); ok {
		if sel, ok := call.Fun.(*ast.SelectorExpr); ok && sel.Sel.Name == "Error" && len(call.Args) == 0 {
			if t := pi.info.Types[sel.X].Type; t != nil && t.String() == "error" {
				return []string{"errtext"}
			}
		}
	}
	if sel, ok := e.(*ast.SelectorExpr); ok {
		if id, ok := sel.X.(*ast.Ident); ok {
			if pn, ok := pi.info.Uses[id].(*types.PkgName); ok && pn.Imported().Path() == "os" &&
				(sel.Sel.Name == "Stdout" || sel.Sel.Name == "Stderr") {
				return []string{"stream:os." + sel.Sel.Name}
			}
		}
	}
	if tv.Type == nil {
		return []string{"other:?"}
	}
	if isNumeric(tv.Type) {
		return []string{"numeric:" + tv.Type.String()}
	}
	return []string{"other:" + tv.Type.String()}
}

type site struct {
	file, fn, callee string
	args             []string
}

func (s site) lean() string {
	return fmt.Sprintf("(%s, %s, %s, %s)", q(s.file), q(s.fn), q(s.callee), qlist(s.args))
}

func funcName(fd *ast.FuncDecl) string {
	if fd.Recv != nil && len(fd.Recv.List) == 1 {
		t := fd.Recv.List[0].Type
		if st, ok := t.(*ast.StarExpr); ok {
			return "(*" + exprText(st.X) + ")." + fd.Name.Name
		}
		return exprText(t) + "." + fd.Name.Name
	}
	return fd.Name.Name
}

var randomnessPkgs = map[string]bool{
	"crypto/rand": true, "math/rand": true, "math/rand/v2": true, "time": true, "unsafe": true,
	"runtime": true, "os": true, "syscall": true, "hash/maphash": true, "os/user": true,
	"net": true, "crypto/md5": true, "crypto/sha1": true, "crypto/sha256": true, "reflect": true,
}

func main() {
	if len(os.Args) != 3 {
		fatal("usage: facts <outdir> <repodir>")
	}
	out, repo := os.Args[1], os.Args[2]
	if err := os.Chdir(repo); err != nil {
		fatal(err)
	}
	lib := load(repo)

	var b strings.Builder
	b.WriteString("/- GENERATED by /verif/go/cmd/facts from /repo/*.go (non-test, ordinary build). Do not edit. -/\n")
	b.WriteString("namespace Spg.Generated.Facts\n\n")

	// imports
	b.WriteString("/-- Import paths of every non-test file of the library. -/\n")
	b.WriteString("def imports : List (String × List String) := [")
	for i, fn := range lib.names {
		var imps []string
		for _, im := range lib.files[fn].Imports {
			p, _ := strconv.Unquote(im.Path.Value)
			imps = append(imps, p)
		}
		sort.Strings(imps)
		if i > 0 {
			b.WriteString(",")
		}
		fmt.Fprintf(&b, "\n  (%s, %s)", q(fn), qlist(imps))
	}
	b.WriteString("]\n\n")

	var outputs, panics, errorfs, sensitive []site
	var floatCompares [][2]string
	type recv struct{ typ, method, kind string }
	var recvs []recv
	type write struct{ fn, lhs, cat string }
	var writes []write
	type pcall struct{ caller, callerRecv, method, on string }
	var ptrCalls []pcall
	// functions that assign through a pointer / slice / map parameter: function object -> parameter indices
	paramWriters := map[types.Object]map[int]bool{}
	funcLocals := map[*ast.FuncDecl]map[types.Object]string{}
	var funcDecls []*ast.FuncDecl

	// package-level variables that are sliced, address-taken, or (being slices, maps or pointers)
	// handed to a function: the callee, or whoever keeps the slice, can change them without any
	// assignment that names them
	aliased := map[string]bool{}
	// package-level variables
	pkgVars := map[types.Object]bool{}
	for _, name := range lib.pkg.Scope().Names() {
		if v, ok := lib.pkg.Scope().Lookup(name).(*types.Var); ok {
			pkgVars[v] = true
		}
	}

	for _, fn := range lib.names {
		f := lib.files[fn]
		for _, d := range f.Decls {
			fd, ok := d.(*ast.FuncDecl)
			if !ok {
				// package-level var initialisers may contain calls too (the separator presets)
				ast.Inspect(d, func(n ast.Node) bool {
					if call, ok := n.(*ast.CallExpr); ok {
						lib.classifyCall(fn, "<package var>", call, &outputs, &panics, &errorfs, &sensitive)
					}
					return true
				})
				continue
			}
			name := funcName(fd)
			// receivers
			var recvObj types.Object
			recvIsPtr := false
			if fd.Recv != nil && len(fd.Recv.List) == 1 {
				t := fd.Recv.List[0].Type
				kind := "value"
				tn := exprText(t)
				if st, ok := t.(*ast.StarExpr); ok {
					kind = "pointer"
					tn = exprText(st.X)
					recvIsPtr = true
				}
				recvs = append(recvs, recv{tn, fd.Name.Name, kind})
				if len(fd.Recv.List[0].Names) == 1 {
					recvObj = lib.info.Defs[fd.Recv.List[0].Names[0]]
				}
			}
			// pointer parameters
			ptrParams := map[types.Object]bool{}
			if fd.Type.Params != nil {
				for _, p := range fd.Type.Params.List {
					for _, n := range p.Names {
						o := lib.info.Defs[n]
						if o == nil {
							continue
						}
						switch o.Type().Underlying().(type) {
						case *types.Pointer, *types.Slice, *types.Map:
							ptrParams[o] = true
						}
					}
				}
			}
			if fd.Body == nil {
				continue
			}
			// locals that alias a slice parameter (or slice receiver): defined or assigned as the parameter
			// itself or a reslice of it
			paramAlias := map[types.Object]bool{}
			ast.Inspect(fd.Body, func(n ast.Node) bool {
				as, ok := n.(*ast.AssignStmt)
				if !ok || len(as.Lhs) != len(as.Rhs) {
					return true
				}
				for i, l := range as.Lhs {
					id, ok := l.(*ast.Ident)
					if !ok {
						continue
					}
					rhs := as.Rhs[i]
					for {
						if se, ok := rhs.(*ast.SliceExpr); ok {
							rhs = se.X
						} else if pe, ok := rhs.(*ast.ParenExpr); ok {
							rhs = pe.X
						} else {
							break
						}
					}
					if rid, ok := rhs.(*ast.Ident); ok {
						ro := lib.info.Uses[rid]
						lo := lib.info.Defs[id]
						if lo == nil {
							lo = lib.info.Uses[id]
						}
						if ro != nil && lo != nil && lo != ro && (ptrParams[ro] || (recvObj != nil && ro == recvObj) || paramAlias[ro]) {
							if _, isSlice := lo.Type().Underlying().(*types.Slice); isSlice {
								paramAlias[lo] = true
							}
						}
					}
				}
				return true
			})
			locals := lib.localPointers(fd.Body, recvObj, recvIsPtr)
			funcLocals[fd] = locals
			funcDecls = append(funcDecls, fd)
			paramIndex := map[types.Object]int{}
			if fd.Type.Params != nil {
				k := 0
				for _, p := range fd.Type.Params.List {
					for _, n := range p.Names {
						if o := lib.info.Defs[n]; o != nil {
							paramIndex[o] = k
						}
						k++
					}
				}
			}
			noteParamWrite := func(lhs ast.Expr) {
				if id, through := rootIdent(lhs); id != nil && through {
					if o := lib.info.Uses[id]; o != nil && ptrParams[o] {
						fo := lib.info.Defs[fd.Name]
						if paramWriters[fo] == nil {
							paramWriters[fo] = map[int]bool{}
						}
						paramWriters[fo][paramIndex[o]] = true
					}
				}
			}
			// walk with closure depth tracking
			var walk func(n ast.Node, closure *ast.FuncLit)
			walk = func(n ast.Node, closure *ast.FuncLit) {
				ast.Inspect(n, func(m ast.Node) bool {
					switch x := m.(type) {
					case *ast.FuncLit:
						if x != n {
							walk(x.Body, x)
							return false
						}
					case *ast.BinaryExpr:
						switch x.Op {
						case token.LSS, token.LEQ, token.GTR, token.GEQ, token.EQL, token.NEQ:
							if t := lib.info.Types[x.X].Type; t != nil {
								if bt, ok := t.Underlying().(*types.Basic); ok && bt.Info()&types.IsFloat != 0 {
									floatCompares = append(floatCompares, [2]string{fn, name})
								}
							}
						}
					case *ast.UnaryExpr:
						if x.Op == token.AND {
							if id, _ := rootIdent(x.X); id != nil && pkgVars[lib.info.Uses[id]] {
								aliased[id.Name] = true
							}
						}
					case *ast.SliceExpr:
						if id, _ := rootIdent(x.X); id != nil && pkgVars[lib.info.Uses[id]] {
							aliased[id.Name] = true
						}
					case *ast.CallExpr:
						for _, arg := range x.Args {
							if id, ok := arg.(*ast.Ident); ok && pkgVars[lib.info.Uses[id]] {
								switch lib.info.Uses[id].Type().Underlying().(type) {
								case *types.Slice, *types.Map, *types.Pointer:
									if f, ok := x.Fun.(*ast.Ident); !ok || (f.Name != "len" && f.Name != "cap") {
										aliased[id.Name] = true
									}
								}
							}
						}
						lib.classifyCall(fn, name, x, &outputs, &panics, &errorfs, &sensitive)
						// calls of pointer-receiver methods
						if sel, ok := x.Fun.(*ast.SelectorExpr); ok {
							if s, ok := lib.info.Uses[sel.Sel].(*types.Func); ok {
								if sig, ok := s.Type().(*types.Signature); ok && sig.Recv() != nil {
									if _, isPtr := sig.Recv().Type().(*types.Pointer); isPtr && s.Pkg() == lib.pkg {
										cr := "none"
										if fd.Recv != nil {
											cr = "value"
											if recvIsPtr {
												cr = "pointer"
											}
										}
										on := exprText(sel.X)
										if id, ok := sel.X.(*ast.Ident); ok {
											obj := lib.info.Uses[id]
											switch {
											case recvObj != nil && obj == recvObj:
												on = "self"
											case obj != nil && !pkgVars[obj] && !ptrParams[obj] && obj.Parent() != lib.pkg.Scope():
												// a variable of this function: a value (its address is taken for the
												// call — private to the call) or a pointer that only ever holds objects
												// created here
												if _, isPtr := obj.Type().Underlying().(*types.Pointer); !isPtr {
													if !isParam(fd, lib.info, obj) {
														on = "local"
													}
												} else if locals[obj] == "fresh" {
													on = "local"
												}
											}
										}
										callee := s.Name()
										if pt, ok := sig.Recv().Type().(*types.Pointer); ok {
											if nt, ok := pt.Elem().(*types.Named); ok {
												callee = "(*" + nt.Obj().Name() + ")." + s.Name()
											}
										}
										ptrCalls = append(ptrCalls, pcall{name, cr, callee, on})
									}
								}
							}
						}
					case *ast.AssignStmt:
						// append onto memory the caller owns: the first argument is a slice parameter (or a
						// slice-typed receiver), a reslice of one, or a local that was defined as one. With spare
						// capacity — a prefix of a longer buffer — the append writes behind the caller's slice.
						for _, rhs := range x.Rhs {
							if call, ok := rhs.(*ast.CallExpr); ok {
								if f, ok := call.Fun.(*ast.Ident); ok && f.Name == "append" && len(call.Args) > 0 {
									if _, isB := lib.info.Uses[f].(*types.Builtin); isB {
										a0 := call.Args[0]
										for {
											if se, ok := a0.(*ast.SliceExpr); ok {
												a0 = se.X
											} else if pe, ok := a0.(*ast.ParenExpr); ok {
												a0 = pe.X
											} else {
												break
											}
										}
										if id, ok := a0.(*ast.Ident); ok {
											o := lib.info.Uses[id]
											_, isSlice := lib.info.Types[call.Args[0]].Type.Underlying().(*types.Slice)
											if o != nil && isSlice && (ptrParams[o] || (recvObj != nil && o == recvObj) || paramAlias[o]) {
												writes = append(writes, write{name, "append(" + id.Name + "…)", "paramappend"})
											}
										}
									}
								}
							}
						}
						for _, lhs := range x.Lhs {
							noteParamWrite(lhs)
							lib.classifyWrite(name, lhs, x.Tok, recvObj, recvIsPtr, ptrParams, pkgVars, closure, fd, locals, func(f, l, c string) {
								writes = append(writes, write{f, l, c})
							})
						}
					case *ast.IncDecStmt:
						noteParamWrite(x.X)
						lib.classifyWrite(name, x.X, token.ASSIGN, recvObj, recvIsPtr, ptrParams, pkgVars, closure, fd, locals, func(f, l, c string) {
							writes = append(writes, write{f, l, c})
						})
					}
					return true
				})
			}
			walk(fd.Body, nil)
		}
	}

	// A function that assigns through a parameter is harmless when it is unexported and every call
	// of it passes, for that parameter, a variable of the caller that only ever holds objects the
	// caller created itself (make, a literal, new, &T{…}).
	escaping := map[string]bool{} // by function name as used in `writes`
	for fo, idxs := range paramWriters {
		name := fo.Name()
		var decl *ast.FuncDecl
		for _, fd := range funcDecls {
			if lib.info.Defs[fd.Name] == fo {
				decl = fd
			}
		}
		if decl != nil {
			name = funcName(decl)
		}
		if ast.IsExported(fo.Name()) {
			escaping[name] = true
			continue
		}
		called := false
		for _, fd := range funcDecls {
			ast.Inspect(fd.Body, func(n ast.Node) bool {
				call, ok := n.(*ast.CallExpr)
				if !ok {
					return true
				}
				var callee types.Object
				switch f := call.Fun.(type) {
				case *ast.Ident:
					callee = lib.info.Uses[f]
				case *ast.SelectorExpr:
					callee = lib.info.Uses[f.Sel]
				}
				if callee != fo {
					return true
				}
				called = true
				for i := range idxs {
					if i >= len(call.Args) {
						escaping[name] = true
						continue
					}
					id, ok := call.Args[i].(*ast.Ident)
					if !ok || funcLocals[fd][lib.info.Uses[id]] != "fresh" {
						escaping[name] = true
					}
				}
				return true
			})
		}
		if !called {
			escaping[name] = true // a function value taken somewhere, or dead code: not shown to be local
		}
	}
	for i := range writes {
		if strings.HasPrefix(writes[i].cat, "paramelem") && !escaping[writes[i].fn] {
			writes[i].cat = "freshparam"
		}
	}

	emitSites := func(name, doc string, l []site) {
		fmt.Fprintf(&b, "/-- %s -/\n", doc)
		fmt.Fprintf(&b, "def %s : List (String × String × String × List String) := [", name)
		for i, s := range l {
			if i > 0 {
				b.WriteString(",")
			}
			b.WriteString("\n  " + s.lean())
		}
		b.WriteString("]\n\n")
	}
	emitSites("outputSites", "Calls that write to stdout, stderr or the log: file, function, callee, argument classes.", outputs)
	emitSites("panicSites", "Explicit panics: the argument's leaves (string concatenation flattened).", panics)
	emitSites("errorfSites", "fmt.Errorf / errors.New calls: argument classes.", errorfs)
	emitSites("sensitiveCalls", "Calls into packages that could supply non-OS-CSPRNG variability (time, math/rand, os, runtime, …) or into crypto/rand.", sensitive)

	b.WriteString("/-- Comparisons between floating-point operands: file, function. A yes/no decision about a list or a\nrecipe that goes through a float is exact only up to the float's precision. -/\n")
	b.WriteString("def floatCompares : List (String × String) := [")
	for i, fc := range floatCompares {
		if i > 0 {
			b.WriteString(",")
		}
		fmt.Fprintf(&b, "\n  (%s, %s)", q(fc[0]), q(fc[1]))
	}
	b.WriteString("]\n\n")
	b.WriteString("/-- Receiver kind of every method: type, method, value|pointer. -/\n")
	b.WriteString("def receivers : List (String × String × String) := [")
	for i, r := range recvs {
		if i > 0 {
			b.WriteString(",")
		}
		fmt.Fprintf(&b, "\n  (%s, %s, %s)", q(r.typ), q(r.method), q(r.kind))
	}
	b.WriteString("]\n\n")

	b.WriteString("/-- Exported methods with a pointer receiver (callers may share the pointee between goroutines and calls). -/\n")
	b.WriteString("def exportedPointerMethods : List (String × String) := [")
	firstE := true
	for _, r := range recvs {
		if r.kind == "pointer" && ast.IsExported(r.method) {
			if !firstE {
				b.WriteString(", ")
			}
			firstE = false
			fmt.Fprintf(&b, "(%s, %s)", q(r.typ), q(r.method))
		}
	}
	b.WriteString("]\n\n")
	b.WriteString("/-- Assignments that may reach memory outliving the call: function, left-hand side, category\n")
	b.WriteString("(pkgvar: a package-level variable; recvfield: a field of the pointer receiver itself; recvdeep: something reached\n")
	b.WriteString("through a field of the pointer receiver; paramelem: through a pointer/slice/map parameter; captured: a variable\n")
	b.WriteString("captured by a function literal; freshfield: through a local pointer that only ever holds objects created in the\n")
	b.WriteString("same call; freshparam: through a parameter of an unexported function every call of which passes an object its caller has\n")
	b.WriteString("just created; ptrfield: through any other local pointer). recvdeep / paramelem / ptrfield carry the struct type of this\n")
	b.WriteString("package whose field is assigned, when there is one: \"recvdeep:reqSet\". Paths are normalised: the root is recv / param / new, every\n")
	b.WriteString("index is []. -/\n")
	b.WriteString("def sharedWrites : List (String × String × String) := [")
	for i, w := range writes {
		if i > 0 {
			b.WriteString(",")
		}
		fmt.Fprintf(&b, "\n  (%s, %s, %s)", q(w.fn), q(w.lhs), q(w.cat))
	}
	b.WriteString("]\n\n")

	b.WriteString("/-- Methods that assign to, or through, their receiver (pointer receivers; value receivers of slice or map type). -/\n")
	{
		seen := map[string]bool{}
		var names []string
		for _, w := range writes {
			if (strings.HasPrefix(w.cat, "recvfield") || strings.HasPrefix(w.cat, "recvdeep")) && !seen[w.fn] {
				seen[w.fn] = true
				names = append(names, w.fn)
			}
		}
		sort.Strings(names)
		fmt.Fprintf(&b, "def receiverWriters : List String := %s\n\n", qlist(names))
	}
	b.WriteString("/-- Call sites of pointer-receiver methods of the package: caller, caller's receiver kind, callee, receiver expression\n(`self` = the caller's own receiver). -/\n")
	b.WriteString("def pointerMethodCalls : List (String × String × String × String) := [")
	for i, c := range ptrCalls {
		if i > 0 {
			b.WriteString(",")
		}
		fmt.Fprintf(&b, "\n  (%s, %s, %s, %s)", q(c.caller), q(c.callerRecv), q(c.method), q(c.on))
	}
	b.WriteString("]\n\n")
	// package-level variables: every one is state that outlives a call
	b.WriteString("/-- Every package-level variable of the library (name, type): the only places where state could\n")
	b.WriteString("outlive a call or be shared between goroutines without passing through an argument. -/\n")
	b.WriteString("def packageVars : List (String × String) := [")
	first := true
	var kinds []string
	for _, name := range lib.pkg.Scope().Names() {
		if v, ok := lib.pkg.Scope().Lookup(name).(*types.Var); ok {
			if !first {
				b.WriteString(",")
			}
			first = false
			fmt.Fprintf(&b, "\n  (%s, %s)", q(name), q(types.TypeString(v.Type(), func(p *types.Package) string { return p.Name() })))
			k := "opaque"
			if plainType(v.Type(), lib.pkg, 0) {
				k = "plain"
				if aliased[name] {
					k = "plain-aliased"
				}
			}
			kinds = append(kinds, fmt.Sprintf("(%s, %s)", q(name), q(k)))
		}
	}
	b.WriteString("]\n\n")
	b.WriteString("/-- Kind of every package-level variable: `plain` = numbers, strings, booleans, errors and arrays / slices / maps /\n")
	b.WriteString("structs of the package built from those (data: it can only change through an assignment, and those are listed in\n")
	b.WriteString("`sharedWrites`); `plain-aliased` = plain data that the library slices, takes the address of, or hands to a\n")
	b.WriteString("function as a slice / map / pointer (so it can change without an assignment naming it: a shared scratch buffer);\n")
	b.WriteString("`opaque` = anything that can hold hidden state (pointers, functions, channels, interfaces, types\n")
	b.WriteString("of other packages such as sync.Map, sync.Once, big.Float). -/\n")
	fmt.Fprintf(&b, "def packageVarKinds : List (String × String) := [%s]\n\n", strings.Join(kinds, ", "))
	b.WriteString("end Spg.Generated.Facts\n")
	writeFile(out, "Facts.lean", b.String())

	// ---------------- opgen
	cli := load(filepath.Join(repo, "cmd", "opgen"))
	b.Reset()
	b.WriteString("/- GENERATED by /verif/go/cmd/facts from /repo/cmd/opgen/*.go. Do not edit. -/\n")
	b.WriteString("import Spg.Model.Cli\n")
	b.WriteString("namespace Spg.Generated\nopen Spg.Cli\n\n")

	// package-level var composite literals
	varLits := map[string]ast.Expr{}
	var flagDefs = map[string][]string{} // flagset var name -> lean triples
	var cliOutputs []site
	cliCalls := map[string]bool{} // package-qualified callees per function
	for _, fn := range cli.names {
		for _, d := range cli.files[fn].Decls {
			if gd, ok := d.(*ast.GenDecl); ok && gd.Tok == token.VAR {
				for _, sp := range gd.Specs {
					vs := sp.(*ast.ValueSpec)
					for i, n := range vs.Names {
						if i < len(vs.Values) {
							varLits[n.Name] = vs.Values[i]
						}
					}
				}
			}
			if fd, ok := d.(*ast.FuncDecl); ok && fd.Body != nil {
				ast.Inspect(fd.Body, func(n ast.Node) bool {
					if call, ok := n.(*ast.CallExpr); ok {
						var p, e, s []site
						cli.classifyCall(fn, funcName(fd), call, &cliOutputs, &p, &e, &s)
						if c := cli.qualifiedCallee(call); strings.Contains(c, "/") || (strings.Contains(c, ".") && !strings.Contains(c, " ") && !strings.HasPrefix(c, "builtin.")) {
							cliCalls[c] = true
						}
					}
					return true
				})
			}
		}
	}
	structField := func(lit ast.Expr, field string) ast.Expr {
		cl, ok := lit.(*ast.CompositeLit)
		if !ok {
			return nil
		}
		for _, el := range cl.Elts {
			if kv, ok := el.(*ast.KeyValueExpr); ok {
				if id, ok := kv.Key.(*ast.Ident); ok && id.Name == field {
					return kv.Value
				}
			}
		}
		return nil
	}
	constText := func(e ast.Expr) (string, bool) {
		if e == nil {
			return "", false
		}
		tv := cli.info.Types[e]
		if tv.Value != nil {
			switch tv.Value.Kind() {
			case constant.String:
				return constant.StringVal(tv.Value), true
			case constant.Bool:
				return fmt.Sprint(constant.BoolVal(tv.Value)), true
			default:
				return tv.Value.ExactString(), true
			}
		}
		// defaultCharRecipe.length and the like
		if sel, ok := e.(*ast.SelectorExpr); ok {
			if id, ok := sel.X.(*ast.Ident); ok {
				if lit, ok := varLits[id.Name]; ok {
					if v := structField(lit, sel.Sel.Name); v != nil {
						if tv := cli.info.Types[v]; tv.Value != nil {
							return tv.Value.ExactString(), true
						}
					}
					return "0", true // zero value of an omitted field
				}
			}
		}
		return exprText(e), false
	}
	mapEntries := func(name string, val func(ast.Expr) string) string {
		lit, ok := varLits[name].(*ast.CompositeLit)
		if !ok {
			return "[]"
		}
		var parts []string
		for _, el := range lit.Elts {
			kv := el.(*ast.KeyValueExpr)
			k, _ := constText(kv.Key)
			parts = append(parts, fmt.Sprintf("(%s, %s)", q(k), val(kv.Value)))
		}
		return "[" + strings.Join(parts, ", ") + "]"
	}
	stringList := func(e ast.Expr) string {
		cl, ok := e.(*ast.CompositeLit)
		if !ok {
			return "[]"
		}
		var parts []string
		for _, el := range cl.Elts {
			s, _ := constText(el)
			parts = append(parts, s)
		}
		return qlist(parts)
	}
	// flag definitions
	for name, e := range varLits {
		call, ok := e.(*ast.CallExpr)
		if !ok {
			continue
		}
		sel, ok := call.Fun.(*ast.SelectorExpr)
		if !ok {
			continue
		}
		set, ok := sel.X.(*ast.Ident)
		if !ok || len(call.Args) != 3 {
			continue
		}
		kind := map[string]string{"Int": ".int", "String": ".str", "Bool": ".bool"}[sel.Sel.Name]
		if kind == "" {
			continue
		}
		fname, _ := constText(call.Args[0])
		dflt, _ := constText(call.Args[1])
		flagDefs[set.Name] = append(flagDefs[set.Name], fmt.Sprintf("(%s, %s, %s) /- %s -/", q(fname), kind, q(dflt), name))
	}
	for _, v := range flagDefs {
		sort.Strings(v)
	}
	// which flag set serves which subcommand: NewFlagSet("words", …)
	setOf := map[string]string{}
	for name, e := range varLits {
		if call, ok := e.(*ast.CallExpr); ok {
			if cli.calleeName(call) == "flag.NewFlagSet" && len(call.Args) == 2 {
				s, _ := constText(call.Args[0])
				setOf[s] = name
			}
		}
	}
	exitVal := func(n string) string {
		if o := cli.pkg.Scope().Lookup(n); o != nil {
			if c, ok := o.(*types.Const); ok {
				return c.Val().ExactString()
			}
		}
		return "999"
	}
	dcr := varLits["defaultCharRecipe"]
	b.WriteString("/-- The tables, flag definitions and defaults of opgen as found in the source. -/\n")
	b.WriteString("def cliTables : Tables where\n")
	fmt.Fprintf(&b, "  ccMap := %s\n", mapEntries("ccMap", func(e ast.Expr) string {
		s, ok := constText(e)
		if !ok {
			return "4294967296"
		}
		return s
	}))
	fmt.Fprintf(&b, "  sepMap := %s\n", mapEntries("separatorMap", func(e ast.Expr) string {
		if call, ok := e.(*ast.CallExpr); ok && len(call.Args) == 1 {
			if id, ok := call.Fun.(*ast.Ident); ok && id.Name == "createSeparatorFunc" {
				if s, ok := constText(call.Args[0]); ok {
					return q("const:" + s)
				}
			}
		}
		if sel, ok := e.(*ast.SelectorExpr); ok {
			return q("preset:" + sel.Sel.Name)
		}
		return q("unknown:" + exprText(e))
	}))
	fmt.Fprintf(&b, "  capMap := %s\n", mapEntries("capitalizeMap", func(e ast.Expr) string {
		s, _ := constText(e)
		return q(s)
	}))
	fmt.Fprintf(&b, "  charFlags := [%s]\n", strings.Join(flagDefs[setOf["characters"]], ",\n    "))
	fmt.Fprintf(&b, "  wordFlags := [%s]\n", strings.Join(flagDefs[setOf["words"]], ",\n    "))
	fmt.Fprintf(&b, "  defAllow := %s\n", stringList(structField(dcr, "allow")))
	fmt.Fprintf(&b, "  defRequire := %s\n", stringList(structField(dcr, "require")))
	fmt.Fprintf(&b, "  defExclude := %s\n", stringList(structField(dcr, "exclude")))
	fmt.Fprintf(&b, "  exitCatchall := %s\n", exitVal("ExitCatchall"))
	fmt.Fprintf(&b, "  exitUsage := %s\n\n", exitVal("ExitUsage"))
	fmt.Fprintf(&b, "def cliExitSuccess : Nat := %s\n\n", exitVal("ExitSuccess"))
	b.WriteString("/-- Output calls in opgen: file, function, callee, argument classes. -/\n")
	b.WriteString("def cliOutputSites : List (String × String × String × List String) := [")
	for i, s := range cliOutputs {
		if i > 0 {
			b.WriteString(",")
		}
		b.WriteString("\n  " + s.lean())
	}
	b.WriteString("]\n\n")
	var cc []string
	for k := range cliCalls {
		cc = append(cc, k)
	}
	sort.Strings(cc)
	b.WriteString("/-- Every function of another package and every method that opgen calls (a set: sorted, without repetition;\nmethods are named by their receiver type). -/\n")
	b.WriteString("def cliCalls : List (String × String) := [")
	for i, c := range cc {
		if i > 0 {
			b.WriteString(", ")
		}
		k := strings.LastIndex(c, ".")
		fmt.Fprintf(&b, "(%s, %s)", q(c[:k]), q(c[k+1:]))
	}
	b.WriteString("]\n\n")
	b.WriteString("end Spg.Generated\n")
	writeFile(out, "Cli.lean", b.String())
}

func (pi *pkgInfo) classifyCall(file, fn string, call *ast.CallExpr, outputs, panics, errorfs, sensitive *[]site) {
	callee := pi.calleeName(call)
	args := func(from int) []string {
		var a []string
		for i, e := range call.Args {
			if i < from {
				continue
			}
			a = append(a, pi.argClass(e)...)
		}
		return a
	}
	switch {
	case callee == "fmt.Print" || callee == "fmt.Printf" || callee == "fmt.Println" ||
		strings.HasPrefix(callee, "log.") || callee == "builtin.print" || callee == "builtin.println":
		if callee == "log.SetOutput" || callee == "log.SetFlags" || callee == "log.New" {
			return
		}
		*outputs = append(*outputs, site{file, fn, callee, args(0)})
	case callee == "fmt.Fprint" || callee == "fmt.Fprintf" || callee == "fmt.Fprintln":
		*outputs = append(*outputs, site{file, fn, callee, args(0)})
	case strings.HasPrefix(callee, "os.Stdout.") || strings.HasPrefix(callee, "os.Stderr."):
		*outputs = append(*outputs, site{file, fn, callee, args(0)})
	case callee == "builtin.panic":
		*panics = append(*panics, site{file, fn, callee, args(0)})
	case callee == "fmt.Errorf" || callee == "errors.New":
		*errorfs = append(*errorfs, site{file, fn, callee, args(0)})
	}
	if i := strings.LastIndex(callee, "."); i > 0 && randomnessPkgs[callee[:i]] {
		// constant string arguments are kept (the name of an environment variable, a file): the
		// failing-input search sets / creates exactly those
		var consts []string
		for _, e := range call.Args {
			if tv := pi.info.Types[e]; tv.Value != nil && tv.Value.Kind() == constant.String {
				consts = append(consts, "str:"+constant.StringVal(tv.Value))
			}
		}
		*sensitive = append(*sensitive, site{file, fn, callee, consts})
	}
}

func rootIdent(e ast.Expr) (*ast.Ident, bool) {
	deref := false
	for {
		switch x := e.(type) {
		case *ast.Ident:
			return x, deref
		case *ast.SelectorExpr:
			e = x.X
			deref = true
		case *ast.IndexExpr:
			e = x.X
			deref = true
		case *ast.StarExpr:
			e = x.X
			deref = true
		case *ast.ParenExpr:
			e = x.X
		default:
			return nil, deref
		}
	}
}

// pathText renders the access path of an assignment target with its root replaced by `root` and
// every index expression by [] (so that names of receivers and locals do not matter).
func pathText(e ast.Expr, root string) string {
	switch x := e.(type) {
	case *ast.Ident:
		return root
	case *ast.SelectorExpr:
		return pathText(x.X, root) + "." + x.Sel.Name
	case *ast.IndexExpr:
		return pathText(x.X, root) + "[]"
	case *ast.StarExpr:
		return "*" + pathText(x.X, root)
	case *ast.ParenExpr:
		return pathText(x.X, root)
	}
	return "?"
}

// depth of the access path below its root: r.f is 1, r.f[i] and r.f.g are 2, …
func pathDepth(e ast.Expr) int {
	switch x := e.(type) {
	case *ast.SelectorExpr:
		return 1 + pathDepth(x.X)
	case *ast.IndexExpr:
		return 1 + pathDepth(x.X)
	case *ast.StarExpr:
		return 1 + pathDepth(x.X)
	case *ast.ParenExpr:
		return pathDepth(x.X)
	}
	return 0
}

// localPointers classifies the pointer-typed local variables of a function body by what is ever
// assigned to them: "fresh" (only &T{…} or new(T): an object created in this call) or
// "recv:<path>" (only the address of something reached through the pointer receiver).
func (pi *pkgInfo) localPointers(body *ast.BlockStmt, recvObj types.Object, recvIsPtr bool) map[types.Object]string {
	res := map[types.Object]string{}
	note := func(id *ast.Ident, rhs ast.Expr) {
		obj := pi.info.Defs[id]
		if obj == nil {
			obj = pi.info.Uses[id]
		}
		if obj == nil {
			return
		}
		switch obj.Type().Underlying().(type) {
		case *types.Pointer, *types.Slice, *types.Map:
		default:
			return
		}
		cls := "unknown"
		switch r := rhs.(type) {
		case *ast.CompositeLit:
			cls = "fresh" // a slice or map literal
		case *ast.UnaryExpr:
			if r.Op == token.AND {
				if _, ok := r.X.(*ast.CompositeLit); ok {
					cls = "fresh"
				} else if root, _ := rootIdent(r.X); root != nil && recvIsPtr && recvObj != nil && pi.info.Uses[root] == recvObj {
					cls = "recv:" + pathText(r.X, "recv")
				}
			}
		case *ast.CallExpr:
			if f, ok := r.Fun.(*ast.Ident); ok && (f.Name == "new" || f.Name == "make") {
				if _, ok := pi.info.Uses[f].(*types.Builtin); ok {
					cls = "fresh"
				}
			}
			// x = append(x, …): stays what it was
			if f, ok := r.Fun.(*ast.Ident); ok && f.Name == "append" && len(r.Args) > 0 {
				if a0, ok := r.Args[0].(*ast.Ident); ok && (pi.info.Uses[a0] == obj || pi.info.Defs[a0] == obj) {
					if old, seen := res[obj]; seen {
						cls = old
					}
				}
			}
		}
		if old, seen := res[obj]; seen && old != cls {
			cls = "unknown"
		}
		res[obj] = cls
	}
	ast.Inspect(body, func(n ast.Node) bool {
		switch x := n.(type) {
		case *ast.AssignStmt:
			if len(x.Lhs) == len(x.Rhs) {
				for i, l := range x.Lhs {
					if id, ok := l.(*ast.Ident); ok {
						note(id, x.Rhs[i])
					}
				}
			} else {
				for _, l := range x.Lhs {
					if id, ok := l.(*ast.Ident); ok {
						note(id, nil)
					}
				}
			}
		case *ast.ValueSpec:
			for i, id := range x.Names {
				if i < len(x.Values) {
					note(id, x.Values[i])
				}
			}
		case *ast.RangeStmt:
			for _, e := range []ast.Expr{x.Key, x.Value} {
				if id, ok := e.(*ast.Ident); ok {
					note(id, nil)
				}
			}
		}
		return true
	})
	return res
}

// classifyWrite: where can an assignment's effect outlive the statement?
//
//	pkgvar     a package-level variable (or anything reached through one)
//	recvfield  a field of the pointer receiver itself (recv.f = …)
//	recvdeep   something reached THROUGH a field of the pointer receiver (recv.f[i] = …, p.g = … with p = &recv.f[i])
//	paramelem  through a pointer/slice/map parameter
//	captured   a variable captured by a function literal
//	freshfield through a local pointer that only ever holds objects created in this call
//	ptrfield   through any other local pointer
func (pi *pkgInfo) classifyWrite(fn string, lhs ast.Expr, tok token.Token, recvObj types.Object, recvIsPtr bool,
	ptrParams map[types.Object]bool, pkgVars map[types.Object]bool, closure *ast.FuncLit, fd *ast.FuncDecl,
	locals map[types.Object]string, add func(f, l, c string)) {
	id, through := rootIdent(lhs)
	if id == nil || id.Name == "_" {
		return
	}
	obj := pi.info.Uses[id]
	if obj == nil {
		obj = pi.info.Defs[id]
	}
	if obj == nil {
		return
	}
	// the struct type (of this package) whose field is being assigned, if any: "…:reqSet"
	owner := ""
	if sel, ok := lhs.(*ast.SelectorExpr); ok {
		t := pi.info.Types[sel.X].Type
		if pt, ok := t.(*types.Pointer); ok {
			t = pt.Elem()
		}
		if nt, ok := t.(*types.Named); ok && nt.Obj().Pkg() == pi.pkg {
			if _, isStruct := nt.Underlying().(*types.Struct); isStruct {
				owner = ":" + nt.Obj().Name()
			}
		}
	}
	recvIsRef := false
	if obj == recvObj && recvObj != nil && !recvIsPtr {
		switch obj.Type().Underlying().(type) {
		case *types.Slice, *types.Map:
			recvIsRef = true // a value receiver of slice or map type shares its elements with the caller
		}
	}
	switch {
	case pkgVars[obj]:
		add(fn, pathText(lhs, id.Name), "pkgvar")
	case obj == recvObj && recvIsPtr && through:
		if pathDepth(lhs) == 1 {
			add(fn, pathText(lhs, "recv"), "recvfield")
		} else {
			add(fn, pathText(lhs, "recv"), "recvdeep"+owner)
		}
	case recvIsRef && through:
		add(fn, pathText(lhs, "recv"), "recvdeep"+owner)
	case ptrParams[obj] && through:
		add(fn, pathText(lhs, "param"), "paramelem"+owner)
	case closure != nil && tok != token.DEFINE && !(obj.Pos() >= closure.Pos() && obj.Pos() <= closure.End()):
		add(fn, pathText(lhs, id.Name), "captured")
	case through:
		if v, ok := obj.(*types.Var); ok {
			if _, isPtr := v.Type().Underlying().(*types.Pointer); isPtr {
				switch c := locals[obj]; {
				case c == "fresh":
					add(fn, pathText(lhs, "new"), "freshfield")
				case strings.HasPrefix(c, "recv:"):
					add(fn, pathText(lhs, "("+c[5:]+")"), "recvdeep"+owner)
				default:
					add(fn, pathText(lhs, id.Name), "ptrfield"+owner)
				}
			}
		}
	}
}

// isParam: is obj one of the function's parameters (or results)?
func isParam(fd *ast.FuncDecl, info *types.Info, obj types.Object) bool {
	for _, fl := range []*ast.FieldList{fd.Type.Params, fd.Type.Results} {
		if fl == nil {
			continue
		}
		for _, p := range fl.List {
			for _, n := range p.Names {
				if info.Defs[n] == obj {
					return true
				}
			}
		}
	}
	return false
}

// plainType: data without hidden state (see packageVarKinds).
func plainType(t types.Type, pkg *types.Package, depth int) bool {
	if depth > 6 {
		return false
	}
	if nt, ok := t.(*types.Named); ok {
		if nt.Obj().Pkg() == nil { // error
			return nt.Obj().Name() == "error"
		}
		if nt.Obj().Pkg() != pkg {
			return false
		}
	}
	switch u := t.Underlying().(type) {
	case *types.Basic:
		return u.Kind() != types.UnsafePointer
	case *types.Slice:
		return plainType(u.Elem(), pkg, depth+1)
	case *types.Array:
		return plainType(u.Elem(), pkg, depth+1)
	case *types.Map:
		return plainType(u.Key(), pkg, depth+1) && plainType(u.Elem(), pkg, depth+1)
	case *types.Struct:
		for i := 0; i < u.NumFields(); i++ {
			if !plainType(u.Field(i).Type(), pkg, depth+1) {
				return false
			}
		}
		return true
	}
	return false
}

func writeFile(dir, name, content string) {
	p := filepath.Join(dir, name)
	old, err := os.ReadFile(p)
	if err == nil && string(old) == content {
		return
	}
	if err := os.WriteFile(p, []byte(content), 0o644); err != nil {
		fatal(err)
	}
}
