#!/bin/bash
# seedall.sh [name-pattern]: run every seeded change under /verif/seeded against the check of the
# property it was written for (git -C /repo apply; ./check <id>; git -C /repo checkout -- .).
# One line per change: CAUGHT (with a failing input) / CAUGHT-NO-INPUT / MISSED.
PAT=${1:-.}
SAVE=$(mktemp -d); cp -a /verif/evidence/. $SAVE/
trap 'git -C /repo checkout -- . ; cp -a $SAVE/. /verif/evidence/; rm -rf $SAVE' EXIT
cd /verif
for d in /verif/seeded/*/; do
  n=$(basename $d); echo "$n" | grep -q "$PAT" || continue
  id=$(python3 -c "import json;print(json.load(open('$d/meta.json'))['property'])")
  git -C /repo checkout -- .
  git -C /repo apply $d/patch.diff || { echo "$n: PATCH DOES NOT APPLY"; continue; }
  out=$(./check $id 2>&1 | grep -v "^KNOWN-FINDING")
  git -C /repo checkout -- .
  if echo "$out" | grep "^VIOLATION" | grep -qv "no-failing-input-found$"; then echo "$n $id CAUGHT"
  elif echo "$out" | grep -q "^VIOLATION"; then echo "$n $id CAUGHT-NO-INPUT"
  elif echo "$out" | grep -q "^OK"; then echo "$n $id MISSED"
  else echo "$n $id ??? $(echo "$out" | tail -1)"; fi
done
