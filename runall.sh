#!/bin/bash
# runall.sh [tier]: every check once on /repo's current tree (evidence files are rewritten).
cd /verif
for i in $(seq -w 1 18); do ./check C$i --tier ${1:-quick} 2>&1 | grep -v "^KNOWN-FINDING" | tail -1; done
