#!/usr/bin/env python3
"""Writes MANIFEST.json. A property is claimed when its proof module lean/SpgProofs/Properties/<id>.lean exists;
everything else is listed under not_applicable with the reason."""
import json, os, subprocess

ROOT = os.path.dirname(os.path.abspath(__file__))

TEXT = {
 "C01": ("§8 C01", "Lean theorems for every bound n in [1,2^32): complete specification of one pass (step_spec), every alternative has exactly floor(2^32/n) preimages (step_uniform), result < n, majority accepted, the same count for every alternative on tapes of every length (tape_uniform), UInt32 code refines the Nat spec (stepU_refines). Tie: draw/source operations on the real randomUint32n through the verif wrapper vs the model, directed at thresholds; thorough and failure search sweep all 2^32 raw words of a bound on the real code.",
         "kernel-checked counting proof + differential execution + exhaustive sweep oracle"),
 "C02": ("§8 C02", "Lean theorems over the free monad of bounded draws with exact rational expectation: one candidate is uniform over all N^L strings (candidate_uniform); the generator returns each valid string with the same closed-form probability in which the string does not occur, and an invalid string with probability 0 (charGen_prob_valid / _invalid); alphabet is duplicate-free. Tie: chargen operations incl. complete cells of index tuples and forced rejections on the real Generate.",
         "kernel-checked probability proof over a free monad + differential execution on complete cells"),
 "C03": ("§8 C03", "Lean theorems for every recipe (flag words universally quantified) and every random stream (Rand.All): length, single-character atom tokens, membership in allowed-or-required minus excluded, every non-empty required set hit; Alphabet() strictly increasing with the exact membership law. Tie: charinfo/chargen on the real code.",
         "kernel-checked safety proof over all streams + differential execution"),
 "C04": ("§8 C04", "Lean theorems: the word, capitalisation and separator choices of WLRecipe.Generate are independent draws with the stated marginals (product law), 'one' uniform over positions, 'random' uniform over subsets; explicit marginals for every separator setting and list: each position's word uniform (word_marginal), pairs of positions independent, each separator a fresh draw from its function, two gaps independent (C04c.sep_pair_independent). Tie: wlgen operations incl. complete cells on the real code; statistical marginal checks as failing-input search.",
         "kernel-checked product-law proof + differential execution on complete cells"),
 "C05": ("§8 C05", "Lean theorems on every stream: atoms are list words or their title form exactly at the scheme's positions, separators exactly between atoms when non-empty, String/Atoms/Separators laws; hypothesis 'no empty word' forced by the proof, with the counterexample (known finding D8). Tie: wlgen on the real code with structure checks.",
         "kernel-checked structural proof + differential execution"),
 "C06": ("§8 C06", "Lean theorems: probability of any output of a character recipe is at most 1/count, with equality up to the failure mass; wordlist bound under the stated hypotheses; Password carries the recipe's entropy integer. Known finding D9 (fallible separator recipe). Tie: exact integer D vs Go float32 within a derived tolerance.",
         "kernel-checked max-probability bound + differential execution with exact log2 comparison"),
 "C07": ("§8 C07", "Lean theorem count_eq_card: the inclusion-exclusion count equals the number of strings over the alphabet hitting every required set, for every overlap pattern, number of sets and length; non-negativity; zero iff none. Tie: exact big integer from the real code (verif hook) compared digit for digit; float32 Entropy() vs exact log2.",
         "kernel-checked inclusion-exclusion proof + exact-integer differential execution"),
 "C08": ("§8 C08", "Lean theorems: entropy descriptor formula; uncapitalisable count and kept set independent of every visiting order of the map and of permutation/duplication of the input; regenerated fact: no floating-point comparison decides anything about a list (list_decisions_exact). Tie: wlnew repeated constructions (Go's real map order varies) and wlent on the real code.",
         "kernel-checked order-independence proof + repeated-construction differential execution"),
 "C09": ("§8 C09", "Lean theorems: a run depends only on the decoded words; chunking of reads is irrelevant; a fault at any read position yields panic, never a password. Regenerated facts: crypto/rand is the only randomness-capable import/call. Tie: fault/short-read injection at every read position on the real code.",
         "kernel-checked fault/chunking proof + regenerated import facts + fault injection"),
 "C10": ("§8 C10", "Lean theorems for every visiting order and idempotent title: kept set specification, no duplicates, Size, order/multiplicity independence; the idempotence hypothesis is proved for the ASCII transcription of strings.Title (C10b.title_idem), which title operations compare with the real function. Tie: wlnew on the real code (kept set read back through generation, caller slice compared).",
         "kernel-checked normalisation proof over all map orders + differential execution"),
 "C11": ("§8 C11", "Lean theorems: round trip tokenize(concat ts, makeIndices ts) = ts for all token sequences with 1..255-character tokens (any type bytes), error for longer tokens, index size law by kind; composed with the generators: every password a character recipe returns round-trips with index [0], every password a wordlist recipe returns round-trips when words, title forms and separators are 1..255 characters (C11b); regenerated fact: no shared scratch state. Tie: mkidx on the real code with an in-harness round-trip oracle, concurrent callers included.",
         "kernel-checked round-trip proof + differential execution"),
 "C12": ("§8 C12", "Lean theorems: tokenize is total (no panic constructor reachable: the model is a total function whose error cases are exactly the listed ones), successful results are consecutive slices (prefix law) with the index's character counts; regenerated fact: no shared scratch state (C12b). Tie: malformed-index stream on the real Tokenize with panic capture, non-finite entropies compared bit for bit, concurrent callers decoding different strings; explode vs strings.Split.",
         "kernel-checked totality/prefix proof + malformed-input differential execution"),
 "C13": ("§8 C13", "Lean theorems: error iff guard/pre-flight/all attempts invalid; attempts bounded by MaxTrials*Length draws; acceptable at single-attempt chance >= 0.1 with the default budget; wordlist errors exactly for missing/empty list or bad length. Tie: chargen/charinfo/wlgen incl. zero-valued recipes and all-fail tapes.",
         "kernel-checked error-iff proof + differential execution"),
 "C14": ("§8 C14", "PARTIAL: Lean theorem that calls with no shared writes cannot race and return what they return alone, over footprints; regenerated facts (receivers, shared writes, pointer-method call sites) compared with expectations by decide. Runtime tie: Go race detector stress on shared recipes/lists/presets, a crowd phase (300 goroutines held in every step of the same call) and a phase after recovered source faults. The Go memory model and golang-set internals are outside the model.",
         "kernel-checked interleaving theorem over extracted footprints + regenerated write facts + race detector"),
 "C15": ("§8 C15", "Lean model functions are pure in the public fields; theorems: results are functions of the public fields and the tape (history independence by construction and by induction over operation lists). Tie: histories on long-lived real objects with in-place field updates, every call compared with the stateless model; caller slices and fields compared before/after.",
         "kernel-checked history-independence + history differential execution"),
 "C16": ("§8 C16", "Lean decide-proofs over REGENERATED data: class strings, flag values, unions, constructor defaults, retry budget, shipped lists sorted/duplicate-free/lower-case and equal to testdata; preset laws as corollaries. Tie: regeneration from the compiled package on every run + presets through complete cells on the real code.",
         "kernel decide over regenerated data + differential execution of presets"),
 "C17": ("§8 C17", "Lean model of opgen's flag parsing and table lookup; theorems: tables equal the documented ones (decide over regenerated tables), valid command lines denote the documented recipe, usage errors exit 2. Tie: the real binary run on generated command lines, stdout shape and membership in the model recipe's support.",
         "kernel-checked CLI mapping + regenerated tables + black-box binary runs"),
 "C18": ("§8 C18", "Lean: diagnostics are a function of the recipe alone (independent of the tape); regenerated facts: every output site's non-constant arguments are numeric, panic/Errorf arguments constrained (decide). Tie: fd 1/2 and log captured around every operation; unexpected output and secret fragments searched.",
         "kernel-checked tape-independence + regenerated output-site facts + fd capture"),
}

def main():
    checks, na = [], []
    for i in range(1, 19):
        pid = "C%02d" % i
        ref, text, tech = TEXT[pid]
        if os.path.exists(os.path.join(ROOT, "lean", "SpgProofs", "Properties", pid + ".lean")):
            checks.append({
                "property_id": pid,
                "quick_cmd": "./check %s --tier quick" % pid,
                "thorough_cmd": "./check %s --tier thorough" % pid,
                "evidence_file": "/verif/evidence/%s.json" % pid,
                "replay_cmd_template": "./check %s --replay {path}" % pid,
                "engine": "lean4-proof+go-correspondence",
                "level_claimed": {"category": "proof", "text": text, "design_ref": "DESIGN.md " + ref},
                "level_note": "Trusted: Lean 4.33.0 kernel; axioms propext, Classical.choice, Quot.sound only (audited per theorem on every run; no sorry/native_decide/own axioms); the statement of each theorem; the tie (go/cmd/dump, go/cmd/facts, go/cmd/harness, ./check). Modelled not verified: floating point, strings.Title, crypto/rand+io.ReadFull, Go map order, golang-set, the Go runtime. Assumed: OS CSPRNG words independent and uniform.",
                "technique": "Lean 4 machine-checked proof; " + tech,
            })
        else:
            na.append({"property_id": pid, "reason": "check under construction in this session: model and correspondence stream exist, the Lean proof module is not yet written (no technique switch intended)"})
    commits = subprocess.run(["git", "-C", "/repo", "log", "--format=%h %s", "--grep=^verif:"], stdout=subprocess.PIPE, text=True).stdout.strip().split("\n")
    m = {
        "version": 1,
        "setup_cmd": "./setup.sh",
        "hooks": {
            "guard": "verif",
            "enable": "go build -tags verif (the harness module go/ replaces go.1password.io/spg => /repo)",
            "baseline_off_cmd": "./baseline_off.sh",
            "source_commits": [c.split()[0] for c in commits if c],
            "add_only": True,
        },
        "engines": [
            {"name": "lean4-proof+go-correspondence", "path": "/verif/check",
             "serves_properties": [c["property_id"] for c in checks],
             "kind_free_text": "Lean 4 model + kernel-checked theorems (lean/), data modules regenerated from /repo on every run (go/cmd/dump, go/cmd/facts), differential execution of the real Go package against the native Lean driver (go/cmd/harness), order-independent probes of the untagged build (go/cmd/plainprobe), race-detector stress (go/cmd/racer), failing-input search, known-findings handling"},
        ],
        "checks": checks,
        "not_applicable": na,
        "notes": "Known findings in known_findings.json; seven 'fix:' commits in /repo recorded there as fixed. See DESIGN.md.",
    }
    json.dump(m, open(os.path.join(ROOT, "MANIFEST.json"), "w"), indent=1)
    print("claimed:", [c["property_id"] for c in checks])

main()
