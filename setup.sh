#!/bin/sh
# Build the framework from files on disk only (offline). Run once in /verif after a fresh restore.
set -e
cd "$(dirname "$0")"
export GOFLAGS=-mod=mod GOPROXY=off GOSUMDB=off GOTOOLCHAIN=local
mkdir -p build evidence replays
(cd go && go build -tags verif -o ../build/dump ./cmd/dump && go build -tags verif -o ../build/facts ./cmd/facts \
  && go build -tags verif -o ../build/harness ./cmd/harness)
(cd go && go build -o ../build/plainprobe ./cmd/plainprobe)
(cd /repo && go build -o /verif/build/opgen ./cmd/opgen)
./build/dump lean/Spg/Generated /repo
(cd /repo && /verif/build/facts /verif/lean/Spg/Generated /repo)
(cd lean && lake build Spg SpgProofs spgdriver)
(cd go && CGO_ENABLED=1 go build -race -tags verif -o ../build/racer ./cmd/racer) || echo "setup: racer not built (C14 builds it itself)"
echo "setup done"
