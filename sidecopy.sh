#!/bin/bash
# sidecopy.sh: a side copy of /verif (at /tmp/verif-side) bound to a scratch worktree of /repo
# (/tmp/repo-side), so that trial changes to the repository can be run through every check
# without touching /repo or disturbing work in /verif. Remove both with: sidecopy.sh --remove
if [ "$1" = "--remove" ]; then
  git -C /repo worktree remove --force /tmp/repo-side 2>/dev/null; git -C /repo worktree prune
  rm -rf /tmp/verif-side; exit 0
fi
mkdir -p /tmp/verif-side
rsync -a --delete --exclude build --exclude replays --exclude .git /verif/ /tmp/verif-side/
[ -d /tmp/repo-side ] || git -C /repo worktree add -q --detach /tmp/repo-side HEAD
git -C /tmp/repo-side checkout -q -- . 
sed -i 's#=> /repo#=> /tmp/repo-side#' /tmp/verif-side/go/go.mod
echo "side copy ready"
