#!/bin/bash
# pbenign.sh [K]: every behaviour-preserving patch of /verif/benign through all eighteen checks, in K
# parallel shards, each in its own side copy (/tmp/vb-<k>, worktree /tmp/rb-<k>). Output per shard
# in /tmp/pben-<k>.log: "== <patch>" followed by every line that is not an OK line (none expected).
# pbenign.sh --remove deletes the side copies and worktrees.
K=${1:-2}
if [ "$1" = "--remove" ]; then
  for d in /tmp/rb-*; do [ -d "$d" ] && git -C /repo worktree remove --force $d; done
  git -C /repo worktree prune; rm -rf /tmp/vb-*; exit 0
fi
ls /verif/benign/*.diff | sort -r > /tmp/pben-all.txt
for k in $(seq 1 $K); do
  mkdir -p /tmp/vb-$k
  rsync -a --delete --exclude build --exclude replays --exclude .git --exclude seeded /verif/ /tmp/vb-$k/
  [ -d /tmp/rb-$k ] || git -C /repo worktree add -q --detach /tmp/rb-$k HEAD
  git -C /tmp/rb-$k checkout -q -- .
  sed -i "s#=> /repo#=> /tmp/rb-$k#" /tmp/vb-$k/go/go.mod
  awk -v k=$k -v K=$K 'NR % K == k % K' /tmp/pben-all.txt > /tmp/pben-$k.list
  (
    cd /tmp/vb-$k
    while read f; do
      echo "== $(basename $f)"
      git -C /tmp/rb-$k checkout -q -- . ; git -C /tmp/rb-$k clean -fdq
      git -C /tmp/rb-$k apply $f || { echo "PATCH DOES NOT APPLY"; continue; }
      for i in $(seq -w 1 18); do
        VERIF_REPO=/tmp/rb-$k ./check C$i 2>&1 | grep -v "^KNOWN-FINDING" | tail -1 | cut -c1-300 | grep -v "^OK"
      done
      git -C /tmp/rb-$k checkout -q -- . ; git -C /tmp/rb-$k clean -fdq
    done < /tmp/pben-$k.list
  ) > /tmp/pben-$k.log 2>&1 &
done
wait
