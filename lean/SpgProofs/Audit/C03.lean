import SpgProofs.Properties.C03
#print axioms Spg.C03.drawMany_spec
#print axioms Spg.C03.candidate_spec
#print axioms Spg.C03.tryLoop_spec
#print axioms Spg.C03.genChars_sound
#print axioms Spg.C03.generate_sound
#print axioms Spg.C03.generate_sound_run
#print axioms Spg.C03.excluded_never
#print axioms Spg.C03.alphabet_spec
#print axioms Spg.C03.alphabet_complete
