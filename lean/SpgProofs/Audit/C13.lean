import SpgProofs.Properties.C13
import SpgProofs.Properties.C13b
#print axioms Spg.C13.genChars_cases
#print axioms Spg.C13.tryLoop_outcomes
#print axioms Spg.C13.DepthLe_mono
#print axioms Spg.C13.DepthLe_bind
#print axioms Spg.C13.drawMany_depth
#print axioms Spg.C13.tryLoop_depth
#print axioms Spg.C13.genChars_depth
#print axioms Spg.C13.NoZero_bind
#print axioms Spg.C13.run_noZero
#print axioms Spg.C13.drawMany_noZero
#print axioms Spg.C13.tryLoop_noZero
#print axioms Spg.C13.genChars_noZero
#print axioms Spg.C13.acceptable_iff
#print axioms Spg.C13.successProb_exact
#print axioms Spg.C13.entropyD_le_total
#print axioms Spg.C13.int_pow_le_pow_left
#print axioms Spg.C13.budget_fact
#print axioms Spg.C13.accept_of_tenth
#print axioms Spg.C13.wl_generate_cases
#print axioms Spg.C13.sepCall_noZero
#print axioms Spg.C13.body_noZero
#print axioms Spg.C13.wl_generate_noZero
#print axioms Spg.C13.total_pos_of_alphabet
#print axioms Spg.C13.acceptable_of_no_requirements
#print axioms Spg.C13.genChars_no_failRate_of_no_requirements
#print axioms Spg.C13.acceptable_zero_tolerance_iff
