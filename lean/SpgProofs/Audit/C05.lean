import SpgProofs.Properties.C05
#print axioms Spg.C05.body_shaped
#print axioms Spg.C05.shaped_atoms
#print axioms Spg.C05.shaped_no_edge_sep
#print axioms Spg.C05.capChoice_spec
#print axioms Spg.C05.generate_structure
#print axioms Spg.C05.generate_structure_run
#print axioms Spg.C05.atoms_from_list
#print axioms Spg.C05.string_concat
#print axioms Spg.C05.atoms_separators_filter
#print axioms Spg.C05.structure_counterexample
