import SpgProofs.Properties.C01
#print axioms Spg.C01.step_spec
#print axioms Spg.C01.step_lt
#print axioms Spg.C01.step_none_iff
#print axioms Spg.C01.step_uniform
#print axioms Spg.C01.step_unbiased
#print axioms Spg.C01.accepted_eq
#print axioms Spg.C01.accept_majority
#print axioms Spg.C01.length_flatMap_const
#print axioms Spg.C01.tapes_length
#print axioms Spg.C01.sum_by_class
#print axioms Spg.C01.countP_extend
#print axioms Spg.C01.tapeCount_succ
#print axioms Spg.C01.tape_uniform
#print axioms Spg.C01.wordOfBytes_injective
#print axioms Spg.C01.wordOfBytes_lt
#print axioms Spg.C01.wordOfBytes_surjective
#print axioms Spg.C01.stepU_refines
