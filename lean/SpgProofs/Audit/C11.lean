import SpgProofs.Properties.C11
import SpgProofs.Properties.C11b
#print axioms Spg.C11.le_foldl_max
#print axioms Spg.C11.le_maxLen
#print axioms Spg.C11.slices_concat
#print axioms Spg.C11.slicesFull_concat
#print axioms Spg.C11.all_atoms_types
#print axioms Spg.C11.altFrom_types
#print axioms Spg.C11.roundtrip
#print axioms Spg.C11.too_long_is_error
#print axioms Spg.C11.index_size
#print axioms Spg.C11.kind_character
#print axioms Spg.C11.kind_varAtoms
#print axioms Spg.C11.kind_alternating
#print axioms Spg.C11.index_bytes
#print axioms Spg.C11b.All_and
#print axioms Spg.C11b.char_generated_roundtrip
#print axioms Spg.C11b.sepCall_bounded
#print axioms Spg.C11b.body_bounded
#print axioms Spg.C11b.wl_generated_roundtrip
#print axioms Spg.C11b.wl_long_word_is_error
#print axioms Spg.C11b.no_shared_scratch
