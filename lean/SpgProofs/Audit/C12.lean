import SpgProofs.Properties.C12
import SpgProofs.Properties.C12b
#print axioms Spg.C12.tokenizeGo_spec
#print axioms Spg.C12.tokenize_no_panic
#print axioms Spg.C12.slices_spec
#print axioms Spg.C12.slicesFull_spec
#print axioms Spg.C12.tokenize_prefix
#print axioms Spg.C12.tokenize_lengths_char
#print axioms Spg.C12.tokenize_lengths_var
#print axioms Spg.C12.tokenize_lengths_alt
#print axioms Spg.C12.tokenize_lengths_full
#print axioms Spg.C12.tokenize_errors
#print axioms Spg.C12.tokenize_errors_full
#print axioms Spg.C12.explode_partition
#print axioms Spg.C12.tokenize_prefix_bytes
#print axioms Spg.C12b.no_shared_scratch
