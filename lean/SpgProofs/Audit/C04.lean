import SpgProofs.Properties.C04
import SpgProofs.Properties.C04b
import SpgProofs.Properties.C04c
#print axioms Spg.C04.body_eq_choices
#print axioms Spg.C04.generate_factors
#print axioms Spg.C04.capChoice_eq_one
#print axioms Spg.C04.capChoice_eq_random
#print axioms Spg.C04.capChoice_one
#print axioms Spg.C04.bits_pattern
#print axioms Spg.C04.capChoice_random
#print axioms Spg.C04.capChoice_const
#print axioms Spg.C04.E_next_ind_ge
#print axioms Spg.C04.posChoice_prob
#print axioms Spg.C04.choices_prob
#print axioms Spg.C04.words_uniform_const_sep
#print axioms Spg.C04.proper_of_noZero
#print axioms Spg.C04.Proper_bind
#print axioms Spg.C04.proper_next
#print axioms Spg.C04.proper_sep
#print axioms Spg.C04.proper_posChoice
#print axioms Spg.C04.proper_choices
#print axioms Spg.C04.E_choices_succ
#print axioms Spg.C04.posChoice_word
#print axioms Spg.C04.word_marginal
#print axioms Spg.C04.posChoice_sep
#print axioms Spg.C04.sep_marginal
#print axioms Spg.C04.word_pair_independent
#print axioms Spg.C04.sep_pair_independent
#print axioms Spg.C04.word_sep_independent
