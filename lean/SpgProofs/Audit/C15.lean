import SpgProofs.Properties.C15
#print axioms Spg.C15.call_preserves_state
#print axioms Spg.C15.out_depends_on_public
#print axioms Spg.C15.step_call_id
#print axioms Spg.C15.run_pub
#print axioms Spg.C15.history_indep
#print axioms Spg.C15.lastUpdate_append_update
#print axioms Spg.C15.update_honoured
#print axioms Spg.C15.body_alphabet
#print axioms Spg.C15.receivers_value
#print axioms Spg.C15.package_state
#print axioms Spg.C15.writes_are_local
#print axioms Spg.C15.no_global_or_captured_writes
#print axioms Spg.C15.pointer_calls
#print axioms Spg.C15.pointer_receiver_counterexample
#print axioms Spg.C15.no_environment_inputs
