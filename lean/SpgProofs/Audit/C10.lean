import SpgProofs.Properties.C10
import SpgProofs.Properties.C10b
#print axioms Spg.C10.empty_rejected
#print axioms Spg.C10.nonempty_accepted
#print axioms Spg.C10.words_eq
#print axioms Spg.C10.kept_spec
#print axioms Spg.C10.kept_nodup
#print axioms Spg.C10.size_eq
#print axioms Spg.C10.kept_order_indep
#print axioms Spg.C10.model_order_covers
#print axioms Spg.C10.atoms_from_kept
#print axioms Spg.C10b.up_up
#print axioms Spg.C10b.isSep_up
#print axioms Spg.C10b.go_go
#print axioms Spg.C10b.title_idem
#print axioms Spg.C10b.go_length
#print axioms Spg.C10b.title_length
#print axioms Spg.C10b.title_eq_nil
#print axioms Spg.C10b.kept_spec_ascii
