import SpgProofs.Properties.C10
#print axioms Spg.C10.empty_rejected
#print axioms Spg.C10.nonempty_accepted
#print axioms Spg.C10.words_eq
#print axioms Spg.C10.kept_spec
#print axioms Spg.C10.kept_nodup
#print axioms Spg.C10.size_eq
#print axioms Spg.C10.kept_order_indep
#print axioms Spg.C10.model_order_covers
#print axioms Spg.C10.atoms_from_kept
