import SpgProofs.Properties.C02
#print axioms Spg.C02.drawMany_E
#print axioms Spg.C02.candidate_uniform
#print axioms Spg.C02.candidate_prob
#print axioms Spg.C02.tryLoop_prob_valid
#print axioms Spg.C02.tryLoop_prob_invalid
#print axioms Spg.C02.tryLoop_prob_exhausted
#print axioms Spg.C02.genChars_eq
#print axioms Spg.C02.genChars_prob_valid
#print axioms Spg.C02.genChars_prob_invalid
#print axioms Spg.C02.genChars_prob_exhausted
#print axioms Spg.C02.valid_equally_likely
