import SpgProofs.Properties.C18
#print axioms Spg.C18.output_sites_ok
#print axioms Spg.C18.panic_sites_ok
#print axioms Spg.C18.errorf_sites_ok
#print axioms Spg.C18.output_sites_list
#print axioms Spg.C18.notice_on_stderr
#print axioms Spg.C18.warnings_le_one
#print axioms Spg.C18.warnings_iff
#print axioms Spg.C18.wl_warnings
