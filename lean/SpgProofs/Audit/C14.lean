import SpgProofs.Properties.C14
#print axioms Spg.C14.no_shared_write_no_race
#print axioms Spg.C14.noninterference
#print axioms Spg.C14.api_receivers_value
#print axioms Spg.C14.pointer_receivers
#print axioms Spg.C14.shared_writes
#print axioms Spg.C14.no_global_or_captured_writes
#print axioms Spg.C14.pointer_calls
#print axioms Spg.C14.package_state
