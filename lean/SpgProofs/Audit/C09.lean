import SpgProofs.Properties.C09
#print axioms Spg.C09.readFull_chunking
#print axioms Spg.C09.readWord_chunking
#print axioms Spg.C09.readFull_error
#print axioms Spg.C09.readFull_eof
#print axioms Spg.C09.drawSource_fault
#print axioms Spg.C09.drawSource_some
#print axioms Spg.C09.run_fault_no_result
#print axioms Spg.C09.run_deterministic
#print axioms Spg.C09.wordOfBytes_bytesOfWord
#print axioms Spg.C09.readFull_plan_subset
#print axioms Spg.C09.readWord_plan_subset
#print axioms Spg.C09.readFull_no_bytes
#print axioms Spg.C09.readWord_no_bytes
#print axioms Spg.C09.drawSource_words
#print axioms Spg.C09.runS_eq_run
#print axioms Spg.C09.imports_ok
#print axioms Spg.C09.rand_sites
