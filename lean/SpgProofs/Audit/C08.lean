import SpgProofs.Properties.C08
import SpgProofs.Properties.C08b
import SpgProofs.Properties.C08c
#print axioms Spg.C08.unCap_eq
#print axioms Spg.C08.allCap_iff
#print axioms Spg.C08.list_contribution_indep
#print axioms Spg.C08.capFactor_spec
#print axioms Spg.C08.entropy_const_sep
#print axioms Spg.C08.sepCall_values
#print axioms Spg.C08.entropy_recipe_sep
#print axioms Spg.C08.genChars_infallible
#print axioms Spg.C08.entropy_stream_indep
#print axioms Spg.C08.entropy_stream_dependent_counterexample
#print axioms Spg.C08.History.unCap_order_dependent_counterexample
#print axioms Spg.C08.sepCall_indep_of_budget
#print axioms Spg.C08.entropy_indep_of_budget
#print axioms Spg.C08.body_indep_of_budget
#print axioms Spg.C08.no_environment_inputs
#print axioms Spg.C08.list_decisions_exact
#print axioms Spg.C08c.log_count_eq_sum
#print axioms Spg.C08c.capBits_spec
#print axioms Spg.C08c.capFactor_pos
#print axioms Spg.C08c.wl_bits_formula
