import SpgProofs.Properties.C17
import SpgProofs.Properties.C17b
#print axioms Spg.C17.cli_tables_ok
#print axioms Spg.C17.cli_output_sites
#print axioms Spg.C17.cli_one_password_site
#print axioms Spg.C17.cli_calls
#print axioms Spg.C17.cli_no_args
#print axioms Spg.C17.cli_unknown_subcommand
#print axioms Spg.C17.parseClasses_spec
#print axioms Spg.C17.chars_defaults
#print axioms Spg.C17.words_defaults
#print axioms Spg.C17.cli_characters_spec
#print axioms Spg.C17.cli_words_spec
#print axioms Spg.C17.cli_flag_last_wins
#print axioms Spg.C17.file_words_flatten
#print axioms Spg.C17.file_words_spec
#print axioms Spg.C17.file_words_render
#print axioms Spg.C17.file_words_render_last
#print axioms Spg.C17.isSpace_table
