/-
  Helper lemmas about the set algebra of CharRecipe: `norm`, `sdiff`, the alphabet.
-/
import Spg.Model.CharSets
import Spg.Model.CharGen
namespace Spg

theorem mem_ins {x y : Nat} : ∀ {l : List Nat}, y ∈ ins x l ↔ y = x ∨ y ∈ l
  | [] => by simp [ins]
  | a :: l => by
    simp only [ins]
    split
    · simp
    · split
      · rename_i h; subst h; simp
      · simp only [List.mem_cons, mem_ins (l := l)]
        constructor
        · rintro (h | h | h) <;> simp [h]
        · rintro (h | h | h) <;> simp [h]

theorem mem_norm {y : Nat} : ∀ {l : List Nat}, y ∈ norm l ↔ y ∈ l
  | [] => by simp [norm]
  | a :: l => by
    show y ∈ ins a (norm l) ↔ _
    rw [mem_ins, mem_norm (l := l)]; simp

theorem ins_sorted (x : Nat) : ∀ (l : List Nat), l.Pairwise (· < ·) → (ins x l).Pairwise (· < ·)
  | [], _ => by simp [ins]
  | a :: l, h => by
    simp only [ins]
    have ha := List.pairwise_cons.mp h
    split
    · rename_i hx
      refine List.pairwise_cons.mpr ⟨?_, h⟩
      intro b hb
      rcases List.mem_cons.mp hb with rfl | hb
      · exact hx
      · exact Nat.lt_trans hx (ha.1 b hb)
    · split
      · exact h
      · rename_i h1 h2
        refine List.pairwise_cons.mpr ⟨?_, ins_sorted x l ha.2⟩
        intro b hb
        rcases mem_ins.mp hb with rfl | hb
        · omega
        · exact ha.1 b hb

/-- The canonical form is strictly increasing: sorted, and without repeats. -/
theorem norm_sorted : ∀ (l : List Nat), (norm l).Pairwise (· < ·)
  | [] => by simp [norm]
  | a :: l => ins_sorted a (norm l) (norm_sorted l)

theorem norm_nodup (l : List Nat) : (norm l).Nodup :=
  (norm_sorted l).imp (fun h => Nat.ne_of_lt h)

theorem mem_sdiff {y : Nat} {a b : List Nat} : y ∈ sdiff a b ↔ y ∈ a ∧ y ∉ b := by
  simp [sdiff, List.mem_filter]

theorem mem_classChars {tbl : ClassTable} {flags c : Nat} :
    c ∈ classChars tbl flags ↔ ∃ e ∈ tbl, flags &&& e.1 ≠ 0 ∧ c ∈ e.2 := by
  simp only [classChars, List.mem_flatMap, List.mem_filter]
  constructor
  · rintro ⟨e, ⟨he, hf⟩, hc⟩; exact ⟨e, he, by simpa using hf, hc⟩
  · rintro ⟨e, he, hf, hc⟩; exact ⟨e, ⟨he, by simpa using hf⟩, hc⟩

namespace CharRecipe
variable (tbl : ClassTable) (r : CharRecipe)

/-- Membership in a required set after exclusion. -/
theorem mem_requiredSets {s : List Nat} :
    s ∈ r.requiredSets tbl ↔ ∃ d ∈ r.declaredRequired tbl, s = norm (sdiff d (r.excluded tbl)) := by
  simp only [requiredSets, List.mem_map]
  constructor
  · rintro ⟨d, hd, rfl⟩; exact ⟨d, hd, rfl⟩
  · rintro ⟨d, hd, rfl⟩; exact ⟨d, hd, rfl⟩

theorem mem_requiredUnion {c : Nat} :
    c ∈ r.requiredUnion tbl ↔ ∃ d ∈ r.declaredRequired tbl, c ∈ d ∧ c ∉ r.excluded tbl := by
  simp only [requiredUnion, mem_norm, List.mem_flatten, mem_requiredSets]
  constructor
  · rintro ⟨s, ⟨d, hd, rfl⟩, hc⟩
    rw [mem_norm, mem_sdiff] at hc
    exact ⟨d, hd, hc⟩
  · rintro ⟨d, hd, hc⟩
    exact ⟨_, ⟨d, hd, rfl⟩, by rw [mem_norm, mem_sdiff]; exact hc⟩

theorem mem_allowedSet {c : Nat} :
    c ∈ r.allowedSet tbl ↔ c ∈ r.declaredAllowed tbl ∧ c ∉ r.excluded tbl ∧ c ∉ r.requiredUnion tbl := by
  simp only [allowedSet, mem_norm, mem_sdiff]; exact and_assoc

/-- **The alphabet, exactly**: allowed or required, and not excluded. Duplicates and overlaps
between classes and custom strings collapse; exclusion wins over both. -/
theorem mem_alphabet {c : Nat} :
    c ∈ r.alphabet tbl ↔
      (c ∈ r.declaredAllowed tbl ∨ ∃ d ∈ r.declaredRequired tbl, c ∈ d) ∧ c ∉ r.excluded tbl := by
  simp only [alphabet, mem_norm, List.mem_append, mem_allowedSet, mem_requiredUnion]
  constructor
  · rintro (⟨ha, hx, _⟩ | ⟨d, hd, hc, hx⟩)
    · exact ⟨Or.inl ha, hx⟩
    · exact ⟨Or.inr ⟨d, hd, hc⟩, hx⟩
  · rintro ⟨ha | ⟨d, hd, hc⟩, hx⟩
    · by_cases hr : ∃ d ∈ r.declaredRequired tbl, c ∈ d ∧ c ∉ r.excluded tbl
      · exact Or.inr hr
      · exact Or.inl ⟨ha, hx, hr⟩
    · exact Or.inr ⟨d, hd, hc, hx⟩

theorem alphabet_sorted : (r.alphabet tbl).Pairwise (· < ·) := norm_sorted _

theorem alphabet_nodup : (r.alphabet tbl).Nodup := norm_nodup _

/-- `requireFilter`, as a proposition. -/
theorem passes_iff (cand : List Nat) :
    r.passes tbl cand = true ↔ ∀ s ∈ r.requiredSets tbl, s = [] ∨ ∃ c ∈ cand, c ∈ s := by
  simp only [passes, List.all_eq_true, Bool.or_eq_true, List.isEmpty_iff, List.any_eq_true,
    List.contains_iff_mem]

end CharRecipe
end Spg
