/-
  Helper lemmas for C01: counting residues in ranges, the threshold identity, the
  power-of-two mask.
-/
import Spg.Model.Draw
namespace Spg

/-- In one full block `[0, n)` exactly one value has residue `k`. -/
theorem countP_range_eq (n k : Nat) (hk : k < n) :
    (List.range n).countP (fun i => i == k) = 1 := by
  induction n with
  | zero => omega
  | succ m ih =>
    rw [List.range_succ, List.countP_append]
    by_cases h : k < m
    · have := ih h
      simp [this]; omega
    · have hkm : k = m := by omega
      subst hkm
      have : (List.range k).countP (fun i => i == k) = 0 := by
        rw [List.countP_eq_zero]; intro a ha; simp at ha; simp; omega
      simp [this]

/-- The counting lemma at the heart of C01: among the values below `q·n`, exactly `q` have
residue `k` modulo `n`, for every `k < n`. -/
theorem countP_mod_range (n q k : Nat) (hk : k < n) :
    (List.range (q * n)).countP (fun v => v % n == k) = q := by
  induction q with
  | zero => simp
  | succ q ih =>
    have hsplit : (q + 1) * n = q * n + n := by rw [Nat.add_mul]; simp
    rw [hsplit, List.range_add, List.countP_append, ih, List.countP_map]
    have : (List.range n).countP ((fun v => v % n == k) ∘ fun x => q * n + x) =
        (List.range n).countP (fun i => i == k) := by
      apply List.countP_congr
      intro x hx
      simp at hx
      simp [Nat.mul_comm q n, Nat.mod_eq_of_lt hx]
    rw [this, countP_range_eq n k hk]

/-- Counting below a threshold inside a longer range: values at or above `T` do not count. -/
theorem countP_below (T m : Nat) (hT : T ≤ m) (p : Nat → Bool) :
    (List.range m).countP (fun v => decide (v < T) && p v) = (List.range T).countP p := by
  obtain ⟨d, rfl⟩ : ∃ d, m = T + d := ⟨m - T, by omega⟩
  rw [List.range_add, List.countP_append, List.countP_map]
  have h1 : (List.range T).countP (fun v => decide (v < T) && p v) = (List.range T).countP p := by
    apply List.countP_congr; intro x hx; simp at hx; simp [hx]
  have h2 : (List.range d).countP ((fun v => decide (v < T) && p v) ∘ fun x => T + x) = 0 := by
    rw [List.countP_eq_zero]; intro a _; simp; omega
  rw [h1, h2]; simp

/-- `MaxUint32 - MaxUint32 % n` is the largest multiple of `n` not exceeding `2^32 - 1`; when
`n` does not divide `2^32` it equals `n · ⌊2^32 / n⌋`. -/
theorem discard_eq (n : Nat) (hn : 0 < n) (hnd : two32 % n ≠ 0) :
    maxU32 - maxU32 % n = n * (two32 / n) := by
  have h1 : two32 = maxU32 + 1 := by decide
  have hdm := Nat.div_add_mod two32 n
  have hdm' := Nat.div_add_mod maxU32 n
  have hlt := Nat.mod_lt two32 hn
  have hlt' := Nat.mod_lt maxU32 hn
  -- maxU32 = n*q' + r', two32 = n*q + r with r ≥ 1; so maxU32 = n*q + (r-1) and uniqueness
  have hq : maxU32 / n = two32 / n := by
    have : maxU32 = n * (two32 / n) + (two32 % n - 1) := by omega
    rw [this]
    rw [Nat.mul_add_div hn]
    have : (two32 % n - 1) / n = 0 := Nat.div_eq_of_lt (by omega)
    omega
  rw [← hq]; omega

/-- A power of two below `2^32` divides `2^32`. -/
theorem pow2_dvd_two32 (k : Nat) (hk : 2 ^ k < two32) : two32 % 2 ^ k = 0 := by
  have hk32 : k < 32 := by
    have h32 : two32 = 2 ^ 32 := by decide
    rw [h32] at hk
    exact (Nat.pow_lt_pow_iff_right (by omega)).mp hk
  have h32 : two32 = 2 ^ (32 - k) * 2 ^ k := by
    rw [← Nat.pow_add]; have : 32 - k + k = 32 := by omega
    rw [this]; decide
  rw [h32]; exact Nat.mul_mod_left _ _

/-- Every divisor of a power of two is a power of two. -/
theorem dvd_two_pow_isPowerOfTwo : ∀ (m n : Nat), n ∣ 2 ^ m → n.isPowerOfTwo
  | 0, n, h => by
    have : n = 1 := by simpa using h
    exact ⟨0, by simp [this]⟩
  | m + 1, n, h => by
    rcases Nat.mod_two_eq_zero_or_one n with he | ho
    · -- n even: n = 2 * n'
      obtain ⟨n', rfl⟩ : ∃ n', n = 2 * n' := ⟨n / 2, by omega⟩
      have h' : n' ∣ 2 ^ m := by
        rw [Nat.pow_succ, Nat.mul_comm (2 ^ m) 2] at h
        exact Nat.dvd_of_mul_dvd_mul_left (by omega) h
      obtain ⟨k, hk⟩ := dvd_two_pow_isPowerOfTwo m n' h'
      exact ⟨k + 1, by rw [hk, Nat.pow_succ, Nat.mul_comm]⟩
    · -- n odd: coprime to 2
      have hc : Nat.Coprime n 2 := by
        rw [Nat.Coprime, Nat.gcd_comm, Nat.gcd_rec, ho]; simp
      have h' : n ∣ 2 ^ m := by
        rw [Nat.pow_succ] at h
        exact Nat.Coprime.dvd_of_dvd_mul_right hc h
      exact dvd_two_pow_isPowerOfTwo m n h'

/-- A non-power-of-two does not divide `2^32` (used contrapositively). -/
theorem dvd_two32_isPowerOfTwo (n : Nat) (h : two32 % n = 0) : n.isPowerOfTwo := by
  have hd : n ∣ 2 ^ 32 := by
    have : two32 = 2 ^ 32 := by decide
    rw [← this]; exact Nat.dvd_of_mod_eq_zero h
  exact dvd_two_pow_isPowerOfTwo 32 n hd

end Spg
