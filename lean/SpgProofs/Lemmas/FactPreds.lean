/-
Predicates over the regenerated source facts (`Spg.Generated.Facts`) that several properties
share (C07, C14, C15, C16). They are stated as conditions every entry must meet — not as the
exact list the current source produces — so that a refactoring which moves, merges, renames or
removes code without adding a new kind of effect leaves them true, while a new assignment to
shared memory, a new stateful package-level variable or a writing method called on a shared
object falsifies them.
-/
import Spg.Generated.Facts

namespace Spg.FactPreds
open Spg.Generated

/-- One assignment (function, normalised target, category) is *local* when its effect cannot
outlive the call that makes it or be seen by another goroutine:
* `freshfield`: through a local pointer that only ever holds `&T{…}` / `new(T)` of this call;
* `freshparam`: through a pointer / slice / map parameter of an unexported helper every call of
  which passes, for that parameter, an object the caller has itself just created;
* `recvfield`: a field of the pointer receiver itself — harmless exactly when the method is only
  ever called on a private copy, which is `writersOnPrivateCopies` below;
* a field of a `reqSet` (`…:reqSet`), however it is reached: `reqSet` values exist only inside
  the derived field `requiredSets`, which `buildCharacterList` rebuilds from scratch on every call
  (`recvfield` writes) in the caller's private copy of the recipe — no `reqSet` is ever shared.
Everything else — an `append` whose first argument is a slice parameter, a slice-typed receiver, a
reslice of one or a local defined as one (`paramappend`: with spare capacity it writes behind the
caller's slice), a package-level variable, a variable captured by a function literal, an element
of a parameter or of a slice/map receiver (the caller's own `RequireSets`, the caller's tokens),
any other pointer — is not. -/
def localWrite (w : String × String × String) : Bool :=
  w.2.2 == "freshfield" || w.2.2 == "freshparam" || w.2.2 == "recvfield" ||
  w.2.2 == "recvdeep:reqSet" || w.2.2 == "paramelem:reqSet" || w.2.2 == "ptrfield:reqSet"

def writesAreLocal : Bool := Facts.sharedWrites.all localWrite

/-- Does a pointer-receiver method assign to (or through) its receiver? -/
def writesReceiver (method : String) : Bool := Facts.receiverWriters.contains method

/-- Every call of a pointer-receiver method of the package is either a call of a method that
does not write its receiver, or a call on `self` from a value-receiver method — the callee then
works on the caller's private copy of the struct — or a call on a variable of the calling
function itself (`local`: a value declared there, whose address is taken for the call, or a
pointer that only ever holds objects created there). -/
def writersOnPrivateCopies : Bool :=
  Facts.pointerMethodCalls.all fun c =>
    !writesReceiver c.2.2.1 || (c.2.1 == "value" && c.2.2.2 == "self") || c.2.2.2 == "local"

/-- The separator presets: function values closing over constant recipes. -/
def presetNames : List String :=
  ["SFNone", "SFDigits1", "SFDigits2", "SFDigitsNoAmbiguous1", "SFDigitsNoAmbiguous2", "SFSymbols", "SFDigitsSymbols"]

/-- Package-level state: every variable is plain data (numbers, strings, and slices / maps of them:
the shipped lists, the class tables, the exported retry budget — they change only through
assignments, which `writesAreLocal` excludes) or one of the seven presets. A memo table behind a
`sync.Map`, a once-flag, a shared scratch `big.Float`, a pointer to a default recipe are none of
these. -/
def packageStateOK : Bool :=
  Facts.packageVarKinds.all fun v => v.2 == "plain" || presetNames.contains v.1

end Spg.FactPreds
