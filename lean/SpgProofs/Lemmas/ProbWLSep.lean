/-
  Helper lemmas for property C06b (min-entropy bound for wordlist recipes whose separator is a
  requirement-free separator RECIPE):
  * associativity of `Rand.bind`;
  * the law of `genChars` and of `Sep.call` for a separator recipe that gets past the pre-flight
    checks and whose filter rejects nothing: the separator is the first candidate, hence uniform
    over the strings of its length over its alphabet.
-/
import SpgProofs.Lemmas.ProbWL
import SpgProofs.Properties.C02
import SpgProofs.Properties.C03
import SpgProofs.Properties.C07
import Spg.Model.WordGen
namespace Spg

namespace Rand
variable {α β γ : Type}

/-- `bind` is associative. -/
theorem bind_assoc' (f : α → Rand β) (g : β → Rand γ) : ∀ (p : Rand α),
    (p.bind f).bind g = p.bind fun a => (f a).bind g
  | .pure _ => rfl
  | .draw n k => by
    simp only [Rand.bind]
    congr 1
    funext i
    exact bind_assoc' f g (k i)

end Rand

/-- The premises on a separator recipe: it gets past the pre-flight checks of
`CharRecipe.Generate` (`Length ≥ 1`, non-empty alphabet, acceptable failure rate, at least one
attempt allowed) and has no effective requirement: every candidate passes the filter. -/
structure SepOK (cfg : Cfg) (cr : CharRecipe) : Prop where
  len : 1 ≤ cr.length
  alpha : cr.alphabet cfg.tbl ≠ []
  acc : cr.acceptable cfg = true
  trials : 0 < cfg.maxTrials
  noreq : ∀ cand, cr.passes cfg.tbl cand = true

namespace SepOK
open Rand CharRecipe
variable {cfg : Cfg} {cr : CharRecipe}

/-- With nothing to reject, `Generate` is its first candidate. -/
theorem genChars_eq (h : SepOK cfg cr) :
    cr.genChars cfg =
      (candidate (cr.alphabet cfg.tbl) cr.length.toNat).bind fun cand => .pure (.ok cand) := by
  rw [C02.genChars_eq cfg cr h.len h.alpha h.acc]
  obtain ⟨t, ht⟩ : ∃ t, cfg.maxTrials = t + 1 := ⟨cfg.maxTrials - 1, by have := h.trials; omega⟩
  rw [ht]
  unfold tryLoop
  congr 1
  funext cand
  rw [if_pos (h.noreq cand)]

/-- One call of the separator function: the first candidate, with the recipe's own `D`. -/
theorem sepCall_eq (h : SepOK cfg cr) :
    Sep.call cfg (.recipe cr) =
      (candidate (cr.alphabet cfg.tbl) cr.length.toNat).bind fun cand =>
        .pure (cand, cr.entropyD cfg) := by
  show (cr.genChars cfg).bind _ = _
  rw [h.genChars_eq, bind_assoc']
  rfl

/-- The separator's `D` is the number of all strings of its length over its alphabet. -/
theorem entropyD_eq (h : SepOK cfg cr) :
    ((cr.entropyD cfg : Int) : ℚ) = ((cr.alphabet cfg.tbl).length : ℚ) ^ cr.length.toNat := by
  rw [C07.entropyD_eq_card]
  have : (strings (cr.alphabet cfg.tbl) cr.length.toNat).filter (fun s => cr.passes cfg.tbl s) =
      strings (cr.alphabet cfg.tbl) cr.length.toNat :=
    List.filter_eq_self.mpr (fun s _ => h.noreq s)
  rw [this, strings_length]
  push_cast
  rfl

theorem entropyD_pos (h : SepOK cfg cr) : (0 : ℚ) < ((cr.entropyD cfg : Int) : ℚ) := by
  rw [h.entropyD_eq]
  apply pow_pos
  have : 0 < (cr.alphabet cfg.tbl).length := List.length_pos_iff.mpr h.alpha
  exact_mod_cast this

/-- **Law of one separator call**: the expectation of any pay-off is its plain average over the
`D` strings of length `Length` over the alphabet. -/
theorem sepCall_E (h : SepOK cfg cr) (g : Word × Int → ℚ) :
    E (Sep.call cfg (.recipe cr)) g =
      ((strings (cr.alphabet cfg.tbl) cr.length.toNat).map fun c => g (c, cr.entropyD cfg)).sum
        / ((cr.entropyD cfg : Int) : ℚ) := by
  rw [h.sepCall_eq, E_bind, candidate_E, h.entropyD_eq]
  rfl

/-- One separator call has total mass one. -/
theorem sepCall_E_const (h : SepOK cfg cr) (c : ℚ) :
    E (Sep.call cfg (.recipe cr)) (fun _ => c) = c := by
  rw [h.sepCall_E, List.map_const', List.sum_replicate, strings_length, nsmul_eq_mul]
  have hpos := h.entropyD_pos
  rw [h.entropyD_eq] at hpos ⊢
  push_cast
  field_simp

/-- **Support of one separator call**: on every random stream the separator is a string of
length `Length` over the alphabet. -/
theorem sepCall_support (h : SepOK cfg cr) :
    All (fun p : Word × Int => p.1 ∈ strings (cr.alphabet cfg.tbl) cr.length.toNat)
      (Sep.call cfg (.recipe cr)) := by
  rw [h.sepCall_eq]
  apply All_bind _ _ (C03.candidate_spec (cr.alphabet cfg.tbl) cr.length.toNat)
  rintro cand ⟨hl, hm⟩
  exact mem_strings.mpr ⟨hl, hm⟩

/-- Every string the separator function can return is non-empty. -/
theorem ne_nil_of_mem (h : SepOK cfg cr) {s : Word}
    (hs : s ∈ strings (cr.alphabet cfg.tbl) cr.length.toNat) : s ≠ [] := by
  intro he
  have hl := (mem_strings.mp hs).1
  rw [he] at hl
  have := h.len
  simp at hl
  omega

end SepOK
end Spg
