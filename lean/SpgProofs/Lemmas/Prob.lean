/-
  Expectation semantics of the free monad of bounded draws (DESIGN.md §4.2).

  `E p g` is the expected value of `g` on the result of `p` when every `draw n` returns each
  of its `n` alternatives with probability exactly `1/n`, independently — which is what C01
  establishes for `randomUint32n` on independent uniform raw words. `prob p P` is the
  probability that the result satisfies `P`. Rational arithmetic, exact.
  (Proof module: may import Mathlib; the model itself does not.)
-/
import Spg.Model.Draw
import Mathlib.Tactic.Ring
import Mathlib.Tactic.FieldSimp
import Mathlib.Tactic.Linarith
import Mathlib.Algebra.BigOperators.Group.List.Basic
import Mathlib.Algebra.BigOperators.Ring.List
import Mathlib.Algebra.Order.BigOperators.Group.List
import Mathlib.Algebra.Order.Field.Rat
namespace Spg
namespace Rand

variable {α β : Type}

/-- Expectation of `g` under `p`. -/
def E : Rand α → (α → ℚ) → ℚ
  | .pure a, g => g a
  | .draw n k, g => ((List.range n).map fun i => E (k i) g).sum / n

/-- Probability that the result satisfies the (decidable) predicate `P`. -/
def prob (p : Rand α) (P : α → Bool) : ℚ := E p fun a => if P a then 1 else 0

@[simp] theorem E_pure (a : α) (g : α → ℚ) : E (.pure a) g = g a := rfl

theorem E_draw (n : Nat) (k : Nat → Rand α) (g : α → ℚ) :
    E (.draw n k) g = ((List.range n).map fun i => E (k i) g).sum / n := rfl

/-- **Bind law**: the expectation of a sequential composition is the iterated expectation. -/
theorem E_bind (f : α → Rand β) (g : β → ℚ) : ∀ (p : Rand α), E (p.bind f) g = E p (fun a => E (f a) g)
  | .pure a => rfl
  | .draw n k => by
    simp only [Rand.bind, E_draw]
    congr 2
    apply List.map_congr_left
    intro i _
    exact E_bind f g (k i)

theorem E_congr (p : Rand α) (g h : α → ℚ) (hgh : ∀ a, g a = h a) : E p g = E p h := by
  have : g = h := funext hgh
  rw [this]

/-- Linearity. -/
theorem E_add (g h : α → ℚ) : ∀ (p : Rand α), E p (fun a => g a + h a) = E p g + E p h
  | .pure a => rfl
  | .draw n k => by
    simp only [E_draw]
    have : (List.range n).map (fun i => E (k i) fun a => g a + h a) =
        (List.range n).map (fun i => E (k i) g + E (k i) h) :=
      List.map_congr_left (fun i _ => E_add g h (k i))
    rw [this, List.sum_map_add, add_div]

theorem E_const_mul (c : ℚ) (g : α → ℚ) : ∀ (p : Rand α), E p (fun a => c * g a) = c * E p g
  | .pure a => rfl
  | .draw n k => by
    simp only [E_draw]
    have : (List.range n).map (fun i => E (k i) fun a => c * g a) =
        (List.range n).map (fun i => c * E (k i) g) :=
      List.map_congr_left (fun i _ => E_const_mul c g (k i))
    rw [this, List.sum_map_mul_left, mul_div_assoc]

/-- A computation all of whose draws have at least one alternative has total mass one. -/
def Proper : Rand α → Prop
  | .pure _ => True
  | .draw n k => 0 < n ∧ ∀ i, i < n → Proper (k i)

theorem E_const (c : ℚ) : ∀ (p : Rand α), Proper p → E p (fun _ => c) = c
  | .pure a, _ => rfl
  | .draw n k, h => by
    simp only [E_draw]
    have : (List.range n).map (fun i => E (k i) fun _ => c) = (List.range n).map (fun _ => c) := by
      apply List.map_congr_left
      intro i hi
      exact E_const c (k i) (h.2 i (List.mem_range.mp hi))
    rw [this, List.map_const', List.sum_replicate, List.length_range, nsmul_eq_mul]
    have hn : (n : ℚ) ≠ 0 := by exact_mod_cast (Nat.pos_iff_ne_zero.mp h.1)
    field_simp

/-- Monotonicity. -/
theorem E_mono (g h : α → ℚ) (hgh : ∀ a, g a ≤ h a) : ∀ (p : Rand α), E p g ≤ E p h
  | .pure a => hgh a
  | .draw n k => by
    simp only [E_draw]
    apply div_le_div_of_nonneg_right _ (by exact_mod_cast Nat.zero_le n)
    exact List.sum_le_sum (fun i _ => E_mono g h hgh (k i))

theorem E_nonneg (g : α → ℚ) (hg : ∀ a, 0 ≤ g a) (p : Rand α) : 0 ≤ E p g := by
  have := E_mono (fun _ => 0) g hg p
  have h0 : ∀ (q : Rand α), E q (fun _ => (0 : ℚ)) = 0 := by
    intro q
    induction q with
    | pure a => rfl
    | draw n k ih =>
      simp only [E_draw]
      have : (List.range n).map (fun i => E (k i) fun _ => (0 : ℚ)) = (List.range n).map (fun _ => (0 : ℚ)) :=
        List.map_congr_left (fun i _ => ih i)
      rw [this]; simp
  rw [h0 p] at this; exact this

/-- The draw itself: each alternative `j < n` has probability exactly `1/n`. -/
theorem prob_next (n j : Nat) (hj : j < n) : prob (next n) (fun i => i == j) = 1 / n := by
  unfold prob next
  simp only [E_draw, E_pure]
  congr 1
  have : ∀ (m : Nat), j < m → ((List.range m).map fun i => if (i == j) = true then (1 : ℚ) else 0).sum = 1 := by
    intro m
    induction m with
    | zero => intro h; omega
    | succ m ih =>
      intro h
      rw [List.range_succ, List.map_append, List.sum_append]
      by_cases hjm : j < m
      · rw [ih hjm]
        have : m ≠ j := by omega
        simp [this]
      · have hjm' : j = m := by omega
        subst hjm'
        have : ((List.range j).map fun i => if (i == j) = true then (1 : ℚ) else 0).sum = 0 := by
          apply List.sum_eq_zero
          intro x hx
          obtain ⟨i, hi, rfl⟩ := List.mem_map.mp hx
          have : i < j := List.mem_range.mp hi
          have : i ≠ j := by omega
          simp [this]
        rw [this]; simp
  exact this n hj

end Rand
end Spg
