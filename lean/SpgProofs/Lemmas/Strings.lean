/-
  All strings of a given length over an alphabet, and the "hits every required set" predicate.
  Shared by C02, C06, C07.
-/
import Spg.Model.CharGen
import SpgProofs.Lemmas.CharSets
namespace Spg

/-- All strings of length `L` over `U` (with multiplicity if `U` repeats a character). -/
def strings (U : List Nat) : Nat → List (List Nat)
  | 0 => [[]]
  | L + 1 => U.flatMap fun c => (strings U L).map (c :: ·)

/-- The string has a character from every set of `reqs`. -/
def hitsAll (reqs : List (List Nat)) (s : List Nat) : Bool :=
  reqs.all fun R => s.any fun c => R.contains c

theorem mem_strings {U : List Nat} : ∀ {L : Nat} {s : List Nat},
    s ∈ strings U L ↔ s.length = L ∧ ∀ c ∈ s, c ∈ U
  | 0, s => by
    simp only [strings, List.mem_singleton]
    constructor
    · rintro rfl; simp
    · rintro ⟨h, _⟩; exact List.length_eq_zero_iff.mp h
  | L + 1, s => by
    simp only [strings, List.mem_flatMap, List.mem_map]
    constructor
    · rintro ⟨c, hc, t, ht, rfl⟩
      obtain ⟨h1, h2⟩ := mem_strings.mp ht
      refine ⟨by simp [h1], ?_⟩
      intro x hx
      rcases List.mem_cons.mp hx with rfl | hx
      · exact hc
      · exact h2 x hx
    · rintro ⟨h1, h2⟩
      cases s with
      | nil => simp at h1
      | cons c t =>
        refine ⟨c, h2 c (by simp), t, mem_strings.mpr ⟨by simpa using h1, fun x hx => h2 x (by simp [hx])⟩, rfl⟩

theorem length_flatMap_const' {α β : Type} (l : List α) (f : α → List β) (c : Nat)
    (h : ∀ a ∈ l, (f a).length = c) : (l.flatMap f).length = l.length * c := by
  induction l with
  | nil => simp
  | cons a l ih =>
    rw [List.flatMap_cons, List.length_append, h a (List.mem_cons_self),
      ih (fun b hb => h b (List.mem_cons_of_mem _ hb)), List.length_cons, Nat.succ_mul]
    omega

theorem strings_length (U : List Nat) : ∀ (L : Nat), (strings U L).length = U.length ^ L
  | 0 => by simp [strings]
  | L + 1 => by
    rw [strings, length_flatMap_const' _ _ (U.length ^ L) (fun a _ => by rw [List.length_map, strings_length U L]),
      Nat.pow_succ, Nat.mul_comm]

theorem nodup_extend (ts : List (List Nat)) (hts : ts.Nodup) : ∀ (U : List Nat), U.Nodup →
    (U.flatMap fun c => ts.map (c :: ·)).Nodup
  | [], _ => by simp
  | a :: U, h => by
    have h' := List.nodup_cons.mp h
    rw [List.flatMap_cons, List.nodup_append]
    refine ⟨List.Pairwise.map (fun t => a :: t) (fun x y hxy h => hxy (by injection h)) hts,
      nodup_extend ts hts U h'.2, ?_⟩
    intro x hx y hy hxy
    obtain ⟨t, _, rfl⟩ := List.mem_map.mp hx
    obtain ⟨c, hc, hy'⟩ := List.mem_flatMap.mp hy
    obtain ⟨t', _, rfl⟩ := List.mem_map.mp hy'
    injection hxy with h1 _
    subst h1
    exact h'.1 hc

/-- Over a duplicate-free alphabet every string occurs exactly once. -/
theorem strings_nodup {U : List Nat} (hU : U.Nodup) : ∀ (L : Nat), (strings U L).Nodup
  | 0 => by simp [strings]
  | L + 1 => nodup_extend _ (strings_nodup hU L) U hU

theorem filter_avoid_extend (R : List Nat) (ts : List (List Nat)) : ∀ (U : List Nat),
    (U.flatMap fun c => ts.map (c :: ·)).filter (fun s => s.all fun c => !R.contains c) =
      ((sdiff U R).flatMap fun c => (ts.filter fun s => s.all fun c => !R.contains c).map (c :: ·))
  | [] => by simp [sdiff]
  | a :: U => by
    rw [List.flatMap_cons, List.filter_append, filter_avoid_extend R ts U]
    by_cases ha : R.contains a = true
    · have haR : a ∈ R := by simpa using ha
      have h1 : (ts.map (a :: ·)).filter (fun s => s.all fun c => !R.contains c) = [] := by
        rw [List.filter_eq_nil_iff]
        intro s hs
        obtain ⟨t, _, rfl⟩ := List.mem_map.mp hs
        simp [haR]
      have h2 : sdiff (a :: U) R = sdiff U R := by simp [sdiff, List.filter_cons, haR]
      rw [h1, h2]; rfl
    · have haR : a ∉ R := by simpa using ha
      have h1 : (ts.map (a :: ·)).filter (fun s => s.all fun c => !R.contains c) =
          (ts.filter fun s => s.all fun c => !R.contains c).map (a :: ·) := by
        rw [List.filter_map]
        congr 1
        apply List.filter_congr
        intro t _
        simp [haR]
      have h2 : sdiff (a :: U) R = a :: sdiff U R := by simp [sdiff, List.filter_cons, haR]
      rw [h1, h2, List.flatMap_cons]

/-- Strings that avoid `R` altogether are exactly the strings over `U \ R` — as lists. -/
theorem filter_avoid_strings (U R : List Nat) : ∀ (L : Nat),
    (strings U L).filter (fun s => s.all fun c => !R.contains c) = strings (sdiff U R) L
  | 0 => by simp [strings]
  | L + 1 => by
    rw [strings, filter_avoid_extend, filter_avoid_strings U R L]; rfl

end Spg
