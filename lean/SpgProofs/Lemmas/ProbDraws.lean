/-
  Expectation of `drawMany` (uniform over index tuples) and the product lemma for
  "draw, then continue, then cons" computations — the engine of the independence statements.
-/
import SpgProofs.Lemmas.Prob
import SpgProofs.Lemmas.Strings
namespace Spg
namespace Rand

variable {α β : Type}

theorem sum_flatMap_map {γ δ : Type} (l : List γ) (f : γ → List δ) (g : δ → ℚ) :
    ((l.flatMap f).map g).sum = (l.map fun c => ((f c).map g).sum).sum := by
  induction l with
  | nil => simp
  | cons a l ih => simp [List.flatMap_cons, List.map_append, List.sum_append, ih]

/-- `L` successive draws over the same bound are uniform over all `b^L` index tuples. -/
theorem drawMany_E (b : Nat) (hb : 0 < b) : ∀ (L : Nat) (g : List Nat → ℚ),
    E (drawMany b L) g = ((strings (List.range b) L).map g).sum / (b : ℚ) ^ L
  | 0, g => by simp [drawMany, strings]
  | L + 1, g => by
    have hbq : (b : ℚ) ≠ 0 := by exact_mod_cast (Nat.pos_iff_ne_zero.mp hb)
    simp only [drawMany, E_draw]
    have hstep : ∀ i, E ((drawMany b L).bind fun rest => .pure (i :: rest)) g =
        ((strings (List.range b) L).map fun t => g (i :: t)).sum / (b : ℚ) ^ L := by
      intro i
      rw [E_bind]
      simp only [E_pure]
      exact drawMany_E b hb L (fun t => g (i :: t))
    have : (List.range b).map (fun i => E ((drawMany b L).bind fun rest => .pure (i :: rest)) g) =
        (List.range b).map (fun i => ((strings (List.range b) L).map fun t => g (i :: t)).sum / (b : ℚ) ^ L) :=
      List.map_congr_left (fun i _ => hstep i)
    rw [this]
    simp only [strings, sum_flatMap_map, List.map_map]
    have hdiv : ∀ (l : List Nat) (f : Nat → ℚ) (c : ℚ), (l.map fun i => f i / c).sum = (l.map f).sum / c := by
      intro l f c
      induction l with
      | nil => simp
      | cons a l ih => simp [ih, add_div]
    rw [hdiv, div_div, pow_succ]
    rfl

/-- Indicator of equality with a fixed value. -/
def ind [DecidableEq α] (x : α) : α → ℚ := fun a => if a = x then 1 else 0

/-- **Product lemma**: for "run `p`, then `q`, then cons the results", the probability of a
specific list factors into the probability of its head under `p` and of its tail under `q`. -/
theorem prob_cons [DecidableEq α] (p : Rand α) (q : Rand (List α)) (a0 : α) (rest0 : List α) :
    E (p.bind fun a => q.bind fun rest => .pure (a :: rest)) (ind (a0 :: rest0)) =
      E p (ind a0) * E q (ind rest0) := by
  rw [E_bind]
  have : (fun a => E (q.bind fun rest => Rand.pure (a :: rest)) (ind (a0 :: rest0))) =
      fun a => ind a0 a * E q (ind rest0) := by
    funext a
    rw [E_bind]
    simp only [E_pure]
    by_cases ha : a = a0
    · subst ha
      have : (fun rest => ind (a :: rest0) (a :: rest)) = ind rest0 := by
        funext rest; simp [ind]
      rw [this]; simp [ind]
    · have : (fun rest => ind (a0 :: rest0) (a :: rest)) = fun _ => (0 : ℚ) := by
        funext rest; simp [ind, ha]
      rw [this]
      have h0 : E q (fun _ => (0 : ℚ)) = 0 := by
        have := E_const_mul 0 (fun _ => (0 : ℚ)) q
        simpa using this
      simp [ind, ha, h0]
  rw [this]
  have h := E_const_mul (E q (ind rest0)) (ind a0) p
  rw [mul_comm (E p (ind a0)), ← h]
  congr 1
  funext a
  ring

/-- The probability of a list of the wrong shape is zero. -/
theorem prob_cons_nil [DecidableEq α] (p : Rand α) (q : Rand (List α)) :
    E (p.bind fun a => q.bind fun rest => .pure (a :: rest)) (ind []) = 0 := by
  rw [E_bind]
  have : (fun a => E (q.bind fun rest => Rand.pure (a :: rest)) (ind ([] : List α))) = fun _ => (0 : ℚ) := by
    funext a
    rw [E_bind]
    simp only [E_pure, ind]
    have h0 : E q (fun _ => (0 : ℚ)) = 0 := by
      have := E_const_mul 0 (fun _ => (0 : ℚ)) q
      simpa using this
    simpa using h0
  rw [this]
  have := E_const_mul 0 (fun _ => (0 : ℚ)) p
  simpa using this

/-- The uniform draw: probability of a specific alternative, as an indicator expectation. -/
theorem E_next_ind (n j : Nat) (hj : j < n) : E (next n) (ind j) = 1 / n := by
  have := prob_next n j hj
  unfold prob at this
  rw [← this]
  congr 1
  funext i
  simp [ind]

end Rand
end Spg
