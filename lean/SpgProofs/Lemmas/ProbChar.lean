/-
  Exact distribution of the character generator in the expectation semantics of
  `SpgProofs.Lemmas.Prob`: `drawMany`, `candidate`, and the one-step recurrence of `tryLoop`.
  Helper lemmas for property C02.
-/
import SpgProofs.Lemmas.Prob
import SpgProofs.Lemmas.Strings
namespace Spg

/-! ### Sums over lists -/

theorem sum_map_flatMap {α β : Type} (l : List α) (f : α → List β) (g : β → ℚ) :
    ((l.flatMap f).map g).sum = (l.map fun a => ((f a).map g).sum).sum := by
  induction l with
  | nil => rfl
  | cons a l ih =>
    rw [List.flatMap_cons, List.map_append, List.sum_append, ih, List.map_cons, List.sum_cons]

theorem sum_map_div_const {α : Type} (l : List α) (f : α → ℚ) (c : ℚ) :
    (l.map fun a => f a / c).sum = (l.map f).sum / c := by
  induction l with
  | nil => simp
  | cons a l ih => rw [List.map_cons, List.sum_cons, ih, List.map_cons, List.sum_cons, add_div]

/-- Splitting a sum along a Boolean test, the `else` branch being constant. -/
theorem sum_map_ite_const {α : Type} (P : α → Bool) (a : α → ℚ) (e : ℚ) (l : List α) :
    (l.map fun c => if P c = true then a c else e).sum =
      ((l.filter P).map a).sum + ((l.length : ℚ) - ((l.filter P).length : ℚ)) * e := by
  induction l with
  | nil => simp
  | cons x l ih =>
    rw [List.map_cons, List.sum_cons, ih]
    by_cases hx : P x = true
    · rw [if_pos hx, List.filter_cons_of_pos hx, List.map_cons, List.sum_cons, List.length_cons,
        List.length_cons]
      push_cast; ring
    · rw [if_neg hx, List.filter_cons_of_neg hx, List.length_cons]
      push_cast; ring

/-- In a duplicate-free list a member is counted exactly once. -/
theorem sum_indicator_of_mem {α : Type} [BEq α] [LawfulBEq α] (s : α) : ∀ (l : List α), l.Nodup → s ∈ l →
    (l.map fun c => if (c == s) = true then (1 : ℚ) else 0).sum = 1
  | [], _, h => by cases h
  | x :: l, hnd, h => by
    have hnd' := List.nodup_cons.mp hnd
    rw [List.map_cons, List.sum_cons]
    by_cases hx : x = s
    · subst hx
      have : (l.map fun c => if (c == x) = true then (1 : ℚ) else 0).sum = 0 := by
        apply List.sum_eq_zero
        intro y hy
        obtain ⟨c, hc, rfl⟩ := List.mem_map.mp hy
        have : c ≠ x := fun hcx => hnd'.1 (hcx ▸ hc)
        simp [this]
      rw [this]; simp
    · have hs : s ∈ l := by
        rcases List.mem_cons.mp h with h | h
        · exact absurd h.symm hx
        · exact h
      rw [sum_indicator_of_mem s l hnd'.2 hs]
      simp [hx]

theorem sum_indicator_of_not_mem {α : Type} [BEq α] [LawfulBEq α] (s : α) (l : List α) (h : s ∉ l) :
    (l.map fun c => if (c == s) = true then (1 : ℚ) else 0).sum = 0 := by
  apply List.sum_eq_zero
  intro y hy
  obtain ⟨c, hc, rfl⟩ := List.mem_map.mp hy
  have : c ≠ s := fun hcs => h (hcs ▸ hc)
  simp [this]

/-- The partial geometric sum `1 + q + … + q^(T-1)`, one step. -/
theorem geom_sum_succ (q : ℚ) (T : Nat) :
    ((List.range (T + 1)).map fun t => q ^ t).sum = 1 + q * ((List.range T).map fun t => q ^ t).sum := by
  rw [List.range_succ_eq_map, List.map_cons, List.sum_cons, List.map_map, pow_zero,
    ← List.sum_map_mul_left]
  congr 2
  apply List.map_congr_left
  intro t _
  show q ^ (t + 1) = q * q ^ t
  rw [pow_succ, mul_comm]

/-! ### Strings under a map of the alphabet -/

/-- Mapping every character of every string is the same, as lists, as mapping the alphabet. -/
theorem strings_map (f : Nat → Nat) (U : List Nat) : ∀ (L : Nat),
    (strings U L).map (List.map f) = strings (U.map f) L
  | 0 => rfl
  | L + 1 => by
    simp only [strings]
    rw [← strings_map f U L, List.map_flatMap, List.flatMap_map]
    congr 1
    funext c
    rw [List.map_map, List.map_map]
    rfl

/-- Reading the alphabet by index, in order, gives the alphabet back. -/
theorem range_map_getD (alpha : List Nat) :
    (List.range alpha.length).map (fun i => alpha.getD i 0) = alpha := by
  apply List.ext_getElem
  · simp
  · intro i h1 h2
    simp only [List.getElem_map, List.getElem_range]
    rw [List.getD_eq_getElem?_getD, List.getElem?_eq_getElem h2]
    rfl

/-! ### The distribution of index tuples and of one candidate -/

namespace Rand

/-- `L` successive draws over `b` alternatives are uniform over all `b^L` index tuples. -/
theorem drawMany_E' (b : Nat) : ∀ (L : Nat) (g : List Nat → ℚ),
    E (drawMany b L) g = ((strings (List.range b) L).map g).sum / (b : ℚ) ^ L
  | 0, g => by simp [drawMany, strings]
  | L + 1, g => by
    simp only [drawMany, E_draw]
    have h1 : (List.range b).map (fun i => E ((drawMany b L).bind fun rest => .pure (i :: rest)) g) =
        (List.range b).map (fun i => ((strings (List.range b) L).map (fun t => g (i :: t))).sum / (b : ℚ) ^ L) := by
      apply List.map_congr_left
      intro i _
      rw [E_bind, ← drawMany_E' b L (fun t => g (i :: t))]
      rfl
    rw [h1, sum_map_div_const, strings, sum_map_flatMap, div_div, pow_succ]
    congr 2
    apply List.map_congr_left
    intro i _
    rw [List.map_map]
    rfl

end Rand

namespace CharRecipe
open Rand

/-- One candidate is uniform over the list `strings alpha L` (with multiplicity, should the
alphabet repeat a character — which the alphabet of a recipe never does). -/
theorem candidate_E (alpha : List Nat) (L : Nat) (g : List Nat → ℚ) :
    E (candidate alpha L) g = ((strings alpha L).map g).sum / (alpha.length : ℚ) ^ L := by
  unfold candidate
  rw [E_bind, drawMany_E']
  congr 1
  have : (strings alpha L).map g =
      ((strings (List.range alpha.length) L).map (List.map fun i => alpha.getD i 0)).map g := by
    rw [strings_map, range_map_getD]
  rw [this, List.map_map]
  rfl

variable (cfg : Cfg) (r : CharRecipe)

/-- **One step of the retry loop**, for an arbitrary pay-off `h`: either the candidate is one of
the valid strings (each with weight `1/M`), or — with probability `(M - V)/M` — it is rejected
and the loop starts afresh with one attempt fewer. -/
theorem tryLoop_E_succ (alpha : List Nat) (L T : Nat) (h : Res (List Nat) → ℚ) :
    E (tryLoop cfg r alpha L (T + 1)) h =
      (((strings alpha L).filter fun s => r.passes cfg.tbl s).map fun c => h (.ok c)).sum
          / (alpha.length : ℚ) ^ L
        + (((alpha.length : ℚ) ^ L
              - (((strings alpha L).filter fun s => r.passes cfg.tbl s).length : ℚ))
            / (alpha.length : ℚ) ^ L) * E (tryLoop cfg r alpha L T) h := by
  rw [tryLoop, E_bind, candidate_E]
  have h1 : (fun a => E (if r.passes cfg.tbl a = true then Rand.pure (Res.ok a)
        else tryLoop cfg r alpha L T) h) =
      (fun a => if (fun s => r.passes cfg.tbl s) a = true then (fun c => h (.ok c)) a
        else E (tryLoop cfg r alpha L T) h) := by
    funext a
    by_cases hp : r.passes cfg.tbl a = true
    · rw [if_pos hp, if_pos hp]; rfl
    · rw [if_neg hp, if_neg hp]
  rw [h1, sum_map_ite_const, strings_length, add_div, mul_div_right_comm]
  push_cast
  rfl

theorem tryLoop_E_zero (alpha : List Nat) (L : Nat) (h : Res (List Nat) → ℚ) :
    E (tryLoop cfg r alpha L 0) h = h (.err .exhausted) := rfl

end CharRecipe
end Spg
