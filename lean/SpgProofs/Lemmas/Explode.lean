/-
  `explode` (the model of `strings.Split(s, "")` on raw bytes): the chunks are non-empty and
  concatenate to the input, whatever the bytes — valid UTF-8 or not. This is what lets the
  character-level theorems of C11/C12 (stated for an arbitrary character type) speak about Go
  strings: a token's value is a run of chunks, hence a substring of the password's bytes.
-/
import Spg.Model.Token
namespace Spg

theorem runeWidth_bounds (b : Nat) (bs : List Nat) :
    1 ≤ runeWidth (b :: bs) ∧ runeWidth (b :: bs) ≤ (b :: bs).length := by
  simp only [runeWidth]
  repeat' split
  all_goals (simp only [List.length_cons]; omega)

/-- The chunks concatenate to the input. -/
theorem explode_flatten : ∀ (fuel : Nat) (bytes : List Nat), bytes.length ≤ fuel →
    (explode fuel bytes).flatten = bytes
  | 0, bytes, h => by
    have : bytes = [] := List.length_eq_zero_iff.mp (by omega)
    subst this; simp [explode]
  | fuel + 1, [], _ => by simp [explode]
  | fuel + 1, b :: bs, h => by
    obtain ⟨h1, h2⟩ := runeWidth_bounds b bs
    simp only [explode, List.flatten_cons]
    rw [explode_flatten fuel _ (by simp only [List.length_drop, List.length_cons] at h ⊢; omega)]
    exact List.take_append_drop _ _

/-- Every chunk is non-empty. -/
theorem explode_nonempty : ∀ (fuel : Nat) (bytes : List Nat), ∀ c ∈ explode fuel bytes, c ≠ []
  | 0, _, c, hc => by simp [explode] at hc
  | fuel + 1, [], c, hc => by simp [explode] at hc
  | fuel + 1, b :: bs, c, hc => by
    obtain ⟨h1, _⟩ := runeWidth_bounds b bs
    simp only [explode, List.mem_cons] at hc
    rcases hc with rfl | hc
    · intro h
      have := congrArg List.length h
      simp only [List.length_take, List.length_cons, List.length_nil] at this
      omega
    · exact explode_nonempty fuel _ c hc

/-- The number of chunks is at most the number of bytes and at least one per four bytes —
`utf8.RuneCountInString`, which `MakeIndices` uses after the repair, counts exactly these chunks
(validated against Go by the `explode` operations). -/
theorem explode_length_le : ∀ (fuel : Nat) (bytes : List Nat), (explode fuel bytes).length ≤ bytes.length
  | 0, _ => by simp [explode]
  | fuel + 1, [] => by simp [explode]
  | fuel + 1, b :: bs => by
    obtain ⟨h1, h2⟩ := runeWidth_bounds b bs
    simp only [explode, List.length_cons]
    have := explode_length_le fuel ((b :: bs).drop (runeWidth (b :: bs)))
    simp only [List.length_drop, List.length_cons] at this ⊢
    omega

end Spg
