/-
  The flag parser of the CLI model on rendered assignments: parsing `--name=value` arguments
  gives back the assignments (C17).
-/
import Spg.Model.Cli
namespace Spg.Cli

/-- One assignment rendered the way a user types it: `--name=value`. -/
def render (a : String × String) : String :=
  String.ofList ('-' :: '-' :: (a.1.toList ++ '=' :: a.2.toList))

theorem splitFirst_append (sep : Char) : ∀ (n v : List Char), sep ∉ n →
    splitFirst sep (n ++ sep :: v) = (n, some v)
  | [], v, _ => by simp [splitFirst]
  | c :: n, v, h => by
    have hc : c ≠ sep := fun e => h (by simp [e])
    have hn : sep ∉ n := fun e => h (List.mem_cons_of_mem _ e)
    simp only [List.cons_append, splitFirst, if_neg hc, splitFirst_append sep n v hn]

/-- What makes an assignment valid for a flag set: a defined flag name of ordinary shape and a
value of the flag's kind. -/
def ValidAssign (defs : List (String × FlagKind × String)) (a : String × String) : Prop :=
  (∃ c cs, a.1.toList = c :: cs ∧ c ≠ '-' ∧ c ≠ '=') ∧ '=' ∉ a.1.toList ∧
  ∃ kind dflt, defs.lookup a.1 = some (kind, dflt) ∧
    (kind = .int → (parseInt a.2).isSome = true) ∧ (kind = .bool → (parseBool a.2).isSome = true)

/-- The value the parser stores for an assignment (booleans are normalised). -/
def stored (defs : List (String × FlagKind × String)) (a : String × String) : String :=
  match defs.lookup a.1 with
  | some (.bool, _) => if parseBool a.2 = some true then "true" else "false"
  | _ => a.2

/-- **Parsing rendered assignments returns them**, last assignment of a flag winning. -/
theorem parseFlags_render (defs : List (String × FlagKind × String)) :
    ∀ (assigns : List (String × String)) (fuel : Nat) (vals : List (String × String)),
      (∀ a ∈ assigns, ValidAssign defs a) → assigns.length < fuel →
      parseFlags defs fuel (assigns.map render) vals =
        .ok (assigns.foldl (fun vs a => setVal vs a.1 (stored defs a)) vals)
  | [], fuel, vals, _, hf => by
    cases fuel with
    | zero => omega
    | succ f => simp [parseFlags]
  | a :: rest, fuel, vals, hv, hf => by
    obtain ⟨f, rfl⟩ : ∃ f, fuel = f + 1 := ⟨fuel - 1, by simp at hf; omega⟩
    obtain ⟨⟨c, cs, hname, hc1, hc2⟩, hnoeq, kind, dflt, hlook, hint, hbool⟩ := hv a (by simp)
    have ih := parseFlags_render defs rest f
    simp only [List.map_cons, List.foldl_cons]
    unfold parseFlags
    have htl : (render a).toList = '-' :: '-' :: (a.1.toList ++ '=' :: a.2.toList) := by
      simp [render]
    simp only [htl]
    have hbody : a.1.toList ++ '=' :: a.2.toList = c :: (cs ++ '=' :: a.2.toList) := by rw [hname]; rfl
    have hsplit : splitEq (c :: (cs ++ '=' :: a.2.toList)) = (a.1, some a.2) := by
      rw [← hbody]
      simp [splitEq, splitFirst_append '=' a.1.toList a.2.toList hnoeq]
    rw [hbody]
    simp only [if_true]
    rw [if_neg (by simp)]
    split
    · rename_i h; cases h
    · rename_i h; injection h with h1 _; exact absurd h1 hc1
    · rename_i h; injection h with h1 _; exact absurd h1 hc2
    rw [hsplit]
    simp only [hlook]
    have hrest := fun vs => ih vs (fun b hb => hv b (List.mem_cons_of_mem _ hb)) (by simp at hf ⊢; omega)
    cases kind with
    | bool =>
      simp only
      have hb := hbool rfl
      cases hpb : parseBool a.2 with
      | none => rw [hpb] at hb; simp at hb
      | some b =>
        simp only
        rw [hrest]
        congr 2
        simp only [stored, hlook, hpb]
        cases b <;> simp
    | int =>
      simp only
      have hi := hint rfl
      have : ¬ ((FlagKind.int == FlagKind.int && (parseInt a.2).isNone) = true) := by
        simp [Option.isNone_iff_eq_none]
        intro h; rw [h] at hi; simp at hi
      rw [if_neg this, hrest]
      congr 2
      simp [stored, hlook]
    | str =>
      simp only
      have hk : (FlagKind.str == FlagKind.int) = false := by decide
      have : ¬ ((FlagKind.str == FlagKind.int && (parseInt a.2).isNone) = true) := by simp [hk]
      rw [if_neg this, hrest]
      congr 2
      simp [stored, hlook]

end Spg.Cli

namespace Spg.Cli

/-- The value in force for flag `k` after a list of assignments: the last one given. -/
def lastValue (defs : List (String × FlagKind × String)) (k : String) :
    List (String × String) → Option String → Option String
  | [], cur => cur
  | a :: rest, cur => lastValue defs k rest (if a.1 = k then some (stored defs a) else cur)

theorem lookup_setVal (vals : List (String × String)) (k k' v : String) :
    (setVal vals k v).lookup k' = if k = k' then some v else vals.lookup k' := by
  unfold setVal
  by_cases h : k = k'
  · subst h; simp [List.lookup]
  · have hb : (k' == k) = false := by simpa using fun e => h e.symm
    simp only [List.lookup, hb, if_neg h]
    induction vals with
    | nil => rfl
    | cons x xs ih =>
      simp only [List.filter_cons]
      by_cases hx : x.1 = k
      · have : (x.1 != k) = false := by simp [hx]
        have hk' : (k' == x.1) = false := by rw [hx]; exact hb
        simp only [this, Bool.false_eq_true, if_false, List.lookup, hk', ih]
      · have : (x.1 != k) = true := by simp [hx]
        simp only [this, if_true, List.lookup]
        cases hkx : (k' == x.1) <;> simp [ih]

/-- Looking a flag up after folding the assignments gives the last assignment of that flag. -/
theorem lookup_fold (defs : List (String × FlagKind × String)) (k : String) :
    ∀ (assigns : List (String × String)) (vals : List (String × String)),
      (assigns.foldl (fun vs a => setVal vs a.1 (stored defs a)) vals).lookup k =
        lastValue defs k assigns (vals.lookup k)
  | [], vals => rfl
  | a :: rest, vals => by
    simp only [List.foldl_cons, lastValue]
    rw [lookup_fold defs k rest, lookup_setVal]

/-- **Every `opgen characters --name=value …` command line with valid assignments denotes the
recipe obtained by taking, for each flag, the last value given (the flag's default otherwise)
and reading class lists as the OR of their known words.** -/
theorem action_characters (t : Tables) (assigns : List (String × String))
    (hv : ∀ a ∈ assigns, ValidAssign t.charFlags a) :
    action t ("characters" :: assigns.map render) =
      (let vals := assigns.foldl (fun vs a => setVal vs a.1 (stored t.charFlags a)) []
       let g := getVal t.charFlags vals
       Action.chars { length := (parseInt (g "length")).getD 0,
                      allow := parseClasses t (g "allow") t.defAllow,
                      require := parseClasses t (g "require") t.defRequire,
                      exclude := parseClasses t (g "exclude") t.defExclude,
                      allowChars := [], requireSets := [], excludeChars := [] }
                    (g "entropy" == "true")) := by
  unfold action
  have hglobal : parseFlags [] 1 ["characters"] [] = Parsed.ok [] := by rfl
  simp only [hglobal]
  have hc : ("characters" == "characters") = true := by decide
  simp only [hc, if_true]
  rw [parseFlags_render t.charFlags assigns _ [] hv (by simp)]

/-- The same for `opgen words`. -/
theorem action_words (t : Tables) (assigns : List (String × String))
    (hv : ∀ a ∈ assigns, ValidAssign t.wordFlags a) :
    action t ("words" :: assigns.map render) =
      (let vals := assigns.foldl (fun vs a => setVal vs a.1 (stored t.wordFlags a)) []
       let g := getVal t.wordFlags vals
       let list := if g "file" != "" then "file" else g "list"
       if list != "file" && list != "words" && list != "syllables" then Action.usage
       else Action.words list ((parseInt (g "size")).getD 0) (sepOf t (g "separator"))
              (capOf t (g "capitalize")) (g "entropy" == "true")) := by
  unfold action
  have hglobal : parseFlags [] 1 ["words"] [] = Parsed.ok [] := by rfl
  simp only [hglobal]
  have hc1 : ("words" == "characters") = false := by decide
  have hc2 : ("words" == "words") = true := by decide
  simp only [hc1, hc2, Bool.false_eq_true, if_false, if_true]
  rw [parseFlags_render t.wordFlags assigns _ [] hv (by simp)]

/-- `getVal` after the parse: the last value given for the flag, or its default. -/
theorem getVal_fold (defs : List (String × FlagKind × String)) (assigns : List (String × String)) (k : String) :
    getVal defs (assigns.foldl (fun vs a => setVal vs a.1 (stored defs a)) []) k =
      match lastValue defs k assigns none with
      | some v => v
      | none => match defs.lookup k with
        | some (_, d) => d
        | none => "" := by
  unfold getVal
  rw [lookup_fold]
  rfl

end Spg.Cli
