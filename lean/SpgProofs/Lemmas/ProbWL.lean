/-
  Helper lemmas for property C06 (min-entropy bounds):
  * expectation restricted to the support of a computation (`Rand.All`): congruence,
    monotonicity, vanishing; the bound `E p g ≤ c` for a pay-off bounded by `c ≥ 0`;
  * sums over duplicate-free lists with at most one / exactly one non-zero term;
  * the closed form of the partial geometric sum.
-/
import SpgProofs.Lemmas.Prob
import SpgProofs.Lemmas.ProbChar
import SpgProofs.Lemmas.Rand
import Mathlib.Tactic.LinearCombination
namespace Spg

/-! ### Sums with at most one non-zero term -/

/-- In a duplicate-free list, if at most one member has a non-zero value and every value is at
most `B ≥ 0`, the sum is at most `B`. -/
theorem sum_le_of_at_most_one {α : Type} (f : α → ℚ) (B : ℚ) (hB : 0 ≤ B) :
    ∀ (l : List α), l.Nodup → (∀ a ∈ l, f a ≤ B) →
      (∀ a ∈ l, ∀ b ∈ l, f a ≠ 0 → f b ≠ 0 → a = b) → (l.map f).sum ≤ B
  | [], _, _, _ => by simpa using hB
  | a :: l, hnd, hle, hone => by
    have hnd' := List.nodup_cons.mp hnd
    rw [List.map_cons, List.sum_cons]
    by_cases ha : f a = 0
    · rw [ha, zero_add]
      exact sum_le_of_at_most_one f B hB l hnd'.2
        (fun b hb => hle b (List.mem_cons_of_mem _ hb))
        (fun b hb c hc => hone b (List.mem_cons_of_mem _ hb) c (List.mem_cons_of_mem _ hc))
    · have hz : (l.map f).sum = 0 := by
        apply List.sum_eq_zero
        intro y hy
        obtain ⟨b, hb, rfl⟩ := List.mem_map.mp hy
        by_contra hfb
        have : a = b := hone a List.mem_cons_self b (List.mem_cons_of_mem _ hb) ha hfb
        exact hnd'.1 (this ▸ hb)
      rw [hz, add_zero]
      exact hle a List.mem_cons_self

/-- In a duplicate-free list, if every member other than `a0` has value zero, the sum is the
value at `a0`. -/
theorem sum_eq_single_of_mem {α : Type} (f : α → ℚ) (a0 : α) :
    ∀ (l : List α), l.Nodup → a0 ∈ l → (∀ a ∈ l, a ≠ a0 → f a = 0) → (l.map f).sum = f a0
  | [], _, h, _ => by cases h
  | a :: l, hnd, hmem, hz => by
    have hnd' := List.nodup_cons.mp hnd
    rw [List.map_cons, List.sum_cons]
    by_cases ha : a = a0
    · subst ha
      have : (l.map f).sum = 0 := by
        apply List.sum_eq_zero
        intro y hy
        obtain ⟨b, hb, rfl⟩ := List.mem_map.mp hy
        exact hz b (List.mem_cons_of_mem _ hb) (fun hba => hnd'.1 (hba ▸ hb))
      rw [this, add_zero]
    · have hmem' : a0 ∈ l := by
        rcases List.mem_cons.mp hmem with h | h
        · exact absurd h.symm ha
        · exact h
      rw [hz a List.mem_cons_self ha, zero_add]
      exact sum_eq_single_of_mem f a0 l hnd'.2 hmem'
        (fun b hb => hz b (List.mem_cons_of_mem _ hb))

/-- Closed form of the partial geometric sum: `(1 - q)·(1 + q + … + q^(T-1)) = 1 - q^T`. -/
theorem geom_sum_closed (q : ℚ) : ∀ (T : Nat),
    (1 - q) * ((List.range T).map fun t => q ^ t).sum = 1 - q ^ T
  | 0 => by simp
  | T + 1 => by
    rw [geom_sum_succ, pow_succ]
    have ih := geom_sum_closed q T
    linear_combination q * ih

namespace Rand
variable {α : Type}

theorem E_zero (p : Rand α) : E p (fun _ => (0 : ℚ)) = 0 := by
  have := E_const_mul 0 (fun _ => (0 : ℚ)) p
  simpa using this

/-- Two pay-offs that agree on every value the computation can produce have the same
expectation. -/
theorem E_congr_All {P : α → Prop} (g h : α → ℚ) (hgh : ∀ a, P a → g a = h a) :
    ∀ (p : Rand α), All P p → E p g = E p h
  | .pure a, hp => hgh a hp
  | .draw n k, hp => by
    simp only [E_draw]
    congr 2
    apply List.map_congr_left
    intro i hi
    exact E_congr_All g h hgh (k i) (hp i (List.mem_range.mp hi))

/-- Monotonicity on the support. -/
theorem E_mono_All {P : α → Prop} (g h : α → ℚ) (hgh : ∀ a, P a → g a ≤ h a) :
    ∀ (p : Rand α), All P p → E p g ≤ E p h
  | .pure a, hp => hgh a hp
  | .draw n k, hp => by
    simp only [E_draw]
    apply div_le_div_of_nonneg_right _ (by exact_mod_cast Nat.zero_le n)
    apply List.sum_le_sum
    intro i hi
    exact E_mono_All g h hgh (k i) (hp i (List.mem_range.mp hi))

/-- A pay-off that vanishes on the support has expectation zero. -/
theorem E_zero_of_All {P : α → Prop} (g : α → ℚ) (hg : ∀ a, P a → g a = 0)
    (p : Rand α) (hp : All P p) : E p g = 0 := by
  rw [E_congr_All g (fun _ => 0) hg p hp, E_zero]

/-- Hence a non-zero expectation is witnessed by a point of the support. -/
theorem exists_of_E_ne_zero {P : α → Prop} (g : α → ℚ) (p : Rand α) (hp : All P p)
    (h : E p g ≠ 0) : ∃ a, P a ∧ g a ≠ 0 := by
  by_contra hno
  apply h
  apply E_zero_of_All g _ p hp
  intro a ha
  by_contra hga
  exact hno ⟨a, ha, hga⟩

theorem sum_replicate_le (c : ℚ) : ∀ (l : List ℚ), (∀ x ∈ l, x ≤ c) → l.sum ≤ l.length * c
  | [], _ => by simp
  | x :: l, h => by
    rw [List.sum_cons, List.length_cons]
    have h1 := h x List.mem_cons_self
    have h2 := sum_replicate_le c l (fun y hy => h y (List.mem_cons_of_mem _ hy))
    push_cast
    linarith

/-- A pay-off bounded by `c ≥ 0` has expectation at most `c` — whether or not the computation
has total mass one. -/
theorem E_le_const (g : α → ℚ) (c : ℚ) (hc : 0 ≤ c) (hg : ∀ a, g a ≤ c) :
    ∀ (p : Rand α), E p g ≤ c
  | .pure a => hg a
  | .draw n k => by
    simp only [E_draw]
    rcases Nat.eq_zero_or_pos n with h0 | hpos
    · subst h0; simpa using hc
    · have hn : (0 : ℚ) < n := by exact_mod_cast hpos
      rw [div_le_iff₀ hn]
      have := sum_replicate_le c ((List.range n).map fun i => E (k i) g) (by
        intro x hx
        obtain ⟨i, _, rfl⟩ := List.mem_map.mp hx
        exact E_le_const g c hc hg (k i))
      rw [List.length_map, List.length_range] at this
      linarith

end Rand
end Spg
