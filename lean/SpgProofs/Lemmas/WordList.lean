/-
  Helper lemmas for C08 / C10: `NewWordList` for every visiting order of the map.
-/
import Spg.Model.WordGen
namespace Spg

theorem mem_dedupW {w : Word} : ∀ {l : List Word}, w ∈ dedupW l ↔ w ∈ l
  | [] => by simp [dedupW]
  | a :: l => by
    simp only [dedupW, List.mem_cons, List.mem_filter, mem_dedupW (l := l)]
    constructor
    · rintro (h | ⟨h, _⟩)
      · exact Or.inl h
      · exact Or.inr h
    · rintro (h | h)
      · exact Or.inl h
      · by_cases hw : w = a
        · exact Or.inl hw
        · exact Or.inr ⟨h, by simpa using hw⟩

theorem nodup_dedupW : ∀ (l : List Word), (dedupW l).Nodup
  | [] => by simp [dedupW]
  | a :: l => by
    simp only [dedupW, List.nodup_cons, List.mem_filter]
    refine ⟨?_, List.Nodup.sublist List.filter_sublist (nodup_dedupW l)⟩
    rintro ⟨_, h⟩; simp at h

/-- The pass only removes. -/
theorem removeTwins_subset (title : Word → Word) :
    ∀ (order cur : List Word) (w : Word), w ∈ removeTwins title order cur → w ∈ cur := by
  intro order
  induction order with
  | nil => intro cur w h; simpa [removeTwins] using h
  | cons a rest ih =>
    intro cur w h
    simp only [removeTwins] at h
    split at h
    · split at h
      · exact (List.mem_filter.mp (ih _ w h)).1
      · exact ih _ w h
    · exact ih _ w h

theorem removeTwins_nodup (title : Word → Word) :
    ∀ (order cur : List Word), cur.Nodup → (removeTwins title order cur).Nodup := by
  intro order
  induction order with
  | nil => intro cur h; simpa [removeTwins] using h
  | cons a rest ih =>
    intro cur h
    simp only [removeTwins]
    split
    · split
      · exact ih _ (List.Nodup.sublist List.filter_sublist h)
      · exact ih _ h
    · exact ih _ h

/-- Whatever is removed is the title-cased form of another word that was present. -/
theorem removeTwins_removed (title : Word → Word) :
    ∀ (order cur : List Word) (w : Word), w ∈ cur → w ∉ removeTwins title order cur →
      ∃ u ∈ cur, u ≠ w ∧ title u = w := by
  intro order
  induction order with
  | nil => intro cur w hw hn; simp [removeTwins] at hn; exact absurd hw hn
  | cons a rest ih =>
    intro cur w hw hn
    simp only [removeTwins] at hn
    split at hn
    · rename_i ha
      split at hn
      · rename_i hc
        simp only [Bool.and_eq_true, bne_iff_ne, ne_eq] at hc
        by_cases hwc : w = title a
        · exact ⟨a, by simpa using ha, fun h => hc.2 (by rw [← hwc, h]), hwc.symm⟩
        · have hw' : w ∈ cur.filter (· != title a) := by
            simp [List.mem_filter, hw, hwc]
          obtain ⟨u, hu, h1, h2⟩ := ih _ w hw' hn
          exact ⟨u, (List.mem_filter.mp hu).1, h1, h2⟩
      · exact ih _ w hw hn
    · exact ih _ w hw hn

/-- A word that changes under title-casing removes its title-cased form, whenever it is
visited — it can never itself have been removed, because only fixed points of `title` are. -/
theorem removeTwins_deletes (title : Word → Word) (hid : ∀ w, title (title w) = title w) :
    ∀ (order cur : List Word) (u : Word), u ∈ order → u ∈ cur → title u ≠ u →
      title u ∉ removeTwins title order cur := by
  intro order
  induction order with
  | nil => intro cur u h; simp at h
  | cons a rest ih =>
    intro cur u hu hcur hne
    simp only [removeTwins]
    by_cases hau : a = u
    · subst hau
      have ha : cur.contains a = true := by simpa using hcur
      rw [if_pos ha]
      split
      · intro hmem
        have := removeTwins_subset title rest _ _ hmem
        simp [List.mem_filter] at this
      · rename_i hc
        intro hmem
        have hin := removeTwins_subset title rest _ _ hmem
        apply hc
        simp only [Bool.and_eq_true, bne_iff_ne, ne_eq]
        exact ⟨by simpa using hin, hne⟩
    · have hu' : u ∈ rest := by
        rcases List.mem_cons.mp hu with h | h
        · exact absurd h.symm hau
        · exact h
      split
      · split
        · rename_i hc
          apply ih _ u hu' _ hne
          simp only [List.mem_filter, bne_iff_ne, ne_eq, hcur, true_and]
          -- u is not a fixed point of title, title a is
          intro h; apply hne; rw [h, hid]
        · exact ih _ u hu' hcur hne
      · exact ih _ u hu' hcur hne

/-- **Kept-set specification**, for every visiting order that reaches every key. -/
theorem removeTwins_spec (title : Word → Word) (hid : ∀ w, title (title w) = title w)
    (order cur : List Word) (hcover : ∀ w ∈ cur, w ∈ order) (w : Word) :
    w ∈ removeTwins title order cur ↔ (w ∈ cur ∧ ¬ ∃ u ∈ cur, u ≠ w ∧ title u = w) := by
  constructor
  · intro h
    refine ⟨removeTwins_subset title order cur w h, ?_⟩
    rintro ⟨u, hu, hne, htw⟩
    have := removeTwins_deletes title hid order cur u (hcover u hu) hu (by rw [htw]; exact fun h => hne h.symm)
    rw [htw] at this
    exact this h
  · rintro ⟨hw, hno⟩
    apply Classical.byContradiction
    intro hn
    exact hno (removeTwins_removed title order cur w hw hn)

/-! ### `sortW` on a duplicate-free list is a permutation -/

theorem insW_perm (x : Word) : ∀ (ys : List Word), x ∉ ys → (insW x ys).Perm (x :: ys)
  | [], _ => by simp [insW]
  | y :: ys, h => by
    simp only [insW]
    have hxy : x ≠ y := fun e => h (by simp [e])
    have hx : x ∉ ys := fun e => h (List.mem_cons_of_mem _ e)
    split
    · exact List.Perm.refl _
    · have : (x == y) = false := by simpa using hxy
      simp only [this, Bool.false_eq_true, if_false]
      exact ((insW_perm x ys hx).cons y).trans (List.Perm.swap x y ys)

theorem sortW_perm : ∀ (l : List Word), l.Nodup → (sortW l).Perm l
  | [], _ => by simp [sortW]
  | a :: l, h => by
    have h' := List.nodup_cons.mp h
    have ih := sortW_perm l h'.2
    show (insW a (sortW l)).Perm (a :: l)
    have hnot : a ∉ sortW l := fun hm => h'.1 (ih.mem_iff.mp hm)
    exact (insW_perm a (sortW l) hnot).trans (ih.cons a)

end Spg
