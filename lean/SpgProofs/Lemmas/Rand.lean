/-
  General lemmas about the free monad of bounded draws: `All` (every leaf) and `run`.
-/
import Spg.Model.Draw
import SpgProofs.Properties.C01
namespace Spg
namespace Rand

variable {α β : Type}

theorem All_mono {P Q : α → Prop} (h : ∀ a, P a → Q a) : ∀ (p : Rand α), All P p → All Q p
  | .pure a, hp => h a hp
  | .draw _ k, hp => fun i hi => All_mono h (k i) (hp i hi)

/-- `All` through `bind`: if every result of `p` satisfies `P` and `f` maps `P`-values to
computations all of whose results satisfy `Q`, then so does `p >>= f`. -/
theorem All_bind {P : α → Prop} {Q : β → Prop} (f : α → Rand β) :
    ∀ (p : Rand α), All P p → (∀ a, P a → All Q (f a)) → All Q (p.bind f)
  | .pure a, hp, hf => hf a hp
  | .draw _ k, hp, hf => fun i hi => All_bind f (k i) (hp i hi) hf

theorem All_true : ∀ (p : Rand α), All (fun _ => True) p
  | .pure _ => trivial
  | .draw _ k => fun i _ => All_true (k i)

theorem All_bind_true {Q : β → Prop} (f : α → Rand β) (p : Rand α)
    (hf : ∀ a, All Q (f a)) : All Q (p.bind f) :=
  All_bind (P := fun _ => True) f p (All_true p) (fun a _ => hf a)

/-- The draws of a tape are in range, so whatever holds on every leaf holds of the result of
every run: statements about `All` are statements about all random streams. -/
theorem run_All {P : α → Prop} : ∀ (p : Rand α) (t : List Nat) (a : α) (rest : List Nat),
    All P p → p.run t = .done a rest → P a
  | .pure a, t, a', rest, hp, hr => by
    simp only [run] at hr; injection hr with h1 _; subst h1; exact hp
  | .draw n k, t, a, rest, hp, hr => by
    simp only [run] at hr
    cases hd : drawTape n t with
    | ok i r =>
      rw [hd] at hr
      have hi : i < n := by
        unfold drawTape at hd
        split at hd
        · cases hd
        · rename_i hn
          have hpos : 0 < n := by omega
          -- the accepted word produced i through `step`
          have : ∀ (t : List Nat), drawWords n t = .ok i r → i < n := by
            intro t
            induction t with
            | nil => intro h; cases h
            | cons v t ih =>
              intro h
              simp only [drawWords] at h
              cases hs : step n v with
              | none => rw [hs] at h; exact ih h
              | some k' =>
                rw [hs] at h
                injection h with h1 _; subst h1
                exact C01.step_lt n v k' hpos hs
          exact this t hd
      exact run_All (k i) r a rest (hp i hi) hr
    | fault => rw [hd] at hr; cases hr
    | zero => rw [hd] at hr; cases hr

end Rand
end Spg
