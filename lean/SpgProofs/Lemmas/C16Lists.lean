/-
  The heavy part of C16: kernel evaluation over the two shipped lists (regenerated data). Kept in
  its own module so that it is re-checked only when the lists themselves change, not whenever
  any other regenerated fact does. The statements are restated, by name, in Properties/C16.lean.
-/
import Spg.Generated.AgileWords
import Spg.Generated.AgileSyllables
namespace Spg.C16Lists
open Spg.Generated

/-! ### The shipped lists -/

/-- Strictly increasing (hence duplicate-free). -/
def sortedB : List Nat → Bool
  | a :: b :: rest => a < b && sortedB (b :: rest)
  | _ => true

theorem sortedB_pairwise : ∀ (l : List Nat), sortedB l = true → l.Pairwise (· < ·)
  | [], _ => List.Pairwise.nil
  | [_], _ => by simp
  | a :: b :: rest, h => by
    simp only [sortedB, Bool.and_eq_true, decide_eq_true_eq] at h
    have ih := sortedB_pairwise (b :: rest) h.2
    refine List.pairwise_cons.mpr ⟨?_, ih⟩
    intro c hc
    rcases List.mem_cons.mp hc with rfl | hc
    · exact h.1
    · exact Nat.lt_trans h.1 ((List.pairwise_cons.mp ih).1 c hc)

/-- Digits of `v` in base 27 from the least significant: zeros (padding) may only come before
the first non-zero digit is seen; after `k` digits nothing may remain. -/
def wfAux : Nat → Nat → Bool → Bool
  | 0, v, seen => v == 0 && seen
  | k + 1, v, seen =>
    if v % 27 == 0 then !seen && wfAux k (v / 27) false else wfAux k (v / 27) true

/-- An encoded entry is a word of 1 to 8 letters a-z: its eight base-27 digits are a non-empty
run of digits 1..26 (a = 1 … z = 26), left-aligned, followed by zeros only. -/
def wellFormed (v : Nat) : Bool := wfAux 8 v false

/-- For instance "aback" (1,2,1,3,11 then three zeros) is well formed; a gap, an empty entry and
an over-long entry are not. -/
example : wellFormed ((((((1 * 27 + 2) * 27 + 1) * 27 + 3) * 27 + 11) * 27 + 0) * 27 * 27) = true ∧
    wellFormed ((1 * 27 + 0) * 27 + 1) = false ∧ wellFormed 0 = false ∧ wellFormed (27 ^ 8) = false := by
  decide

set_option maxRecDepth 100000 in
/-- The shipped word list is strictly sorted — so it has no duplicates — in source order. -/
theorem agileWords_sorted : sortedB agileWordsChunks.flatten = true := by decide +kernel

set_option maxRecDepth 100000 in
theorem agileSyllables_sorted : sortedB agileSyllablesChunks.flatten = true := by decide +kernel

theorem agileWords_nodup : agileWordsChunks.flatten.Nodup :=
  (sortedB_pairwise _ agileWords_sorted).imp (fun h => Nat.ne_of_lt h)

theorem agileSyllables_nodup : agileSyllablesChunks.flatten.Nodup :=
  (sortedB_pairwise _ agileSyllables_sorted).imp (fun h => Nat.ne_of_lt h)

set_option maxRecDepth 100000 in
/-- Every entry of both lists is a non-empty lower-case word a-z (and was encodable at all). -/
theorem lists_lower :
    agileWordsChunks.flatten.all wellFormed = true ∧ agileWordsBad = [] ∧
    agileSyllablesChunks.flatten.all wellFormed = true ∧ agileSyllablesBad = [] := by
  decide +kernel

set_option maxRecDepth 100000 in
/-- **The embedded lists are identical to their source data files**, entry for entry, in order. -/
theorem lists_match_testdata :
    agileWordsChunks = agWordlistTxtChunks ∧ agileWordsCount = agWordlistTxtCount ∧ agWordlistTxtBad = [] ∧
    agileSyllablesChunks = agSyllablesTxtChunks ∧ agileSyllablesCount = agSyllablesTxtCount ∧ agSyllablesTxtBad = [] := by
  decide +kernel

set_option maxRecDepth 100000 in
/-- Nothing was lost in the encoding: the number of encoded entries is the number of entries. -/
theorem lists_counts :
    agileWordsChunks.flatten.length = agileWordsCount ∧ agileSyllablesChunks.flatten.length = agileSyllablesCount := by
  decide +kernel

end Spg.C16Lists
