/-
  Facts about the model of `strings.Fields` (`Spg.Fields.fields`), which together pin it down:
  * `fields_flatten`: the fields, concatenated, are exactly the non-space characters of the text,
    in order — nothing is lost, added or reordered;
  * `fields_spec`: no field is empty and no field contains a space character;
  * `fields_render`, `fields_render_last`: a text written as words separated by non-empty runs of
    space characters (any of them: blanks, tabs, CR LF, U+00A0, U+3000 …), with or without leading
    and trailing runs, splits into exactly those words.
-/
import Spg.Model.Fields

namespace Spg.Fields

theorem go_flatten : ∀ (s cur : List Nat) (acc : List (List Nat)),
    (go s cur acc).flatten = acc.reverse.flatten ++ cur.reverse ++ s.filter (fun c => !isSpace c)
  | [], cur, acc => by
    unfold go
    by_cases h : cur.isEmpty
    · have : cur = [] := List.isEmpty_iff.mp h
      subst this; simp
    · simp [h, List.flatten_append]
  | c :: rest, cur, acc => by
    unfold go
    by_cases hc : isSpace c
    · simp only [hc, if_true]
      rw [go_flatten rest [] _]
      by_cases h : cur.isEmpty
      · have : cur = [] := List.isEmpty_iff.mp h
        subst this; simp [hc]
      · simp [h, hc, List.flatten_append]
    · simp only [hc, Bool.false_eq_true, if_false]
      rw [go_flatten rest (c :: cur) acc]
      simp [hc, List.append_assoc]

/-- **Nothing lost, nothing added, nothing reordered**: the fields concatenated are the non-space
characters of the text. -/
theorem fields_flatten (s : List Nat) : (fields s).flatten = s.filter (fun c => !isSpace c) := by
  simp [fields, go_flatten]

def Good (w : List Nat) : Prop := w ≠ [] ∧ ∀ c ∈ w, isSpace c = false

theorem go_spec : ∀ (s cur : List Nat) (acc : List (List Nat)),
    (∀ w ∈ acc, Good w) → (∀ c ∈ cur, isSpace c = false) → ∀ w ∈ go s cur acc, Good w
  | [], cur, acc, hacc, hcur => by
    unfold go
    intro w hw
    by_cases h : cur.isEmpty
    · simp only [h, if_true, List.mem_reverse] at hw; exact hacc w hw
    · simp only [h, Bool.false_eq_true, if_false, List.mem_reverse, List.mem_cons] at hw
      rcases hw with rfl | hw
      · refine ⟨?_, ?_⟩
        · intro he
          have : cur = [] := by simpa using he
          exact h (by simp [this])
        · intro c hc; exact hcur c (by simpa using hc)
      · exact hacc w hw
  | c :: rest, cur, acc, hacc, hcur => by
    unfold go
    by_cases hc : isSpace c
    · simp only [hc, if_true]
      apply go_spec rest [] _ _ (by simp)
      intro w hw
      by_cases h : cur.isEmpty
      · simp only [h, if_true] at hw; exact hacc w hw
      · simp only [h, Bool.false_eq_true, if_false, List.mem_cons] at hw
        rcases hw with rfl | hw
        · refine ⟨?_, ?_⟩
          · intro he
            have : cur = [] := by simpa using he
            exact h (by simp [this])
          · intro c' hc'; exact hcur c' (by simpa using hc')
        · exact hacc w hw
    · simp only [hc, Bool.false_eq_true, if_false]
      apply go_spec rest (c :: cur) acc hacc
      intro c' hc'
      rcases List.mem_cons.mp hc' with rfl | h
      · simpa using hc
      · exact hcur c' h

/-- **No field is empty, no field contains a space character.** -/
theorem fields_spec (s : List Nat) : ∀ w ∈ fields s, w ≠ [] ∧ ∀ c ∈ w, isSpace c = false :=
  go_spec s [] [] (by simp) (by simp)

theorem go_word : ∀ (w : List Nat), (∀ c ∈ w, isSpace c = false) → ∀ (rest cur : List Nat) (acc : List (List Nat)),
    go (w ++ rest) cur acc = go rest (w.reverse ++ cur) acc
  | [], _, rest, cur, acc => by simp
  | c :: w, h, rest, cur, acc => by
    have hc : isSpace c = false := h c (by simp)
    have ih := go_word w (fun c' hc' => h c' (by simp [hc'])) rest (c :: cur) acc
    simp only [List.cons_append, List.reverse_cons, List.append_assoc, List.singleton_append, go, hc,
      Bool.false_eq_true, if_false]
    exact ih

theorem go_spaces : ∀ (sp : List Nat), (∀ c ∈ sp, isSpace c = true) → ∀ (rest : List Nat) (acc : List (List Nat)),
    go (sp ++ rest) [] acc = go rest [] acc
  | [], _, rest, acc => by simp
  | c :: sp, h, rest, acc => by
    have hc : isSpace c = true := h c (by simp)
    simp only [List.cons_append, go, hc, if_true, List.isEmpty_nil]
    exact go_spaces sp (fun c' hc' => h c' (by simp [hc'])) rest acc

theorem go_spaces_after : ∀ (sp : List Nat), sp ≠ [] → (∀ c ∈ sp, isSpace c = true) →
    ∀ (rest cur : List Nat) (acc : List (List Nat)), cur ≠ [] →
    go (sp ++ rest) cur acc = go rest [] (cur.reverse :: acc)
  | [], hne, _, _, _, _, _ => absurd rfl hne
  | c :: sp, _, h, rest, cur, acc, hcur => by
    have hc : isSpace c = true := h c (by simp)
    have hce : cur.isEmpty = false := by
      cases cur with
      | nil => exact absurd rfl hcur
      | cons _ _ => rfl
    simp only [List.cons_append, go, hc, if_true, hce, Bool.false_eq_true, if_false]
    exact go_spaces sp (fun c' hc' => h c' (by simp [hc'])) rest _

/-- A text as a sequence of (word, run of spaces after it). -/
def render : List (List Nat × List Nat) → List Nat
  | [] => []
  | (w, sp) :: t => w ++ sp ++ render t

def Piece (p : List Nat × List Nat) : Prop :=
  p.1 ≠ [] ∧ (∀ c ∈ p.1, isSpace c = false) ∧ p.2 ≠ [] ∧ (∀ c ∈ p.2, isSpace c = true)

theorem go_render : ∀ (l : List (List Nat × List Nat)), (∀ p ∈ l, Piece p) → ∀ (rest : List Nat) (acc : List (List Nat)),
    go (render l ++ rest) [] acc = go rest [] ((l.map Prod.fst).reverse ++ acc)
  | [], _, rest, acc => by simp [render]
  | (w, sp) :: t, h, rest, acc => by
    obtain ⟨hw1, hw2, hs1, hs2⟩ := h (w, sp) (by simp)
    have ht : ∀ p ∈ t, Piece p := fun p hp => h p (by simp [hp])
    simp only [render, List.append_assoc]
    rw [go_word w hw2, List.append_nil, go_spaces_after sp hs1 hs2 _ _ _ (by simpa using hw1), List.reverse_reverse,
      go_render t ht rest (w :: acc)]
    simp

/-- **Words separated by non-empty runs of space characters split into exactly those words** —
whatever the space characters are, with any leading run, when the text ends with a run. -/
theorem fields_render (lead : List Nat) (hlead : ∀ c ∈ lead, isSpace c = true)
    (l : List (List Nat × List Nat)) (h : ∀ p ∈ l, Piece p) :
    fields (lead ++ render l) = l.map Prod.fst := by
  unfold fields
  rw [go_spaces lead hlead]
  have := go_render l h [] []
  simp only [List.append_nil] at this
  rw [this]
  simp [go]

/-- …and when the text ends with a word. -/
theorem fields_render_last (lead : List Nat) (hlead : ∀ c ∈ lead, isSpace c = true)
    (l : List (List Nat × List Nat)) (h : ∀ p ∈ l, Piece p) (w : List Nat) (hw : w ≠ []) (hws : ∀ c ∈ w, isSpace c = false) :
    fields (lead ++ render l ++ w) = l.map Prod.fst ++ [w] := by
  unfold fields
  rw [List.append_assoc, go_spaces lead hlead, go_render l h w [], List.append_nil]
  have := go_word w hws [] [] ((l.map Prod.fst).reverse)
  simp only [List.append_nil] at this
  rw [this]
  have hne : w.reverse.isEmpty = false := by
    cases w with
    | nil => exact absurd rfl hw
    | cons a b => simp
  simp [go, hne]

/-- Non-vacuity: CR LF line ends, a no-break space, an ideographic space, a leading blank line. -/
example : fields [10, 97, 98, 13, 10, 99, 0xA0, 100, 0x3000, 101] = [[97, 98], [99], [100], [101]] := by decide

end Spg.Fields
