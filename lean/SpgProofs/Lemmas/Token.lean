/-
  Helper lemmas for C11 / C12: the transcribed Tokenize equals its specification.
-/
import Spg.Model.Token
namespace Spg
open Tokens

variable {α : Type}

/-- Embedding of the specification's result into the three-outcome type. -/
def liftRes : Option (List (Token α)) → TokRes α
  | some ts => .ok ts
  | none => .err

theorem slice_drop_take (chars : List α) (prev tl : Nat) (h : prev + tl ≤ chars.length) :
    TokenizeGo.slice chars prev (prev + tl) = some ((chars.drop prev).take tl) := by
  unfold TokenizeGo.slice
  rw [if_pos ⟨by omega, h⟩]
  congr 2; omega

theorem loopVar_eq (chars : List α) (typeOf : Nat → Nat) (n : Nat) :
    ∀ (ls : List Nat) (i prev : Nat), prev ≤ chars.length → i + ls.length ≤ n →
      TokenizeGo.loopVar chars typeOf n i prev ls = liftRes (slices typeOf i ls (chars.drop prev)) := by
  intro ls
  induction ls with
  | nil => intro i prev _ _; simp [TokenizeGo.loopVar, slices, liftRes]
  | cons tl rest ih =>
    intro i prev hprev hn
    simp only [TokenizeGo.loopVar, slices, List.length_drop]
    by_cases hgt : prev + tl > chars.length
    · have : tl > chars.length - prev := by omega
      simp [hgt, this, liftRes]
    · have hle : prev + tl ≤ chars.length := by omega
      have : ¬ tl > chars.length - prev := by omega
      rw [if_neg hgt, if_neg this, slice_drop_take chars prev tl hle]
      have hst : TokenizeGo.store n i = true := by
        simp [TokenizeGo.store]; simp at hn; omega
      simp only [hst, Bool.not_true, Bool.false_eq_true, if_false]
      have hrec := ih (i + 1) (prev + tl) hle (by simp at hn ⊢; omega)
      rw [hrec, List.drop_drop]
      cases slices typeOf (i + 1) rest (List.drop (prev + tl) chars) <;> simp [liftRes]

theorem getElem?_of_drop_cons {l : List Nat} {i : Nat} {a : Nat} {rest : List Nat}
    (h : l.drop i = a :: rest) : l[i]? = some a ∧ l.drop (i + 1) = rest := by
  constructor
  · have := List.getElem?_drop (xs := l) (i := i) (j := 0)
    rw [h] at this; simpa using this.symm
  · have : l.drop (i + 1) = (l.drop i).drop 1 := by rw [List.drop_drop]
    rw [this, h]; rfl

theorem loopFull_eq_aux (chars : List α) (ti : List Nat) (n : Nat) :
    ∀ (k : Nat) (ls : List Nat) (fuel i prev : Nat), ls.length = 2 * k → ti.drop i = ls →
      k < fuel → prev ≤ chars.length → i / 2 + k ≤ n →
      TokenizeGo.loopFull chars ti n fuel i prev = liftRes (slicesFull ls (chars.drop prev)) := by
  intro k
  induction k with
  | zero =>
    intro ls fuel i prev hlen hd hf _ _
    have hnil : ls = [] := List.length_eq_zero_iff.mp (by omega)
    subst hnil
    cases fuel with
    | zero => omega
    | succ fuel =>
      have hlt : ¬ i < ti.length := by
        intro h
        have : (ti.drop i).length = ti.length - i := List.length_drop
        rw [hd] at this; simp at this; omega
      simp [TokenizeGo.loopFull, hlt, slicesFull, liftRes]
  | succ k ih =>
    intro ls fuel i prev hlen hd hf hprev hn
    match ls, hlen with
    | tl :: tt :: rest', hlen =>
      cases fuel with
      | zero => omega
      | succ fuel =>
        obtain ⟨h0, hd1⟩ := getElem?_of_drop_cons hd
        obtain ⟨h1, hd2⟩ := getElem?_of_drop_cons hd1
        have hlt : i < ti.length := by
          have : (ti.drop i).length = ti.length - i := List.length_drop
          rw [hd] at this; simp at this; omega
        simp only [TokenizeGo.loopFull, hlt, if_true, h0, h1, slicesFull, List.length_drop]
        by_cases hgt : prev + tl > chars.length
        · have : tl > chars.length - prev := by omega
          simp [hgt, this, liftRes]
        · have hle : prev + tl ≤ chars.length := by omega
          have : ¬ tl > chars.length - prev := by omega
          rw [if_neg hgt, if_neg this, slice_drop_take chars prev tl hle]
          simp only [List.length_cons] at hlen
          have hst : TokenizeGo.store n (i / 2) = true := by
            simp [TokenizeGo.store]; omega
          simp only [hst, Bool.not_true, Bool.false_eq_true, if_false]
          have hrec := ih rest' fuel (i + 2) (prev + tl) (by omega) hd2 (by omega) hle (by omega)
          rw [hrec, List.drop_drop]
          cases slicesFull rest' (List.drop (prev + tl) chars) <;> simp [liftRes]
    | [], hlen => simp at hlen
    | [_], hlen => simp at hlen; omega

end Spg
