/-
  C06 (continued) — the two separator fields of a wordlist recipe.

  The Go struct has `SeparatorChar` and `SeparatorFunc` ("If nil just use SeparatorChar"). What is
  generated and what `Entropy()` reports must go by the SAME one of them — otherwise the reported
  entropy counts bits of a separator function whose output never appears (or the reverse), and
  some password is likelier than `2^-Entropy`. In the model both `generate` and `entropy` see the
  fields only through `WLRecipe.sep`:

  * `generate_congr`, `entropy_congr`: two recipes with the same list, length, scheme and the same
    effective separator `sep` generate, and report, the same — whatever their raw fields.
  * `sepChar_irrelevant`: with a function set, `SeparatorChar` plays no part in either.
  * `sepFunc_none`: without a function the separator is the constant `SeparatorChar`, no
    separator draw is made and no separator bits are counted.
  All the bounds of C06/C06b are stated about `r.sep`, so they hold for every combination of the
  two fields. The tie: operations that set both fields (`sepchar=` next to a function).
-/
import SpgProofs.Properties.C06b

namespace Spg.C06
open Spg Rand WLRecipe

variable (cfg : Cfg) (title : Word → Word)

theorem sep_of_func (r : WLRecipe) (f : Sep) (h : r.sepFunc = some f) : r.sep = f := by
  simp [WLRecipe.sep, h]

theorem sep_of_char (r : WLRecipe) (h : r.sepFunc = none) : r.sep = .char r.sepChar := by
  simp [WLRecipe.sep, h]

theorem body_congr (r r' : WLRecipe) (hs : r.sep = r'.sep) (words : List Word) (caps : Nat → Bool) (L : Nat) :
    ∀ (n i : Nat), body cfg title r words caps L i n = body cfg title r' words caps L i n
  | 0, _ => by simp [body]
  | n + 1, i => by
    unfold body
    simp only [hs, body_congr r r' hs words caps L n (i + 1)]

theorem capChoice_congr (r r' : WLRecipe) (hc : r.capitalize = r'.capitalize) (L : Nat) :
    capChoice r L = capChoice r' L := by
  simp [capChoice, hc]

theorem entropy_congr (r r' : WLRecipe) (hl : r.list = r'.list) (hL : r.length = r'.length)
    (hc : r.capitalize = r'.capitalize) (hs : r.sep = r'.sep) : entropy cfg r = entropy cfg r' := by
  simp [entropy, WLRecipe.size, capFactor, allCap, hl, hL, hc, hs]

/-- **What a recipe generates depends on its two separator fields only through `sep`.** -/
theorem generate_congr (r r' : WLRecipe) (hl : r.list = r'.list) (hL : r.length = r'.length)
    (hc : r.capitalize = r'.capitalize) (hs : r.sep = r'.sep) :
    generate cfg title r = generate cfg title r' := by
  unfold generate
  rw [hl, hL]
  cases r'.list with
  | none => rfl
  | some wl =>
    simp only [capChoice_congr r r' hc, entropy_congr cfg r r' hl hL hc hs, body_congr cfg title r r' hs]

/-- **With a separator function set, `SeparatorChar` plays no part** — neither in the passwords
nor in the reported entropy. -/
theorem sepChar_irrelevant (r : WLRecipe) (f : Sep) (h : r.sepFunc = some f) (c : Word) :
    generate cfg title { r with sepChar := c } = generate cfg title r ∧
    entropy cfg { r with sepChar := c } = entropy cfg r := by
  have hs : ({ r with sepChar := c } : WLRecipe).sep = r.sep := by simp [WLRecipe.sep, h]
  exact ⟨generate_congr cfg title _ r rfl rfl rfl hs, entropy_congr cfg _ r rfl rfl rfl hs⟩

/-- **Without a function** the separator is the constant `SeparatorChar`: the entropy makes no
draw and counts no separator bits. -/
theorem sepFunc_none (r : WLRecipe) (h : r.sepFunc = none) :
    entropy cfg r = .pure (((WLRecipe.size r : Nat) : Int) ^ r.length.toNat * capFactor r r.length.toNat) := by
  simp [entropy, sep_of_char r h]

/-- Non-vacuity: a recipe with both fields set goes by the function (a hyphen in the character
field, the constant "·" function): one stream, tokens with the function's separator. -/
def exBoth : WLRecipe :=
  { list := some { words := [[97], [98]], unCap := 0 }, length := 2,
    sepChar := [45], sepFunc := some (.const [183]), capitalize := "none" }

example : exBoth.sep = .const [183] := rfl

example :
    (match (generate { tbl := [], maxTrials := 1, frNum := 1, frDen := 1 } id exBoth).run [1, 0] with
     | .done (.ok p) _ => p.tokens.map (·.value) | _ => []) = [[98], [183], [97]] := by
  decide

end Spg.C06
