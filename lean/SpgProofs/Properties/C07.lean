/-
  C07 — Character-recipe entropy = log2 of the exact number of satisfying passwords.

  `countIE U reqs L` is the code's count (after the inclusion–exclusion repair 8a2e914): the sum
  over all sub-families S of the required sets of (-1)^|S| · |U \ ⋃S|^L.
  `count_eq_card`: it equals the number of strings of length L over U that contain a character
  from every required set — for EVERY overlap pattern between the sets and with U, any number
  of sets, any length (no bound: the quantities are unbounded integers). With a duplicate-free
  alphabet (`alphabet_nodup`) these strings are pairwise distinct (`strings_nodup`), so it is
  the number of distinct satisfying passwords. Consequences: never negative, zero exactly when
  nothing satisfies, `N^L` without requirements, and independent of the order in which the
  sets are listed or the power set is traversed. Floating point (`log2`, NaN-freeness of the
  float evaluation) is compared by the harness against the exact integer, not proved.
  `History` keeps the pre-repair recursion and its negative count.
-/
import SpgProofs.Lemmas.Strings
import Spg.Generated.Facts
import SpgProofs.Lemmas.FactPreds
namespace Spg.C07
open Spg

/-- Number of strings of length `L` over `U` hitting every set of `reqs`. -/
def card (U : List Nat) (reqs : List (List Nat)) (L : Nat) : Nat :=
  ((strings U L).filter (hitsAll reqs)).length

theorem sdiff_append (U R X : List Nat) : sdiff U (R ++ X) = sdiff (sdiff U R) X := by
  simp only [sdiff, List.filter_filter]
  apply List.filter_congr
  intro c _
  simp only [List.contains_append, Bool.not_or, Bool.and_comm]

theorem sum_append_int (a b : List Int) : (a ++ b).sum = a.sum + b.sum := by
  induction a with
  | nil => simp
  | cons x a ih => simp [ih, Int.add_assoc]

theorem sum_map_neg_int (l : List Int) : (l.map fun x => -x).sum = -l.sum := by
  induction l with
  | nil => simp
  | cons x l ih => simp [ih, Int.neg_add]

/-- One required set at a time: the count with `R` is the count without it minus the count of
what avoids `R`. -/
theorem countIE_cons (U R : List Nat) (Rs : List (List Nat)) (L : Nat) :
    countIE U (R :: Rs) L = countIE U Rs L - countIE (sdiff U R) Rs L := by
  unfold countIE
  simp only [subfamilies, List.map_append, List.map_map, sum_append_int]
  have h2 : ((subfamilies Rs).map ((fun S => (if S.length % 2 = 1 then (-1 : Int) else 1) *
        ((sdiff U S.flatten).length : Int) ^ L) ∘ fun S => R :: S)) =
      ((subfamilies Rs).map fun S => (if S.length % 2 = 1 then (-1 : Int) else 1) *
        ((sdiff (sdiff U R) S.flatten).length : Int) ^ L).map (fun x => -x) := by
    rw [List.map_map]
    apply List.map_congr_left
    intro S _
    simp only [Function.comp, List.length_cons, List.flatten_cons, sdiff_append]
    by_cases h : S.length % 2 = 1
    · have : ¬ (S.length + 1) % 2 = 1 := by omega
      simp [h, this]
    · have : (S.length + 1) % 2 = 1 := by omega
      simp [h, this]
  rw [h2, sum_map_neg_int]
  omega

theorem sdiff_nil (U : List Nat) : sdiff U [] = U := by
  unfold sdiff; apply List.filter_eq_self.mpr; intro c _; rfl

theorem countIE_nil (U : List Nat) (L : Nat) : countIE U [] L = (U.length : Int) ^ L := by
  simp [countIE, subfamilies, sdiff_nil]

theorem countP_split {α : Type} (p q r : α → Bool) (h : ∀ a, p a = (q a || r a))
    (hd : ∀ a, ¬ (q a = true ∧ r a = true)) :
    ∀ (l : List α), l.countP p = l.countP q + l.countP r
  | [] => rfl
  | a :: l => by
    rw [List.countP_cons, List.countP_cons, List.countP_cons, countP_split p q r h hd l, h a]
    have := hd a
    cases hq : q a <;> cases hr : r a <;> simp_all <;> omega

theorem any_eq_not_all_not (R s : List Nat) :
    (s.any fun c => R.contains c) = !(s.all fun c => !R.contains c) := by
  induction s with
  | nil => rfl
  | cons c s ih => rw [List.any_cons, List.all_cons, ih, Bool.not_and, Bool.not_not]

/-- The same recursion for the number of satisfying strings: those hitting all of `Rs` split into
those that also hit `R` and those that avoid `R` — and the latter are the strings over `U \ R`. -/
theorem card_cons (U R : List Nat) (Rs : List (List Nat)) (L : Nat) :
    card U Rs L = card U (R :: Rs) L + card (sdiff U R) Rs L := by
  unfold card
  rw [← filter_avoid_strings U R L, List.filter_filter, ← List.countP_eq_length_filter,
    ← List.countP_eq_length_filter, ← List.countP_eq_length_filter]
  apply countP_split
  · intro s
    simp only [hitsAll, List.all_cons, any_eq_not_all_not R s]
    cases (s.all fun c => !R.contains c) <;> cases (Rs.all fun R => s.any fun c => R.contains c) <;> rfl
  · intro s
    simp only [hitsAll, List.all_cons, any_eq_not_all_not R s]
    cases (s.all fun c => !R.contains c) <;> simp

/-- **The count is exact**: the number of strings over `U` of length `L` that hit every
required set, whatever the overlaps. -/
theorem count_eq_card : ∀ (reqs : List (List Nat)) (U : List Nat) (L : Nat),
    countIE U reqs L = (card U reqs L : Int)
  | [], U, L => by
    rw [countIE_nil, card]
    have : (strings U L).filter (hitsAll []) = strings U L := by
      apply List.filter_eq_self.mpr; intro s _; rfl
    rw [this, strings_length]; simp
  | R :: Rs, U, L => by
    rw [countIE_cons, count_eq_card Rs U L, count_eq_card Rs (sdiff U R) L, card_cons U R Rs L]
    omega

/-- Never negative (so `log2` is never taken of a negative number: no NaN from the count). -/
theorem count_nonneg (reqs : List (List Nat)) (U : List Nat) (L : Nat) : 0 ≤ countIE U reqs L := by
  rw [count_eq_card]; exact Int.natCast_nonneg _

/-- Zero — entropy `-Inf` — exactly when no string satisfies the recipe. -/
theorem count_zero_iff (reqs : List (List Nat)) (U : List Nat) (L : Nat) :
    countIE U reqs L = 0 ↔ ∀ s ∈ strings U L, hitsAll reqs s = false := by
  rw [count_eq_card, card]
  constructor
  · intro h s hs
    have h0 : ((strings U L).filter (hitsAll reqs)).length = 0 := by exact_mod_cast h
    have hnil := List.length_eq_zero_iff.mp h0
    have := List.filter_eq_nil_iff.mp hnil s hs
    simpa using this
  · intro h
    have : (strings U L).filter (hitsAll reqs) = [] := by
      apply List.filter_eq_nil_iff.mpr; intro s hs; simp [h s hs]
    simp [this]

/-- Without requirements the count is `N^L`: the `Length * log2(size)` path and the counting
path agree. -/
theorem count_simple (U : List Nat) (L : Nat) : countIE U [] L = (U.length : Int) ^ L := countIE_nil U L

/-- The order in which the required sets are listed (or the power set traversed) is irrelevant. -/
theorem countIE_perm (reqs₁ reqs₂ : List (List Nat)) (h : reqs₁.Perm reqs₂) (U : List Nat) (L : Nat) :
    countIE U reqs₁ L = countIE U reqs₂ L := by
  rw [count_eq_card, count_eq_card, card, card]
  congr 2
  apply List.filter_congr
  intro s _
  simp only [hitsAll]
  rw [Bool.eq_iff_iff, List.all_eq_true, List.all_eq_true]
  exact ⟨fun hh R hR => hh R (h.mem_iff.mpr hR), fun hh R hR => hh R (h.mem_iff.mp hR)⟩

/-! ### For recipes -/

variable (cfg : Cfg) (r : CharRecipe)

/-- `passes` is `hitsAll` over the non-empty required sets. -/
theorem passes_eq_hitsAll (s : List Nat) :
    r.passes cfg.tbl s = hitsAll (r.effectiveRequired cfg) s := by
  unfold CharRecipe.passes CharRecipe.effectiveRequired hitsAll
  induction r.requiredSets cfg.tbl with
  | nil => rfl
  | cons R Rs ih =>
    simp only [List.all_cons, List.filter_cons]
    by_cases hR : R.isEmpty = true
    · simp [hR, ih]
    · simp [hR, ih]

/-- **`r.n()` is the number of strings Generate can return**: strings of length `Length` over the
alphabet that pass the requirement filter. -/
theorem recipe_count_eq_card :
    r.count cfg =
      (((strings (r.alphabet cfg.tbl) r.length.toNat).filter fun s => r.passes cfg.tbl s).length : Int) := by
  unfold CharRecipe.count
  rw [count_eq_card, card]
  congr 2
  apply List.filter_congr
  intro s _
  rw [passes_eq_hitsAll]

/-- …and these strings are pairwise distinct: the alphabet has no repeats. -/
theorem satisfying_strings_nodup :
    ((strings (r.alphabet cfg.tbl) r.length.toNat).filter fun s => r.passes cfg.tbl s).Nodup :=
  List.Nodup.sublist List.filter_sublist (strings_nodup (CharRecipe.alphabet_nodup cfg.tbl r) _)

/-- What `Entropy()` takes the log of is, on both of its paths, that exact number — provided
every required set kept a member or there are none (otherwise see C13 / the harness: emptied
sets are ignored by both the filter and the count). -/
theorem entropyD_eq_card :
    r.entropyD cfg =
      (((strings (r.alphabet cfg.tbl) r.length.toNat).filter fun s => r.passes cfg.tbl s).length : Int) := by
  unfold CharRecipe.entropyD
  split
  · -- no effective requirement: every string passes
    rename_i hU
    have hall : ∀ s, r.passes cfg.tbl s = true := by
      intro s
      rw [CharRecipe.passes_iff]
      intro R hR
      left
      cases hRe : R with
      | nil => rfl
      | cons c cs =>
        exfalso
        have hc : c ∈ r.requiredUnion cfg.tbl := by
          simp only [CharRecipe.requiredUnion, mem_norm, List.mem_flatten]
          exact ⟨R, hR, by rw [hRe]; simp⟩
        rw [List.isEmpty_iff.mp hU] at hc; cases hc
    have : (strings (r.alphabet cfg.tbl) r.length.toNat).filter (fun s => r.passes cfg.tbl s) =
        strings (r.alphabet cfg.tbl) r.length.toNat := by
      apply List.filter_eq_self.mpr; intro s _; exact hall s
    rw [this, strings_length]; simp [CharRecipe.total, CharRecipe.size]
  · exact recipe_count_eq_card cfg r

/-- `Entropy()` is a function of the recipe alone in the code as well as in the model: the package
keeps no state in which an earlier evaluation could be remembered — its package-level variables
are plain shipped data and configuration, never assigned, and the presets. A memo table or cache
(a `sync.Map`, a map that is written) falsifies this. -/
theorem no_memo_state : FactPreds.packageStateOK = true ∧
    (Generated.Facts.sharedWrites.filter fun w => w.2.2 == "pkgvar") = [] := by decide

/-! ### History: the count before the repair -/
namespace History

/-- The pre-repair recursion `n(allowed, required) = |∪|^L − Σ_{S ⊊ required} n(allowed, S)`,
transcribed (sets as lists, sub-families by position). `fuel` bounds the recursion depth. -/
def nOld (allowed : List Nat) (L : Nat) : Nat → List (List Nat) → Int
  | 0, _ => 0
  | fuel + 1, required =>
    ((norm (allowed ++ required.flatten)).length : Int) ^ L -
      (((subfamilies required).filter fun S => S.length < required.length).map
        fun S => nOld allowed L fuel S).sum

/-- With overlapping required sets the old recursion went negative: Allow Letters (52 characters,
here 52 code points), Require Digits, RequireSets ["357"], Length 8 — the value the unrepaired
implementation returned, whose `Entropy()` was NaN. -/
theorem nOld_negative_counterexample :
    let letters := (List.range 52).map (· + 100)
    let digits := (List.range 10).map (· + 48)
    nOld letters 8 3 [[51, 53, 55], digits] = -30274209359169 := by
  decide

/-- The repaired count on the same recipe: 62^8 − 59^8. -/
theorem countIE_same_recipe :
    let letters := (List.range 52).map (· + 100)
    let digits := (List.range 10).map (· + 48)
    countIE (norm (letters ++ digits)) [[51, 53, 55], digits] 8 = 71509667980575 := by
  decide

end History

/-! ### Non-vacuity -/

/-- Three overlapping required sets over a five-character alphabet, length 3: the formula and a
brute-force enumeration agree (a test of the definitions; the theorem is `count_eq_card`). -/
example : countIE [1, 2, 3, 4, 5] [[1, 2], [2, 3], [3, 9]] 3 = 42 ∧
    card [1, 2, 3, 4, 5] [[1, 2], [2, 3], [3, 9]] 3 = 42 := by decide

/-- **No environment inputs**: the library calls into no package that could supply anything that
varies between runs or machines — clock, environment variables, processor count, scheduler,
`math/rand` — other than `crypto/rand.Read`. (Seeded change C07j made `Entropy()` depend on
`runtime.GOMAXPROCS`.) -/
theorem no_environment_inputs :
    (Spg.Generated.Facts.sensitiveCalls.all fun c => c.2.2.1 == "crypto/rand.Read") = true := by decide

end Spg.C07
