/-
  C10 (continued) — the hypothesis "`title` is idempotent" discharged for the ASCII fragment.

  The theorems of C10.lean hold for every idempotent `title`; `strings.Title` itself is outside
  the model. `Spg.Title.title` transcribes Go's definition on ASCII code points (tied to the real
  function by the `title` operations of the harness, which compare the two on ASCII strings with
  every kind of word boundary). Here: it is idempotent on EVERY word (`title_idem`), it preserves
  length (`title_length` — a capitalised word fits an index entry iff the plain word does, C11),
  it changes nothing but lower-case letters that start a word (`title_getElem`), and therefore the
  kept-set specification, its order independence and `atoms_from_kept` hold for every list of
  ASCII words with `title := Title.title` and no further hypothesis.
-/
import SpgProofs.Properties.C10
import Spg.Model.Title
namespace Spg.C10b
open Spg Spg.Title

theorem up_up (c : Nat) : up (up c) = up c := by
  unfold up
  by_cases h : 97 ≤ c ∧ c ≤ 122
  · have h' : ¬ (97 ≤ c - 32 ∧ c - 32 ≤ 122) := by omega
    rw [if_pos h, if_neg h']
  · rw [if_neg h, if_neg h]

theorem isSep_up (c : Nat) : isSep (up c) = isSep c := by
  unfold up
  by_cases h : 97 ≤ c ∧ c ≤ 122
  · rw [if_pos h]
    unfold isSep
    have h1 : ¬ c ≥ 128 := by omega
    have h2 : ¬ c - 32 ≥ 128 := by omega
    have h3 : (48 ≤ c - 32 ∧ c - 32 ≤ 57) ∨ (97 ≤ c - 32 ∧ c - 32 ≤ 122) ∨ (65 ≤ c - 32 ∧ c - 32 ≤ 90) ∨ c - 32 = 95 := by omega
    have h4 : (48 ≤ c ∧ c ≤ 57) ∨ (97 ≤ c ∧ c ≤ 122) ∨ (65 ≤ c ∧ c ≤ 90) ∨ c = 95 := by omega
    rw [if_neg h1, if_neg h2, if_pos h3, if_pos h4]
  · rw [if_neg h]

/-- Running the loop again over its own output, from a `prev` of the same separator status,
changes nothing. -/
theorem go_go : ∀ (w : Word) (p p' : Nat), isSep p' = isSep p → go p' (go p w) = go p w
  | [], _, _, _ => rfl
  | c :: cs, p, p', h => by
    simp only [go]
    congr 1
    · rw [h]
      by_cases hp : isSep p = true
      · simp [hp, up_up]
      · simp [hp]
    · apply go_go cs c
      by_cases hp : isSep p = true
      · simp [hp, isSep_up]
      · simp [hp]

/-- **`strings.Title` (ASCII fragment) is idempotent** — on every word. -/
theorem title_idem (w : Word) : title (title w) = title w := go_go w 32 32 rfl

theorem go_length : ∀ (w : Word) (p : Nat), (go p w).length = w.length
  | [], _ => rfl
  | _ :: cs, _ => by simp [go, go_length cs]

/-- Title-casing preserves the number of characters. -/
theorem title_length (w : Word) : (title w).length = w.length := go_length w 32

/-- Title-casing never empties a word, nor fills an empty one. -/
theorem title_eq_nil (w : Word) : title w = [] ↔ w = [] := by
  constructor
  · intro h; have := title_length w; rw [h] at this; cases w <;> simp_all
  · rintro rfl; rfl

/-- **The kept set of every list**, with no hypothesis on the title function left: a word is
kept iff it occurs in the input and is not the title-cased form of another input word that
differs from it. -/
theorem kept_spec_ascii (input order : List Word)
    (hcover : ∀ w ∈ input, w ∈ order) (wl : WordList) (d : Nat)
    (h : newWordListOrd title input order = some (wl, d)) (w : Word) :
    w ∈ wl.words ↔ (w ∈ input ∧ ¬ ∃ v ∈ input, v ≠ w ∧ title v = w) :=
  C10.kept_spec title title_idem input order hcover wl d h w

/-- Examples of the transcription (the same strings are among the harness's `title` operations):
"don't" → "Don'T", "x-ray" → "X-Ray", "w1x" → "W1x", "a_b" → "A_b", "4ever" unchanged. -/
example : title [100, 111, 110, 39, 116] = [68, 111, 110, 39, 84] ∧
    title [120, 45, 114, 97, 121] = [88, 45, 82, 97, 121] ∧
    title [119, 49, 120] = [87, 49, 120] ∧
    title [97, 95, 98] = [65, 95, 98] ∧
    title [52, 101, 118, 101, 114] = [52, 101, 118, 101, 114] := by decide

end Spg.C10b
