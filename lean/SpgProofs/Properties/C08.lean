/-
  C08 — Wordlist-recipe entropy is exact and depends on the recipe alone.

  The model returns the integer `D` with `Entropy = log2 D` (floating point is compared, not
  modelled): `D = size^L · capFactor · sepD^(L-1)`, where `capFactor` is `2^L` for 'random',
  `L` for 'one' — when and only when every kept word changes under title-casing — and 1
  otherwise. The theorems: the formula; the "when and only when"; independence of the word
  list's contribution from the order in which the map is visited and from reordering or
  repetition of the input; independence from the random stream for every separator that
  cannot fail (the remaining case is known finding D9, with its counterexample).
  `History` keeps the pre-repair counting pass and the witness that it was order dependent.
-/
import SpgProofs.Lemmas.WordList
import SpgProofs.Lemmas.Rand
import SpgProofs.Properties.C10
namespace Spg.C08
open Spg

variable (title : Word → Word)

/-- The count of uncapitalisable words is taken over the kept words. -/
theorem unCap_eq (input order : List Word) (wl : WordList) (d : Nat)
    (h : newWordListOrd title input order = some (wl, d)) :
    wl.unCap = (wl.words.filter fun w => title w == w).length := by
  unfold newWordListOrd at h
  split at h
  · cases h
  · injection h with h; injection h with h1 _; subst h1; rfl

/-- **"When and only when every word of the list changes under title-casing."** -/
theorem allCap_iff (input order : List Word) (wl : WordList) (d : Nat)
    (h : newWordListOrd title input order = some (wl, d)) :
    wl.unCap = 0 ↔ ∀ w ∈ wl.words, title w ≠ w := by
  rw [unCap_eq title input order wl d h, List.length_eq_zero_iff, List.filter_eq_nil_iff]
  constructor
  · intro hh w hw; simpa using hh w hw
  · intro hh w hw; simpa using hh w hw

/-- **Order, permutation and multiplicity independence of everything the entropy reads from the
list**: the size and the uncapitalisable count. -/
theorem list_contribution_indep (hid : ∀ w, title (title w) = title w)
    (in₁ in₂ o₁ o₂ : List Word) (hsame : ∀ w, w ∈ in₁ ↔ w ∈ in₂)
    (hc₁ : ∀ w ∈ in₁, w ∈ o₁) (hc₂ : ∀ w ∈ in₂, w ∈ o₂)
    (wl₁ wl₂ : WordList) (d₁ d₂ : Nat)
    (h₁ : newWordListOrd title in₁ o₁ = some (wl₁, d₁))
    (h₂ : newWordListOrd title in₂ o₂ = some (wl₂, d₂)) :
    wl₁.words.length = wl₂.words.length ∧ wl₁.unCap = wl₂.unCap := by
  obtain ⟨hp, hl⟩ := C10.kept_order_indep title hid in₁ in₂ o₁ o₂ hsame hc₁ hc₂ wl₁ wl₂ d₁ d₂ h₁ h₂
  refine ⟨hl, ?_⟩
  rw [unCap_eq title in₁ o₁ wl₁ d₁ h₁, unCap_eq title in₂ o₂ wl₂ d₂ h₂]
  exact (hp.filter _).length_eq

/-- The capitalisation factor, spelled out: `2^L` / `L` exactly when the scheme is
random / one AND every word is capitalisable; 1 in every other case. -/
theorem capFactor_spec (r : WLRecipe) (L : Nat) :
    WLRecipe.capFactor r L =
      if WLRecipe.allCap r = true ∧ r.capitalize = "random" then (2 : Int) ^ L
      else if WLRecipe.allCap r = true ∧ r.capitalize = "one" then (L : Int)
      else 1 := by
  unfold WLRecipe.capFactor
  by_cases hA : WLRecipe.allCap r = true
  · by_cases hR : r.capitalize = "random"
    · simp [hA, hR]
    · by_cases hO : r.capitalize = "one"
      · simp [hA, hO]
      · simp [hA, hR, hO]
  · simp [hA]

/-- **Entropy formula**, constant separator (`SeparatorFunc == nil`, or a constant function):
`D = size^L · capFactor`, a function of the recipe alone — no draw is made. -/
theorem entropy_const_sep (cfg : Cfg) (r : WLRecipe) (s : Word)
    (hs : r.sep = .char s ∨ r.sep = .const s) :
    WLRecipe.entropy cfg r =
      .pure (((WLRecipe.size r : Nat) : Int) ^ r.length.toNat * WLRecipe.capFactor r r.length.toNat) := by
  unfold WLRecipe.entropy
  rcases hs with h | h <;> simp [h, Sep.call, Rand.bind, Int.one_pow]

/-- What the entropy sample of a recipe-built separator can contribute: on every random stream
it is the separator recipe's own `D` (generation succeeded) or 1 (generation failed; `sfWrap`
reports 0 bits). -/
theorem sepCall_values (cfg : Cfg) (cr : CharRecipe) :
    Rand.All (fun (p : Word × Int) => p.2 = cr.entropyD cfg ∨ (p = ([], 1)))
      (Sep.call cfg (.recipe cr)) := by
  unfold Sep.call
  apply Rand.All_bind_true
  intro a
  cases a <;> simp [Rand.All]

/-- **Entropy formula**, functional separator: `D = size^L · capFactor · d^(L-1)` where `d` is
what the separator function reported in the one call `Entropy()` makes. -/
theorem entropy_recipe_sep (cfg : Cfg) (r : WLRecipe) (cr : CharRecipe) (hs : r.sep = .recipe cr) :
    WLRecipe.entropy cfg r =
      (Sep.call cfg (.recipe cr)).bind fun p =>
        .pure (((WLRecipe.size r : Nat) : Int) ^ r.length.toNat * WLRecipe.capFactor r r.length.toNat
                * p.2 ^ (r.length.toNat - 1)) := by
  unfold WLRecipe.entropy
  simp [hs]

/-- A separator recipe that the pre-flight accepts and that has no effective requirement can
never fail: its first candidate passes the filter. -/
theorem genChars_infallible (cfg : Cfg) (cr : CharRecipe) (hL : 1 ≤ cr.length)
    (hA : (cr.alphabet cfg.tbl).isEmpty = false) (hacc : cr.acceptable cfg = true)
    (hT : 0 < cfg.maxTrials) (hreq : ∀ cand, cr.passes cfg.tbl cand = true) :
    Rand.All (fun res => ∃ cs, res = Res.ok cs) (cr.genChars cfg) := by
  unfold CharRecipe.genChars
  rw [if_neg (by omega)]
  simp only [hA, Bool.false_eq_true, if_false, hacc, Bool.not_true]
  obtain ⟨t, ht⟩ : ∃ t, cfg.maxTrials = t + 1 := ⟨cfg.maxTrials - 1, by omega⟩
  rw [ht]
  unfold CharRecipe.tryLoop
  apply Rand.All_bind_true
  intro cand
  simp [hreq, Rand.All]

/-- **Depends on the recipe alone** for infallible separators: every random stream gives the same
`D`, namely `size^L · capFactor · sepD^(L-1)`. -/
theorem entropy_stream_indep (cfg : Cfg) (r : WLRecipe) (cr : CharRecipe) (hs : r.sep = .recipe cr)
    (hL : 1 ≤ cr.length) (hA : (cr.alphabet cfg.tbl).isEmpty = false)
    (hacc : cr.acceptable cfg = true) (hT : 0 < cfg.maxTrials)
    (hreq : ∀ cand, cr.passes cfg.tbl cand = true) :
    Rand.All (fun d => d = ((WLRecipe.size r : Nat) : Int) ^ r.length.toNat *
        WLRecipe.capFactor r r.length.toNat * (cr.entropyD cfg) ^ (r.length.toNat - 1))
      (WLRecipe.entropy cfg r) := by
  rw [entropy_recipe_sep cfg r cr hs]
  have hinf := genChars_infallible cfg cr hL hA hacc hT hreq
  apply Rand.All_bind (P := fun (p : Word × Int) => p.2 = cr.entropyD cfg)
  · unfold Sep.call
    apply Rand.All_bind _ _ hinf
    rintro a ⟨cs, rfl⟩
    simp [Rand.All]
  · intro p hp
    simp [Rand.All, hp]

/-! ### Known finding D9: a separator recipe with requirements makes `Entropy()` depend on the stream -/

/-- With a separator recipe that can fail (two characters from {a, b}, one of them must be
`a`; one attempt allowed), the same wordlist recipe reports `D = 3·3·3^2 = 243`… on one stream
and `D = 27` on another: `Entropy()` is not a function of the recipe. The model mirrors the
code; the check replays both streams on the implementation (known_findings.json, D9). -/
theorem entropy_stream_dependent_counterexample :
    let cfg : Cfg := { tbl := [], maxTrials := 1, frNum := 9, frDen := 10 }
    let cr : CharRecipe := { length := 2, allow := 0, require := 0, exclude := 0,
                             allowChars := [98], requireSets := [[97]], excludeChars := [] }
    let r : WLRecipe := { list := some { words := [[97], [98], [99]], unCap := 0 }, length := 3,
                          sepFunc := some (.recipe cr), capitalize := "none" }
    (match (WLRecipe.entropy cfg r).run [0, 0] with | .done d _ => d | _ => 0) = 243 ∧
    (match (WLRecipe.entropy cfg r).run [1, 1] with | .done d _ => d | _ => 0) = 27 := by
  decide

/-! ### History: the counting pass before the repair (fix a3a09c9) -/
namespace History

/-- The pre-repair pass: uncapitalisable words were counted while twins were being deleted. -/
def oldPass (title : Word → Word) : List Word → List Word → Nat → List Word × Nat
  | [], cur, n => (cur, n)
  | w :: rest, cur, n =>
    if cur.contains w then
      let c := title w
      if cur.contains c then
        if c != w then oldPass title rest (cur.filter (· != c)) n
        else oldPass title rest cur (n + 1)
      else oldPass title rest cur n
    else oldPass title rest cur n

/-- "Polish" visited before "polish" is counted, after it is not: the old count depended on
the map's iteration order (the defect D5). -/
theorem unCap_order_dependent_counterexample :
    let title : Word → Word := fun w => match w with
      | c :: cs => (if 97 ≤ c ∧ c ≤ 122 then c - 32 else c) :: cs
      | [] => []
    let polish : Word := [112]; let Polish : Word := [80]
    (oldPass title [Polish, polish] [Polish, polish] 0).2 = 1 ∧
    (oldPass title [polish, Polish] [Polish, polish] 0).2 = 0 := by
  decide

end History

/-! ### Non-vacuity -/

/-- A recipe meeting the hypotheses of `entropy_stream_indep`: three words, digits separator. -/
example :
    let cfg : Cfg := { tbl := [(4, [48, 49, 50])], maxTrials := 200, frNum := 1, frDen := 1000000000 }
    let cr : CharRecipe := { length := 1, allow := 4, require := 0, exclude := 0,
                             allowChars := [], requireSets := [], excludeChars := [] }
    1 ≤ cr.length ∧ (cr.alphabet cfg.tbl).isEmpty = false ∧ cr.acceptable cfg = true ∧
      cr.entropyD cfg = 3 := by
  decide

end Spg.C08
