/-
  C06e — C06b's bound read against the formula word_gen.go computes.

  For a wordlist recipe whose separator comes from a requirement-free separator recipe (every
  preset), no password is likelier than `2^-(L·log2 size + capBits + (L−1)·log2 Dsep)`: the
  exponent is, term by term, the sum `WLRecipe.Entropy()` evaluates (C08c.wl_bits_formula), and
  the bound is C06b.wl_maxprob_recipe_sep through C06d's equivalence. Float rounding of the
  reported figure is not modelled.
-/
import SpgProofs.Properties.C06b
import SpgProofs.Properties.C06d
import SpgProofs.Properties.C08c

namespace Spg.C06e
open Spg Rand C06 C06b C06d

variable (cfg : Cfg) (title : Word → Word) (r : WLRecipe) (wl : WordList) (cr : CharRecipe)
  (hl : r.list = some wl) (hne : wl.words ≠ []) (hL : 1 ≤ r.length)
  (hs : r.sep = .recipe cr) (h : SepOK cfg cr) (hok : ListOK title wl.words)
include hl hne hL hs h hok

theorem wl_maxprob_recipe_sep_formula
    (hvis : WLRecipe.capFactor r r.length.toNat ≠ 1 →
      ∀ w₁ ∈ wl.words, ∀ w₂ ∈ wl.words, title w₁ ≠ w₂)
    (τ : List (Token Nat)) :
    ((E (WLRecipe.generate cfg title r) (retTokens τ) : ℚ) : ℝ) ≤
      (2 : ℝ) ^ (-((r.length.toNat : ℝ) * Real.logb 2 ((wl.words.length : Nat) : ℝ)
          + C08c.capBits r r.length.toNat
          + ((r.length.toNat - 1 : Nat) : ℝ) * Real.logb 2 ((cr.entropyD cfg : Int) : ℝ))) := by
  have hL' : 1 ≤ r.length.toNat := by omega
  have hsize : 0 < wl.words.length := List.length_pos_of_ne_nil hne
  have hd : 0 < cr.entropyD cfg := by
    have := h.entropyD_pos
    exact_mod_cast this
  have hcf := C08c.capFactor_pos r r.length.toNat hL'
  have hDpos : (0 : ℚ) < (((((wl.words.length : Nat) : Int) ^ r.length.toNat *
              WLRecipe.capFactor r r.length.toNat *
              (cr.entropyD cfg) ^ (r.length.toNat - 1) : Int)) : ℚ) := by
    have : (0 : Int) < ((wl.words.length : Nat) : Int) ^ r.length.toNat *
              WLRecipe.capFactor r r.length.toNat * (cr.entropyD cfg) ^ (r.length.toNat - 1) := by
      have h1 : (0 : Int) < ((wl.words.length : Nat) : Int) := by exact_mod_cast hsize
      positivity
    exact_mod_cast this
  have hb := (le_inv_iff_le_two_pow_neg_bits hDpos).1
    (wl_maxprob_recipe_sep cfg title r wl cr hl hne hL hs h hok hvis τ)
  have hf := C08c.log_count_eq_sum wl.words.length r.length.toNat
    (WLRecipe.capFactor r r.length.toNat) (cr.entropyD cfg) hsize hcf hd
  rw [C08c.capBits_spec] at hf
  unfold bits at hb
  rw [← hf]
  convert hb using 3
  push_cast
  rfl

end Spg.C06e

namespace Spg.C06e
open Spg Rand C06 C06d

section Const
variable (cfg : Cfg) (title : Word → Word) (r : WLRecipe) (wl : WordList)
  (hl : r.list = some wl) (hne : wl.words ≠ []) (hL : 1 ≤ r.length) {c : Word} (h : ConstSep r c)
  (hok : ListOK title wl.words)
include hl hne hL h hok

/-- The same for a constant separator (`SeparatorChar`, `SFNone`, constant functions): the
separator term of the formula is 0 and no password is likelier than
`2^-(L·log2 size + capBits)`. -/
theorem wl_maxprob_const_formula
    (hvis : WLRecipe.capFactor r r.length.toNat ≠ 1 →
      (∀ w ∈ wl.words, title w ≠ w) ∧ (∀ w₁ ∈ wl.words, ∀ w₂ ∈ wl.words, title w₁ ≠ w₂))
    (τ : List (Token Nat)) :
    ((E (WLRecipe.generate cfg title r) (retTokens τ) : ℚ) : ℝ) ≤
      (2 : ℝ) ^ (-((r.length.toNat : ℝ) * Real.logb 2 ((wl.words.length : Nat) : ℝ)
          + C08c.capBits r r.length.toNat)) := by
  have hL' : 1 ≤ r.length.toNat := by omega
  have hsize : 0 < wl.words.length := List.length_pos_of_ne_nil hne
  have hcf := C08c.capFactor_pos r r.length.toNat hL'
  have hDpos : (0 : ℚ) < (((((wl.words.length : Nat) : Int) ^ r.length.toNat *
              WLRecipe.capFactor r r.length.toNat : Int)) : ℚ) := by
    have : (0 : Int) < ((wl.words.length : Nat) : Int) ^ r.length.toNat *
              WLRecipe.capFactor r r.length.toNat := by
      have h1 : (0 : Int) < ((wl.words.length : Nat) : Int) := by exact_mod_cast hsize
      positivity
    exact_mod_cast this
  have hb := wl_maxprob_bits cfg title r wl hl hne hL h hok hvis hDpos τ
  have hf := C08c.log_count_eq_sum wl.words.length r.length.toNat
    (WLRecipe.capFactor r r.length.toNat) 1 hsize hcf (by norm_num)
  rw [C08c.capBits_spec] at hf
  simp only [Int.cast_one, Real.logb_one, mul_zero, add_zero, one_pow, mul_one] at hf
  unfold bits at hb
  rw [← hf]
  convert hb using 3
  push_cast
  rfl

end Const
end Spg.C06e
