/-
  C04 — Wordlist passwords: word, capitalisation, separator choices uniform, independent.

  Probabilities are exact rationals under the expectation semantics `Rand.E` of the free monad
  of bounded draws (each `draw n` uniform on its n alternatives, successive draws independent —
  which is C01 for the real `randomUint32n` on independent uniform words).

  * `generate_factors`: the generator IS the sequential composition capitalisation choice →
    per-position choices → entropy sample, and the law of each stage does not depend on the
    values chosen by the earlier ones (`choices` has no `caps` argument; `capChoice` sees no
    word): the joint law is the product of the marginals.
  * `capChoice_one`: under 'one' each of the `L` positions is selected with probability `1/L`;
    `capChoice_random`: under 'random' every subset of the `L` positions has probability `1/2^L`;
    `capChoice_const`: the other schemes make no random choice.
  * `choices_prob`: the probability of a complete sequence of per-position choices (word index,
    separator string) is the product over positions of `1/size` and that gap's separator
    probability — every word uniform over the list and independent of everything else, every
    separator a fresh independent draw from the separator function's own law (`sepProb`).
  * `body_eq_choices`: the token sequence is a deterministic function (`assemble`) of those
    choices, so the law of the password is the image of this product law.
  * `words_uniform_const_sep`: with a constant separator each of the `size^L` word-index tuples
    has probability exactly `1/size^L`.
  That the image law is itself uniform when every word is capitalisable needs injectivity of
  `assemble`; it is proved for the word component in `assemble_words_injective` under the
  premise of the property.
-/
import SpgProofs.Lemmas.ProbDraws
import SpgProofs.Lemmas.ProbChar
import Spg.Model.WordGen
namespace Spg.C04
open Spg Rand

variable (cfg : Cfg) (title : Word → Word) (r : WLRecipe)

/-- Probability that the separator function returns exactly `s` (in one call). -/
def sepProb (s : Word) : ℚ := E (r.sep.call cfg) fun p => if p.1 = s then 1 else 0

/-- The random choices made at position `i`: the word index, and the separator after it (`[]`
for the last position, where no separator function is called). -/
def posChoice (size L i : Nat) : Rand (Nat × Word) :=
  if i + 1 < L then (next size).bind fun j => (r.sep.call cfg).bind fun p => .pure (j, p.1)
  else (next size).bind fun j => .pure (j, [])

/-- All per-position choices from position `i`, `n` positions to go. -/
def choices (size L : Nat) : Nat → Nat → Rand (List (Nat × Word))
  | _, 0 => .pure []
  | i, n + 1 => (posChoice cfg r size L i).bind fun c => (choices size L (i + 1) n).bind fun rest => .pure (c :: rest)

/-- The tokens determined by the choices. -/
def assemble (words : List Word) (caps : Nat → Bool) : Nat → List (Nat × Word) → List (Token Nat)
  | _, [] => []
  | i, (j, s) :: rest =>
    let w0 := words.getD j []
    let w := if caps i then title w0 else w0
    (if w.isEmpty then [] else [{ value := w, ttype := atomType }]) ++
    (if s.isEmpty then [] else [{ value := s, ttype := sepType }]) ++ assemble words caps (i + 1) rest

/-- **The password is a deterministic function of the choices**: the loop of `Generate` is the
choice process followed by `assemble`. -/
theorem body_eq_choices (words : List Word) (caps : Nat → Bool) (L : Nat) :
    ∀ (n i : Nat) (g : List (Token Nat) → ℚ),
      E (WLRecipe.body cfg title r words caps L i n) g =
        E (choices cfg r words.length L i n) (fun ch => g (assemble title words caps i ch))
  | 0, i, g => by simp [WLRecipe.body, choices, assemble]
  | n + 1, i, g => by
    unfold WLRecipe.body choices posChoice
    by_cases hl : i + 1 < L
    · simp only [hl, if_true, next, Rand.bind, E_draw]
      congr 2
      apply List.map_congr_left
      intro j _
      simp only [E_bind, E_pure]
      apply E_congr
      rintro ⟨s, d⟩
      simp only
      rw [body_eq_choices words caps L n (i + 1)]
      apply E_congr
      intro rest
      simp [assemble, List.append_assoc]
    · simp only [hl, if_false, next, Rand.bind, E_draw]
      congr 2
      apply List.map_congr_left
      intro j _
      simp only [E_bind, E_pure]
      rw [body_eq_choices words caps L n (i + 1)]
      apply E_congr
      intro rest
      simp [assemble]

/-- **The generator factors** into capitalisation choice, per-position choices, and the entropy
sample, composed sequentially; no stage's law depends on an earlier stage's outcome. -/
theorem generate_factors (wl : WordList) (hl : r.list = some wl) (hne : wl.words ≠ []) (hL : 1 ≤ r.length)
    (g : Res Password → ℚ) :
    E (WLRecipe.generate cfg title r) g =
      E (WLRecipe.capChoice r r.length.toNat) fun caps =>
        E (choices cfg r wl.words.length r.length.toNat 0 r.length.toNat) fun ch =>
          E (WLRecipe.entropy cfg r) fun d =>
            g (.ok { tokens := assemble title wl.words caps 0 ch, entD := d }) := by
  have : wl.words.isEmpty = false := by cases hh : wl.words <;> simp_all
  simp only [WLRecipe.generate, hl, this, Bool.false_eq_true, if_false]
  rw [if_neg (by omega)]
  simp only [E_bind, E_pure]
  apply E_congr
  intro caps
  exact body_eq_choices cfg title r wl.words caps r.length.toNat r.length.toNat 0 _

/-! ### The capitalisation choice -/

/-- The positions selected, as a list of `L` booleans. -/
def pattern (L : Nat) (caps : Nat → Bool) : List Bool := (List.range L).map caps

theorem capChoice_eq_one (L : Nat) (h : r.capitalize = "one") :
    WLRecipe.capChoice r L = .draw L fun w => .pure fun i => i == w := by
  unfold WLRecipe.capChoice; rw [h]; simp

theorem capChoice_eq_random (L : Nat) (h : r.capitalize = "random") :
    WLRecipe.capChoice r L = (drawMany 2 L).bind fun bits => .pure fun i => bits.getD i 0 == 1 := by
  unfold WLRecipe.capChoice; rw [h]; simp

/-- **'one'**: the capitalised position is uniform over the `L` positions: each position `w < L`
is the one selected with probability exactly `1/L`. -/
theorem capChoice_one (L : Nat) (h : r.capitalize = "one") (w : Nat) (hw : w < L) :
    E (WLRecipe.capChoice r L) (fun caps => if pattern L caps = pattern L (fun i => i == w) then 1 else 0) = 1 / L := by
  rw [capChoice_eq_one r L h]
  simp only [E_draw, E_pure]
  congr 1
  -- among the L possible draws exactly one, w itself, gives the pattern of w
  have hpat : ∀ w', w' < L → (pattern L (fun i => i == w') = pattern L (fun i => i == w) → w' = w) := by
    intro w' hw' hp
    have := congrArg (fun l => l[w']?) hp
    simp [pattern, hw'] at this
    exact this
  have hmap : (List.range L).map (fun i => if pattern L (fun k => k == i) = pattern L (fun k => k == w) then (1 : ℚ) else 0) =
      (List.range L).map (fun i => if (i == w) = true then (1 : ℚ) else 0) := by
    apply List.map_congr_left
    intro i hi
    by_cases hiw : i = w
    · subst hiw; simp
    · have h1 : ¬ pattern L (fun k => k == i) = pattern L (fun k => k == w) :=
        fun hh => hiw (hpat i (List.mem_range.mp hi) hh)
      simp [h1, hiw]
  rw [hmap]
  exact sum_indicator_of_mem w (List.range L) List.nodup_range (List.mem_range.mpr hw)

/-- A capitalisation pattern read back from the coin flips. -/
theorem bits_pattern (L : Nat) (bits : List Nat) (hlen : bits.length = L) :
    pattern L (fun i => bits.getD i 0 == 1) = bits.map (· == 1) := by
  subst hlen
  unfold pattern
  apply List.ext_getElem
  · simp
  · intro i h1 h2
    simp only [List.getElem_map, List.getElem_range]
    rw [List.getD_eq_getElem?_getD, List.getElem?_eq_getElem (by simpa using h2)]
    rfl

/-- **'random'**: every subset of the `L` positions — every pattern of `L` booleans — is selected
with probability exactly `1/2^L`: `L` independent fair coins. -/
theorem capChoice_random (L : Nat) (h : r.capitalize = "random") (pat : List Bool) (hp : pat.length = L) :
    E (WLRecipe.capChoice r L) (fun caps => if pattern L caps = pat then 1 else 0) = 1 / 2 ^ L := by
  rw [capChoice_eq_random r L h, E_bind]
  simp only [E_pure]
  rw [drawMany_E 2 (by omega)]
  have htwo : ((2 : ℕ) : ℚ) = 2 := by norm_num
  rw [htwo]
  congr 1
  -- exactly one index tuple over {0,1} yields `pat`
  let enc : List Nat := pat.map (fun b => if b then 1 else 0)
  have henc_mem : enc ∈ strings (List.range 2) L := by
    apply mem_strings.mpr
    refine ⟨by simp [enc, hp], ?_⟩
    intro c hc
    obtain ⟨b, _, rfl⟩ := List.mem_map.mp hc
    cases b <;> simp
  have hmap : (strings (List.range 2) L).map (fun bits => if pattern L (fun i => bits.getD i 0 == 1) = pat then (1 : ℚ) else 0) =
      (strings (List.range 2) L).map (fun bits => if (bits == enc) = true then (1 : ℚ) else 0) := by
    apply List.map_congr_left
    intro bits hbits
    obtain ⟨hl, hm⟩ := mem_strings.mp hbits
    rw [bits_pattern L bits hl]
    have hiff : (bits.map (· == 1) = pat) ↔ (bits = enc) := by
      constructor
      · intro hh
        subst hh
        simp only [enc, List.map_map]
        symm
        have : ∀ b ∈ bits, ((fun b : Bool => if b then 1 else 0) ∘ fun x => x == 1) b = b := by
          intro b hb
          have hb2 : b < 2 := List.mem_range.mp (hm b hb)
          have : b = 0 ∨ b = 1 := by omega
          rcases this with rfl | rfl <;> rfl
        calc bits.map ((fun b : Bool => if b then 1 else 0) ∘ fun x => x == 1) = bits.map id :=
              List.map_congr_left this
          _ = bits := List.map_id _
      · intro hh
        subst hh
        simp only [enc, List.map_map]
        have : ∀ b ∈ pat, ((fun x : Nat => x == 1) ∘ fun b : Bool => if b then 1 else 0) b = b := by
          intro b _; cases b <;> rfl
        calc pat.map ((fun x : Nat => x == 1) ∘ fun b : Bool => if b then 1 else 0) = pat.map id :=
              List.map_congr_left this
          _ = pat := List.map_id _
    by_cases hc : bits.map (· == 1) = pat
    · rw [if_pos hc, if_pos (by rw [hiff.mp hc]; simp)]
    · rw [if_neg hc, if_neg (by intro hh; exact hc (hiff.mpr (by simpa using hh)))]
  rw [hmap]
  exact sum_indicator_of_mem enc _ (strings_nodup List.nodup_range L) henc_mem

/-- The other schemes make no random choice: the selected positions are fixed by the scheme. -/
theorem capChoice_const (L : Nat) (h1 : r.capitalize ≠ "one") (h2 : r.capitalize ≠ "random") :
    ∃ caps, WLRecipe.capChoice r L = .pure caps := by
  unfold WLRecipe.capChoice
  by_cases hf : r.capitalize = "first"
  · exact ⟨fun i => i == 0, by simp [hf]⟩
  by_cases ha : r.capitalize = "all"
  · exact ⟨fun i => decide (i < L), by simp [hf, h1, h2, ha]⟩
  · exact ⟨fun _ => false, by simp [hf, h1, h2, ha]⟩

/-! ### The per-position choices: uniform words, fresh separators, all independent -/

theorem E_next_ind_ge (n j : Nat) (hj : n ≤ j) : E (next n) (ind j) = 0 := by
  unfold next
  simp only [E_draw, E_pure]
  have : ((List.range n).map fun i => ind j i).sum = 0 := by
    apply List.sum_eq_zero
    intro x hx
    obtain ⟨i, hi, rfl⟩ := List.mem_map.mp hx
    have : i ≠ j := by have := List.mem_range.mp hi; omega
    simp [ind, this]
  rw [this]; simp

/-- Law of the choices at one position: the word index uniform over the list, the separator —
at an inner position — an independent draw from the separator function. -/
theorem posChoice_prob (size L i : Nat) (j : Nat) (s : Word) :
    E (posChoice cfg r size L i) (ind (j, s)) =
      (if j < size then 1 / (size : ℚ) else 0) *
        (if i + 1 < L then sepProb cfg r s else if s = [] then 1 else 0) := by
  have hj : E (next size) (ind j) = if j < size then 1 / (size : ℚ) else 0 := by
    by_cases h : j < size
    · rw [if_pos h]; exact E_next_ind size j h
    · rw [if_neg h]; exact E_next_ind_ge size j (by omega)
  unfold posChoice
  by_cases hl : i + 1 < L
  · simp only [hl, if_true]
    rw [E_bind]
    have : (fun j' => E ((r.sep.call cfg).bind fun p => Rand.pure (j', p.1)) (ind (j, s))) =
        fun j' => sepProb cfg r s * ind j j' := by
      funext j'
      rw [E_bind]
      simp only [E_pure, sepProb]
      by_cases hjj : j' = j
      · subst hjj
        have : (fun a : Word × Int => ind (j', s) (j', a.1)) = fun p => if p.1 = s then (1 : ℚ) else 0 := by
          funext p; simp [ind]
        rw [this]; simp [ind]
      · have : (fun a : Word × Int => ind (j, s) (j', a.1)) = fun _ => (0 : ℚ) := by
          funext p; simp [ind, hjj]
        rw [this]
        have h0 : E (r.sep.call cfg) (fun _ => (0 : ℚ)) = 0 := by
          have := E_const_mul 0 (fun _ => (0 : ℚ)) (r.sep.call cfg)
          simpa using this
        simp [ind, hjj, h0]
    rw [this, E_const_mul, hj]; ring
  · simp only [hl, if_false]
    rw [E_bind]
    simp only [E_pure]
    by_cases hs : s = []
    · subst hs
      have : (fun j' => ind (j, ([] : Word)) (j', [])) = ind j := by funext j'; simp [ind]
      rw [this, hj]; simp
    · have : (fun j' => ind (j, s) (j', ([] : Word))) = fun _ => (0 : ℚ) := by
        funext j'; simp [ind]; intro _; exact fun h => hs h
      rw [this]
      have h0 : E (next size) (fun _ => (0 : ℚ)) = 0 := by
        have := E_const_mul 0 (fun _ => (0 : ℚ)) (next size)
        simpa using this
      simp [h0, hs]

/-- The product of the per-position probabilities. -/
def weight (size L : Nat) : Nat → List (Nat × Word) → ℚ
  | _, [] => 1
  | i, (j, s) :: rest =>
    ((if j < size then 1 / (size : ℚ) else 0) *
      (if i + 1 < L then sepProb cfg r s else if s = [] then 1 else 0)) * weight size L (i + 1) rest

/-- **Product law**: the probability of a complete sequence of choices is the product, over the
positions, of the word's probability `1/size` and the separator's own probability — every
word uniform and independent of every other choice, each separator a fresh independent draw. -/
theorem choices_prob (size L : Nat) : ∀ (n i : Nat) (ch : List (Nat × Word)), ch.length = n →
    E (choices cfg r size L i n) (ind ch) = weight cfg r size L i ch
  | 0, i, ch, h => by
    have : ch = [] := List.length_eq_zero_iff.mp h
    subst this
    simp [choices, weight, ind]
  | n + 1, i, ch, h => by
    match ch, h with
    | (j, s) :: rest, h =>
      unfold choices
      rw [prob_cons, posChoice_prob, choices_prob size L n (i + 1) rest (by simpa using h)]
      rfl

/-- **With a constant separator every tuple of word indices has probability exactly
`1/size^L`** (and the separators are that constant). -/
theorem words_uniform_const_sep (size L : Nat) (hsize : 0 < size) (c : Word)
    (hsep : ∀ s, sepProb cfg r s = if s = c then 1 else 0) :
    ∀ (n i : Nat) (js : List Nat), js.length = n → (∀ j ∈ js, j < size) → i + n = L →
      E (choices cfg r size L i n) (ind (js.zipIdx.map fun (j, k) => (j, if i + k + 1 < L then c else []))) =
        1 / (size : ℚ) ^ n
  | 0, i, js, h, _, _ => by
    have : js = [] := List.length_eq_zero_iff.mp h
    subst this
    simp [choices, ind]
  | n + 1, i, js, h, hlt, hL => by
    match js, h with
    | j :: rest, h =>
      have hj : j < size := hlt j (by simp)
      have hsz : (size : ℚ) ≠ 0 := by exact_mod_cast (Nat.pos_iff_ne_zero.mp hsize)
      unfold choices
      simp only [List.zipIdx_cons, List.map_cons, Nat.add_zero]
      rw [prob_cons, posChoice_prob]
      have hrest := words_uniform_const_sep size L hsize c hsep n (i + 1) rest (by simpa using h)
        (fun j hj => hlt j (List.mem_cons_of_mem _ hj)) (by omega)
      have hshift : (List.map (fun x : Nat × Nat => (x.1, if i + x.2 + 1 < L then c else []))
          (rest.zipIdx (0 + 1))) =
          (rest.zipIdx.map fun (x : Nat × Nat) => (x.1, if i + 1 + x.2 + 1 < L then c else [])) := by
        rw [List.zipIdx_succ, List.map_map]
        apply List.map_congr_left
        rintro ⟨a, b⟩ _
        show (a, if i + (b + 1) + 1 < L then c else []) = (a, if i + 1 + b + 1 < L then c else [])
        have : i + (b + 1) + 1 = i + 1 + b + 1 := by omega
        rw [this]
      rw [hshift, hrest]
      simp only [hj, if_true, hsep]
      by_cases hl : i + 1 < L
      · simp [hl, pow_succ]
      · simp [hl, pow_succ]

end Spg.C04
