/-
  C17 (continued) — the word file. `opgen words --file F` reads F whole and splits it with
  `strings.Fields`; the words go to `NewWordList` (whose duplicate handling is C10). The model of
  that split is `Spg.Fields.fields` (code points; Go's `unicode.IsSpace` table), and the
  correspondence operations carry the file's text (`filetext=`), so the split the real binary
  makes is compared with the model's on texts with every kind of space run. What the model
  guarantees about the words opgen hands to the library, for every text:

  * `file_words_flatten`: concatenated, they are exactly the non-space characters of the file, in
    order — no character is lost, added or moved;
  * `file_words_spec`: none is empty and none contains a space character (so the known finding
    D8, a list containing "", cannot arise through opgen);
  * `file_words_render`, `file_words_render_last`: words separated by non-empty runs of space
    characters — blanks, tabs, CR LF, U+00A0, U+2028, U+3000 … — with or without leading and
    trailing runs, are read back exactly.
-/
import SpgProofs.Lemmas.Fields
import SpgProofs.Properties.C17

namespace Spg.C17
open Spg.Fields

theorem file_words_flatten (text : List Nat) :
    (fields text).flatten = text.filter (fun c => !isSpace c) := fields_flatten text

theorem file_words_spec (text : List Nat) :
    ∀ w ∈ fields text, w ≠ [] ∧ ∀ c ∈ w, isSpace c = false := fields_spec text

theorem file_words_render (lead : List Nat) (hlead : ∀ c ∈ lead, isSpace c = true)
    (l : List (List Nat × List Nat)) (h : ∀ p ∈ l, Piece p) :
    fields (lead ++ render l) = l.map Prod.fst := fields_render lead hlead l h

theorem file_words_render_last (lead : List Nat) (hlead : ∀ c ∈ lead, isSpace c = true)
    (l : List (List Nat × List Nat)) (h : ∀ p ∈ l, Piece p) (w : List Nat) (hw : w ≠ [])
    (hws : ∀ c ∈ w, isSpace c = false) :
    fields (lead ++ render l ++ w) = l.map Prod.fst ++ [w] := fields_render_last lead hlead l h w hw hws

/-- The table of space characters is Go's: the 25 code points below 0x3001 that
`unicode.IsSpace` accepts, and nothing else in that range. -/
theorem isSpace_table :
    ((List.range 0x3001).filter isSpace) =
      [9, 10, 11, 12, 13, 32, 0x85, 0xA0, 0x1680, 0x2000, 0x2001, 0x2002, 0x2003, 0x2004, 0x2005, 0x2006,
       0x2007, 0x2008, 0x2009, 0x200A, 0x2028, 0x2029, 0x202F, 0x205F, 0x3000] := by decide +kernel

/-- Non-vacuity: a file with a blank first line, CR LF line ends, a tab and an ideographic space. -/
example : fields [10, 111, 110, 101, 13, 10, 116, 119, 111, 9, 0x3000, 52] = [[111, 110, 101], [116, 119, 111], [52]] := by decide

end Spg.C17
