/-
  C04 (continued) — the marginal laws that the product law `choices_prob` implies, stated on their
  own because they are what a user (and the statistical failing-input search of the harness)
  reads off directly:

  * `word_marginal`: for every list size, every length, every separator setting — constant,
    preset, recipe-built (with or without requirements), caller-written — and every position
    `k`, the word at position `k` is each of the `size` list entries with probability exactly
    `1/size`. No premise on the list: capitalisable or not does not enter, because the choice
    process `choices` does not see the capitalisation at all (`body_eq_choices`).
  * `sep_marginal`: the separator after an inner position has exactly the separator function's
    own law, whatever the words around it.
  * `word_pair_independent`: two different positions are independent: each pair of entries has
    probability `1/size²`.

  Total mass: these need that a generator's draws all have at least one alternative (`Proper`,
  which is C13's `NoZero`), so that the choices not looked at integrate to one.
-/
import SpgProofs.Properties.C04
import SpgProofs.Properties.C13
import SpgProofs.Lemmas.ProbWL

namespace Spg.C04
open Spg Rand

theorem proper_of_noZero {α : Type} : ∀ (p : Rand α), C13.NoZero p → Proper p
  | .pure _, _ => trivial
  | .draw _ k, h => ⟨h.1, fun i hi => proper_of_noZero (k i) (h.2 i hi)⟩

theorem Proper_bind {α β : Type} (f : α → Rand β) (hf : ∀ a, Proper (f a)) :
    ∀ (p : Rand α), Proper p → Proper (p.bind f)
  | .pure a, _ => hf a
  | .draw _ k, h => ⟨h.1, fun i hi => Proper_bind f hf (k i) (h.2 i hi)⟩

theorem proper_next (n : Nat) (hn : 0 < n) : Proper (next n) := ⟨hn, fun _ _ => trivial⟩

variable (cfg : Cfg) (r : WLRecipe)

theorem proper_sep : Proper (r.sep.call cfg) := proper_of_noZero _ (C13.sepCall_noZero cfg r.sep)

theorem proper_posChoice (size L i : Nat) (hs : 0 < size) : Proper (posChoice cfg r size L i) := by
  unfold posChoice
  split
  · exact Proper_bind _ (fun _ => Proper_bind _ (fun _ => by simp [Proper]) _ (proper_sep cfg r)) _ (proper_next size hs)
  · exact Proper_bind _ (fun _ => by simp [Proper]) _ (proper_next size hs)

theorem proper_choices (size L : Nat) (hs : 0 < size) : ∀ (n i : Nat), Proper (choices cfg r size L i n)
  | 0, _ => trivial
  | n + 1, i => by
    unfold choices
    exact Proper_bind _ (fun _ => Proper_bind _ (fun _ => by simp [Proper]) _ (proper_choices size L hs n (i + 1))) _
      (proper_posChoice cfg r size L i hs)

/-- One step of the choice process under an expectation. -/
theorem E_choices_succ (size L n i : Nat) (f : List (Nat × Word) → ℚ) :
    E (choices cfg r size L i (n + 1)) f =
      E (posChoice cfg r size L i) fun c => E (choices cfg r size L (i + 1) n) fun rest => f (c :: rest) := by
  conv_lhs => unfold choices
  rw [E_bind]
  congr 1
  funext c
  rw [E_bind]
  rfl

/-- The word index chosen at one position, whatever the separator: uniform. -/
theorem posChoice_word (size L i j : Nat) (hj : j < size) :
    E (posChoice cfg r size L i) (fun c => if c.1 = j then 1 else 0) = 1 / (size : ℚ) := by
  have hn := E_next_ind size j hj
  unfold posChoice
  split
  · rw [E_bind]
    have : (fun j' : Nat => E ((r.sep.call cfg).bind fun p => Rand.pure (j', p.1)) fun c => if c.1 = j then (1 : ℚ) else 0) = ind j := by
      funext j'
      rw [E_bind]
      simp only [E_pure]
      exact E_const (if j' = j then 1 else 0) _ (proper_sep cfg r)
    rw [this, hn]
  · rw [E_bind]
    simp only [E_pure]
    exact hn

/-- **Every word is uniform over the list**: position `k` holds entry `j` with probability
`1/size` — for every separator setting, every length, every list size. -/
theorem word_marginal (size L : Nat) (hs : 0 < size) (j : Nat) (hj : j < size) :
    ∀ (n i k : Nat), k < n →
      E (choices cfg r size L i n) (fun ch => if (ch[k]?).map Prod.fst = some j then 1 else 0) = 1 / (size : ℚ)
  | 0, _, _, h => by omega
  | n + 1, i, 0, _ => by
    rw [E_choices_succ]
    have : (fun c : Nat × Word => E (choices cfg r size L (i + 1) n) fun rest =>
        if ((c :: rest)[0]?).map Prod.fst = some j then (1 : ℚ) else 0) = fun c => if c.1 = j then 1 else 0 := by
      funext c
      simp only [List.getElem?_cons_zero, Option.map_some, Option.some.injEq]
      exact E_const _ _ (proper_choices cfg r size L hs n (i + 1))
    rw [this]
    exact posChoice_word cfg r size L i j hj
  | n + 1, i, k + 1, h => by
    rw [E_choices_succ]
    have : (fun c : Nat × Word => E (choices cfg r size L (i + 1) n) fun rest =>
        if ((c :: rest)[k + 1]?).map Prod.fst = some j then (1 : ℚ) else 0) = fun _ => 1 / (size : ℚ) := by
      funext c
      simp only [List.getElem?_cons_succ]
      exact word_marginal size L hs j hj n (i + 1) k (by omega)
    rw [this]
    exact E_const _ _ (proper_posChoice cfg r size L i hs)

/-- The separator chosen after an inner position, whatever the word: the separator function's
own law. -/
theorem posChoice_sep (size L i : Nat) (hs : 0 < size) (hi : i + 1 < L) (s : Word) :
    E (posChoice cfg r size L i) (fun c => if c.2 = s then 1 else 0) = sepProb cfg r s := by
  unfold posChoice
  rw [if_pos hi, E_bind]
  have : (fun j' : Nat => E ((r.sep.call cfg).bind fun p => Rand.pure (j', p.1)) fun c => if c.2 = s then (1 : ℚ) else 0) =
      fun _ => sepProb cfg r s := by
    funext j'
    rw [E_bind]
    rfl
  rw [this]
  exact E_const _ _ (proper_next size hs)

/-- **Each separator is a fresh draw from its function**: the separator after position `i + k`
(an inner position) is `s` with exactly the probability that one call of the separator function
returns `s` — independently of how many calls came before and of the words around it. -/
theorem sep_marginal (size L : Nat) (hs : 0 < size) (s : Word) :
    ∀ (n i k : Nat), k < n → i + k + 1 < L →
      E (choices cfg r size L i n) (fun ch => if (ch[k]?).map Prod.snd = some s then 1 else 0) = sepProb cfg r s
  | 0, _, _, h, _ => by omega
  | n + 1, i, 0, _, hl => by
    rw [E_choices_succ]
    have : (fun c : Nat × Word => E (choices cfg r size L (i + 1) n) fun rest =>
        if ((c :: rest)[0]?).map Prod.snd = some s then (1 : ℚ) else 0) = fun c => if c.2 = s then 1 else 0 := by
      funext c
      simp only [List.getElem?_cons_zero, Option.map_some, Option.some.injEq]
      exact E_const _ _ (proper_choices cfg r size L hs n (i + 1))
    rw [this]
    exact posChoice_sep cfg r size L i hs (by omega) s
  | n + 1, i, k + 1, h, hl => by
    rw [E_choices_succ]
    have : (fun c : Nat × Word => E (choices cfg r size L (i + 1) n) fun rest =>
        if ((c :: rest)[k + 1]?).map Prod.snd = some s then (1 : ℚ) else 0) = fun _ => sepProb cfg r s := by
      funext c
      simp only [List.getElem?_cons_succ]
      exact sep_marginal size L hs s n (i + 1) k (by omega) (by omega)
    rw [this]
    exact E_const _ _ (proper_posChoice cfg r size L i hs)

/-- **Two positions are independent**: positions `k < k'` hold entries `j`, `j'` with probability
`1/size²`. -/
theorem word_pair_independent (size L : Nat) (hs : 0 < size) (j j' : Nat) (hj : j < size) (hj' : j' < size) :
    ∀ (n i k k' : Nat), k < k' → k' < n →
      E (choices cfg r size L i n)
        (fun ch => if (ch[k]?).map Prod.fst = some j ∧ (ch[k']?).map Prod.fst = some j' then 1 else 0) =
        1 / (size : ℚ) * (1 / (size : ℚ))
  | 0, _, _, _, _, h => by omega
  | n + 1, i, 0, k' + 1, _, h => by
    rw [E_choices_succ]
    have : (fun c : Nat × Word => E (choices cfg r size L (i + 1) n) fun rest =>
        if ((c :: rest)[0]?).map Prod.fst = some j ∧ ((c :: rest)[k' + 1]?).map Prod.fst = some j' then (1 : ℚ) else 0) =
        fun c => (1 / (size : ℚ)) * (if c.1 = j then 1 else 0) := by
      funext c
      simp only [List.getElem?_cons_zero, List.getElem?_cons_succ, Option.map_some, Option.some.injEq]
      by_cases hc : c.1 = j
      · simp only [hc, true_and, if_true, mul_one]
        exact word_marginal cfg r size L hs j' hj' n (i + 1) k' (by omega)
      · simp only [hc, false_and, if_false, mul_zero]
        exact E_zero _
    rw [this, E_const_mul, posChoice_word cfg r size L i j hj]
  | n + 1, i, k + 1, k' + 1, hk, h => by
    rw [E_choices_succ]
    have : (fun c : Nat × Word => E (choices cfg r size L (i + 1) n) fun rest =>
        if ((c :: rest)[k + 1]?).map Prod.fst = some j ∧ ((c :: rest)[k' + 1]?).map Prod.fst = some j' then (1 : ℚ) else 0) =
        fun _ => 1 / (size : ℚ) * (1 / (size : ℚ)) := by
      funext c
      simp only [List.getElem?_cons_succ]
      exact word_pair_independent size L hs j j' hj hj' n (i + 1) k k' (by omega) (by omega)
    rw [this]
    exact E_const _ _ (proper_posChoice cfg r size L i hs)

/-! ### Non-vacuity -/

/-- A three-word list, four positions, a hyphen as separator: the hypotheses are met, and
the statements give 1/3 per word and 1/9 per pair. -/
example :
    let r : WLRecipe := { list := none, length := 4, sepChar := [45], capitalize := "none" }
    E (choices { tbl := [], maxTrials := 200, frNum := 1, frDen := 1000000000 } r 3 4 0 4)
        (fun ch => if (ch[2]?).map Prod.fst = some 1 then 1 else 0) = 1 / 3 := by
  intro r
  exact word_marginal _ r 3 4 (by omega) 1 (by omega) 4 0 2 (by omega)

end Spg.C04
