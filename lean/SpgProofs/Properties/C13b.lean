/-
  C13 (continued) — the tolerance is the caller's to set, zero included.

  `MaxFailRate` is an exported variable; `0` ("tolerate no failure at all") is a legal setting.
  A recipe without (effective) requirements cannot fail: every candidate qualifies. So it must be
  honoured at EVERY tolerance — otherwise a caller who tightens the tolerance loses the default
  recipe and every separator preset (seeded change C16h did exactly that with `>=` for `>`).

  * `acceptable_of_no_requirements`: no effective requirement, a non-empty alphabet and at least one
    attempt ⇒ the pre-flight accepts, whatever `frNum / frDen` is — `0` included;
  * `genChars_no_failRate_of_no_requirements`: such a recipe is never refused with the fail-rate
    error; with Length ≥ 1 it goes to the attempt loop;
  * `acceptable_zero_tolerance_iff`: at tolerance 0 the pre-flight accepts exactly the recipes whose
    every candidate qualifies (`entropyD = total`): "no failure tolerated" means just that.
-/
import SpgProofs.Properties.C13

namespace Spg.C13
open Spg CharRecipe

variable (cfg : Cfg) (r : CharRecipe)

theorem total_pos_of_alphabet (ha : r.alphabet cfg.tbl ≠ []) : 0 < total cfg r := by
  unfold total CharRecipe.size
  have : 0 < (r.alphabet cfg.tbl).length := List.length_pos_iff.mpr ha
  exact Int.pow_pos (by exact_mod_cast this)

/-- **A recipe without effective requirements is accepted at every tolerance**, zero included. -/
theorem acceptable_of_no_requirements (h : (r.requiredUnion cfg.tbl).isEmpty = true)
    (ha : r.alphabet cfg.tbl ≠ []) (hT : 0 < cfg.maxTrials) : acceptable cfg r = true := by
  have hpos := total_pos_of_alphabet cfg r ha
  unfold acceptable entropyD
  simp only [h, if_true, Int.sub_self, Bool.and_eq_true, decide_eq_true_eq]
  refine ⟨hpos, ?_⟩
  rw [Int.zero_pow (by omega), Int.zero_mul]
  exact Int.mul_nonneg (Int.natCast_nonneg _) (Int.pow_nonneg (Int.le_of_lt hpos))

/-- …so it is never refused with the fail-rate error: with a positive length it reaches the
attempt loop (where, having no requirement, its first candidate is returned — `tryLoop` on a
recipe every candidate of which passes). -/
theorem genChars_no_failRate_of_no_requirements (h : (r.requiredUnion cfg.tbl).isEmpty = true)
    (hL : 1 ≤ r.length) (ha : r.alphabet cfg.tbl ≠ []) (hT : 0 < cfg.maxTrials) :
    genChars cfg r = tryLoop cfg r (r.alphabet cfg.tbl) r.length.toNat cfg.maxTrials :=
  (genChars_cases cfg r).2.2.2 hL ha (acceptable_of_no_requirements cfg r h ha hT)

/-- **At tolerance 0** (`frNum = 0`) the pre-flight accepts exactly when every candidate
qualifies. -/
theorem acceptable_zero_tolerance_iff (h0 : cfg.frNum = 0) (hd : 0 < cfg.frDen) (hT : 0 < cfg.maxTrials) :
    acceptable cfg r = true ↔ (0 < entropyD cfg r ∧ entropyD cfg r = total cfg r) := by
  unfold acceptable
  simp only [h0, Bool.and_eq_true, decide_eq_true_eq, Int.natCast_zero, Int.zero_mul]
  constructor
  · rintro ⟨hc, hle⟩
    refine ⟨hc, ?_⟩
    have hle' := entropyD_le_total cfg r
    have hd' : (0 : Int) < (cfg.frDen : Int) := by exact_mod_cast hd
    by_cases hne : total cfg r - entropyD cfg r = 0
    · omega
    · have hp : 0 < total cfg r - entropyD cfg r := by omega
      have : 0 < (total cfg r - entropyD cfg r) ^ cfg.maxTrials * (cfg.frDen : Int) :=
        Int.mul_pos (Int.pow_pos hp) hd'
      omega
  · rintro ⟨hc, he⟩
    refine ⟨hc, ?_⟩
    rw [he, Int.sub_self, Int.zero_pow (by omega), Int.zero_mul]
    exact Int.le_refl 0

/-- Non-vacuity: the digits preset at tolerance 0 — hypotheses met, accepted. -/
example :
    let cfg : Cfg := { tbl := [(4, [48, 49, 50, 51, 52, 53, 54, 55, 56, 57])], maxTrials := 200, frNum := 0, frDen := 1 }
    let r : CharRecipe := { length := 1, allow := 4, require := 0, exclude := 0, allowChars := [], requireSets := [], excludeChars := [] }
    (r.requiredUnion cfg.tbl).isEmpty = true ∧ r.alphabet cfg.tbl ≠ [] ∧ acceptable cfg r = true := by decide

end Spg.C13
