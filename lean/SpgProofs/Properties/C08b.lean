/-
  C08 (continued) — the retry budget and the tolerance are not inputs of a wordlist recipe's
  entropy, except through a separator built from a character recipe (whose own generation they
  govern — the known finding D9 lives there).

  * `sepCall_indep_of_budget`: a constant separator, `SeparatorChar`, or a caller-written separator
    function behaves the same under every `Cfg` (class table, `MaxTrials`, `MaxFailRate`);
  * `entropy_indep_of_budget`: hence so does `Entropy()` of a recipe using one;
  * `body_indep_of_budget`: and so do the words and separators `Generate` assembles.
  (Seeded change C08j made `Entropy()` sample a caller's separator in a loop bounded by `MaxTrials`.)
-/
import SpgProofs.Properties.C08
import Spg.Generated.Facts

namespace Spg.C08
open Spg WLRecipe

/-- Separators that are not built from a character recipe. -/
def NotRecipe : Sep → Prop
  | .recipe _ => False
  | _ => True

theorem sepCall_indep_of_budget (cfg cfg' : Cfg) (s : Sep) (h : NotRecipe s) : s.call cfg = s.call cfg' := by
  cases s with
  | recipe cr => exact absurd h (by simp [NotRecipe])
  | char c => rfl
  | const c => rfl
  | custom f o d => rfl

/-- **`Entropy()` does not read the budget** when the separator is not recipe-built. -/
theorem entropy_indep_of_budget (cfg cfg' : Cfg) (r : WLRecipe) (h : NotRecipe r.sep) :
    entropy cfg r = entropy cfg' r := by
  unfold entropy
  cases hs : r.sep with
  | recipe cr => rw [hs] at h; exact absurd h (by simp [NotRecipe])
  | char c => rfl
  | const c => rfl
  | custom f o d => rfl

/-- …nor does the loop that assembles the password. -/
theorem body_indep_of_budget (cfg cfg' : Cfg) (title : Word → Word) (r : WLRecipe) (h : NotRecipe r.sep)
    (words : List Word) (caps : Nat → Bool) (L : Nat) :
    ∀ (n i : Nat), body cfg title r words caps L i n = body cfg' title r words caps L i n
  | 0, _ => by simp [body]
  | n + 1, i => by
    unfold body
    simp only [sepCall_indep_of_budget cfg cfg' r.sep h, body_indep_of_budget cfg cfg' title r h words caps L n (i + 1)]

/-- Non-vacuity: a caller-written separator (three strings, 4 bits claimed) under budgets 0 and 200. -/
example :
    let r : WLRecipe := { list := some { words := [[97], [98]], unCap := 0 }, length := 3,
                          sepFunc := some (.custom [45] [[46], [95]] 16), capitalize := "none" }
    NotRecipe r.sep ∧
    entropy { tbl := [], maxTrials := 0, frNum := 0, frDen := 1 } r =
      entropy { tbl := [], maxTrials := 200, frNum := 1, frDen := 1000000000 } r := by
  refine ⟨by simp [NotRecipe, WLRecipe.sep], rfl⟩

/-- **No environment inputs**: the library calls into no package that could supply anything that
varies between runs or machines — clock, environment variables, processor count, scheduler,
`math/rand` — other than `crypto/rand.Read`. (Seeded change C07j made `Entropy()` depend on
`runtime.GOMAXPROCS`.) -/
theorem no_environment_inputs :
    (Spg.Generated.Facts.sensitiveCalls.all fun c => c.2.2.1 == "crypto/rand.Read") = true := by decide

/-- **The list's yes/no decisions are exact.** "Every word changes under title-casing" is a
statement about integers (the count of title-fixed words is 0) and the model decides it on
integers (`allCap`). In the source no comparison in `word_gen.go` has floating-point operands: a
ratio compared with 1.0 in float32 is right for every list up to 2^24 words and wrong beyond —
out of reach of any execution the harness can afford, which is why this is a theorem about the
regenerated facts. (Seeded change C08o compared `capitalizeRatio() >= 1.0` in float32.) -/
theorem list_decisions_exact :
    (Spg.Generated.Facts.floatCompares.filter fun c => c.1 == "word_gen.go") = [] := by decide

end Spg.C08
