/-
  C17 — The opgen CLI is faithful to the library recipe its flags describe.

  `Spg.Cli.action` models `main` of cmd/opgen: Go's `flag` parsing for the grammar actually used,
  the three word tables and the defaults — the tables, flag definitions, defaults and exit codes
  are REGENERATED from cmd/opgen/*.go (`Spg.Generated.cliTables`).
  * `cli_tables_ok`: the regenerated tables are the documented ones (class words, separator
    words, schemes, flag names/kinds/defaults, default character recipe, exit codes).
  * `cli_no_args`, `cli_unknown_subcommand`: no or unknown sub-command ⇒ usage (exit 2) or, for
    `-h`, help; never a recipe.
  * `parseClasses_spec`: a class list denotes the OR of the flags of its known words, spaces
    ignored, the defaults when empty — for every list of words.
  * `chars_defaults`, `words_defaults`: the bare sub-commands denote the documented defaults
    (20 characters, everything allowed minus ambiguous; 4 words, built-in list, hyphen, no caps).
  * the `example`s at the end are TESTS of the parser on representative command lines (each flag
    form: `--x=v`, `-x v`, booleans, `--`, unknown flag, missing value, bad integer, unknown
    list); the general statement for every command line is carried by the correspondence check,
    which runs the real binary against this model on generated command lines.
  What a denoted recipe may print (one line, in the recipe's support, or the entropy; exit 1 when
  refused) is then C03/C05/C06/C13 about that library recipe; the harness checks the binary's
  output against the model recipe's support.
-/
import Spg.Generated.Cli
import Spg.Generated.Classes
import SpgProofs.Lemmas.CliParse
namespace Spg.C17
open Spg Spg.Cli Spg.Generated

/-- The documented tables of opgen (its usage text). -/
def documentedTables : Tables where
  ccMap := [("uppercase", flagUppers), ("lowercase", flagLowers), ("digits", flagDigits),
            ("symbols", flagSymbols), ("ambiguous", flagAmbiguous)]
  sepMap := [("hyphen", "const:-"), ("space", "const: "), ("comma", "const:,"), ("period", "const:."),
             ("underscore", "const:_"), ("digit", "preset:SFDigits1"), ("none", "preset:SFNone")]
  capMap := [("none", "none"), ("first", "first"), ("all", "all"), ("random", "random"), ("one", "one")]
  charFlags := [("allow", .str, ""), ("entropy", .bool, "false"), ("exclude", .str, ""),
                ("length", .int, "20"), ("require", .str, "")]
  wordFlags := [("capitalize", .str, "none"), ("entropy", .bool, "false"), ("file", .str, ""),
                ("list", .str, "words"), ("separator", .str, "hyphen"), ("size", .int, "4")]
  defAllow := ["uppercase", "lowercase", "digits", "symbols"]
  defRequire := []
  defExclude := ["ambiguous"]
  exitCatchall := 1
  exitUsage := 2

/-- **The tables in the source are the documented ones.** -/
theorem cli_tables_ok : cliTables = documentedTables ∧ cliExitSuccess = 0 := by decide

/-- What an output call of opgen may look like: the entropy (`fmt.Printf` with a constant format and
a number), the password line (`fmt.Println` of one string) or constant usage text, and failures
through the log (standard error). A password given to `Printf` as a format, a second print of
the password, a `fmt.Print` of something else — each is a site of another shape. Function names
do not matter (extracting a helper changes nothing here). -/
def okCliOutput (s : String × String × String × List String) : Bool :=
  let callee := s.2.2.1
  let args := s.2.2.2
  if callee == "fmt.Printf" then
    args.head? == some "const" && args.tail.all (fun a => a == "const" || a == "numeric:float32" || a == "numeric:float64")
  else if callee == "fmt.Println" then
    args == ["other:string"] || args.all (· == "const")
  else
    ["log.Fatalln", "log.Fatalf", "log.Fatal", "log.Printf", "log.Println", "log.Print"].contains callee

theorem cli_output_sites : (cliOutputSites.all okCliOutput) = true := by decide

/-- Exactly one site prints a string that is not a constant: the password line. -/
theorem cli_one_password_site :
    (cliOutputSites.filter fun s => s.2.2.1 == "fmt.Println" && s.2.2.2 == ["other:string"]).length = 1 := by decide

/-- Packages whose functions compute on their arguments only (no I/O, no state). -/
def purePackages : List String := ["strings", "strconv", "unicode", "unicode/utf8", "sort", "bytes", "math", "errors"]

/-- The I/O and library surface the model of `main` accounts for: the word file is read whole
(`ioutil.ReadFile` / `os.ReadFile`), lists go through `NewWordList`, recipes through the two
constructors and the `Generator` interface, flags through package `flag`, results leave through
`fmt.Printf`/`fmt.Println`, failures through `log` and `os.Exit`. -/
def cliSurface : List (String × String) :=
  [("(*flag.FlagSet)", "Parse"), ("flag", "Parse"), ("flag", "NewFlagSet"),
   ("(go.1password.io/spg.Generator)", "Entropy"), ("(go.1password.io/spg.Generator)", "Generate"),
   ("(go.1password.io/spg.Password)", "String"), ("(*go.1password.io/spg.Password)", "String"),
   ("go.1password.io/spg", "NewCharRecipe"), ("go.1password.io/spg", "NewWLRecipe"), ("go.1password.io/spg", "NewWordList"),
   ("io/ioutil", "ReadFile"), ("os", "ReadFile"), ("os", "Exit"),
   ("fmt", "Printf"), ("fmt", "Println"), ("fmt", "Sprintf"), ("fmt", "Errorf"),
   ("log", "Fatalln"), ("log", "Fatalf"), ("log", "Fatal"), ("log", "Printf"), ("log", "Println")]

/-- Every function of another package and every method that opgen calls is a pure helper or part
of that surface. A different way of reading the file, of printing the result, of reaching the
library (a direct call to a recipe method, say) is outside it and breaks this obligation; whether
it breaks the property is then for the failing-input search to say. Which of opgen's own
functions makes the call does not matter. -/
theorem cli_calls : (cliCalls.all fun c => purePackages.contains c.1 || cliSurface.contains c) = true := by decide

theorem cli_no_args (t : Tables) : action t [] = .usage := rfl

/-- A first argument other than the two sub-commands never denotes a recipe: usage (exit 2),
or help for `-h`/`-help`. -/
theorem cli_unknown_subcommand (t : Tables) (a0 : String) (rest : List String)
    (h1 : a0 ≠ "characters") (h2 : a0 ≠ "words") :
    action t (a0 :: rest) = .usage ∨ action t (a0 :: rest) = .help := by
  unfold action
  simp only
  cases parseFlags [] 1 [a0] [] with
  | help => exact Or.inr rfl
  | bad => exact Or.inl rfl
  | ok vals => simp [h1, h2]

/-- A class list denotes the OR of the flags of the words the table knows; unknown words are
ignored; an empty value means the defaults. -/
theorem parseClasses_spec (t : Tables) (value : String) (defaults : List String) :
    parseClasses t value defaults =
      ((if value != "" then (splitAll ',' (value.toList.filter (· != ' '))).map String.ofList else defaults).filterMap
        (fun c => t.ccMap.lookup c)).foldl (· ||| ·) 0 := by
  unfold parseClasses
  generalize (if value != "" then (splitAll ',' (value.toList.filter (· != ' '))).map String.ofList else defaults) = ws
  generalize (0 : Nat) = acc
  induction ws generalizing acc with
  | nil => rfl
  | cons w ws ih =>
    simp only [List.foldl_cons, List.filterMap_cons]
    cases h : t.ccMap.lookup w with
    | none => simp only [h]; exact ih acc
    | some f => simp only [h, List.foldl_cons]; exact ih (acc ||| f)

/-- `opgen characters`: 20 characters, everything allowed, ambiguous characters excluded. -/
theorem chars_defaults :
    (match action cliTables ["characters"] with
      | .chars r ent => some (r.length, r.allow, r.require, r.exclude, ent)
      | _ => none) = some (20, flagAll, flagNone, flagAmbiguous, false) := by decide

/-- `opgen words`: 4 words from the built-in word list, hyphen separator, no capitalisation. -/
theorem words_defaults :
    (match action cliTables ["words"] with
      | .words list L sep cap ent => some (list, L, sep, cap, ent)
      | _ => none) = some ("words", 4, "const:-", "none", false) := by decide

/-! ### Every valid `--name=value` command line denotes the documented recipe -/

/-- **`opgen characters` with any valid list of `--name=value` arguments** (defined flag names,
integers for `--length`, booleans for `--entropy`, any text for the class lists — in any
order, with repetitions) denotes the character recipe obtained by taking for each flag the last
value given, the flag's default otherwise, and reading each class list as the OR of its known
class words (`parseClasses_spec`). For the shipped tables (`cli_tables_ok`) the defaults are
20, all-but-ambiguous, nothing required. -/
theorem cli_characters_spec (assigns : List (String × String))
    (hv : ∀ a ∈ assigns, ValidAssign cliTables.charFlags a) :
    action cliTables ("characters" :: assigns.map render) =
      (let g := fun k => getVal cliTables.charFlags
          (assigns.foldl (fun vs a => setVal vs a.1 (stored cliTables.charFlags a)) []) k
       Action.chars { length := (parseInt (g "length")).getD 0,
                      allow := parseClasses cliTables (g "allow") cliTables.defAllow,
                      require := parseClasses cliTables (g "require") cliTables.defRequire,
                      exclude := parseClasses cliTables (g "exclude") cliTables.defExclude,
                      allowChars := [], requireSets := [], excludeChars := [] }
                    (g "entropy" == "true")) :=
  action_characters cliTables assigns hv

/-- The same for `opgen words`: list, size, separator word, capitalisation word, `--entropy`;
an unknown list word is a usage error, unknown separator/scheme words mean none. -/
theorem cli_words_spec (assigns : List (String × String))
    (hv : ∀ a ∈ assigns, ValidAssign cliTables.wordFlags a) :
    action cliTables ("words" :: assigns.map render) =
      (let g := fun k => getVal cliTables.wordFlags
          (assigns.foldl (fun vs a => setVal vs a.1 (stored cliTables.wordFlags a)) []) k
       let list := if g "file" != "" then "file" else g "list"
       if list != "file" && list != "words" && list != "syllables" then Action.usage
       else Action.words list ((parseInt (g "size")).getD 0) (sepOf cliTables (g "separator"))
              (capOf cliTables (g "capitalize")) (g "entropy" == "true")) :=
  action_words cliTables assigns hv

/-- "The last value given, the default otherwise": what `getVal` returns after the parse. -/
theorem cli_flag_last_wins (defs : List (String × FlagKind × String)) (assigns : List (String × String)) (k : String) :
    getVal defs (assigns.foldl (fun vs a => setVal vs a.1 (stored defs a)) []) k =
      match lastValue defs k assigns none with
      | some v => v
      | none => match defs.lookup k with
        | some (_, d) => d
        | none => "" :=
  getVal_fold defs assigns k

/-- Non-vacuity: a command line with a repeated flag meets the hypotheses, and denotes the recipe
with the last length given. -/
example :
    let assigns := [("length", "12"), ("require", "digits,symbols"), ("length", "8"), ("entropy", "true")]
    (∀ a ∈ assigns, ValidAssign cliTables.charFlags a) ∧
    (match action cliTables ("characters" :: assigns.map render) with
      | .chars r ent => some (r.length, r.require, ent) | _ => none) = some (8, 12, true) := by
  refine ⟨?_, by decide⟩
  intro a ha
  simp only [List.mem_cons, List.not_mem_nil, or_false] at ha
  rcases ha with rfl | rfl | rfl | rfl
  · exact ⟨⟨'l', "ength".toList, by decide, by decide, by decide⟩, by decide, .int, "20", by decide, by decide, by decide⟩
  · exact ⟨⟨'r', "equire".toList, by decide, by decide, by decide⟩, by decide, .str, "", by decide, by decide, by decide⟩
  · exact ⟨⟨'l', "ength".toList, by decide, by decide, by decide⟩, by decide, .int, "20", by decide, by decide, by decide⟩
  · exact ⟨⟨'e', "ntropy".toList, by decide, by decide, by decide⟩, by decide, .bool, "false", by decide, by decide, by decide⟩

/-! ### Tests of the parser on representative command lines (tests, not the general claim) -/

example : (match action cliTables ["characters", "--length=12", "-require", "digits, symbols", "--exclude=ambiguous,digits"] with
    | .chars r ent => some (r.length, r.allow, r.require, r.exclude, ent) | _ => none)
    = some (12, 15, 12, 20, false) := by decide

example : (match action cliTables ["characters", "--entropy", "--allow", "lowercase,bogus"] with
    | .chars r ent => some (r.length, r.allow, r.require, r.exclude, ent) | _ => none)
    = some (20, 2, 0, 16, true) := by decide

example : (match action cliTables ["words", "-size", "6", "--list=syllables", "--separator=digit", "--capitalize", "one", "--entropy=1"] with
    | .words list L sep cap ent => some (list, L, sep, cap, ent) | _ => none)
    = some ("syllables", 6, "preset:SFDigits1", "one", true) := by decide

example : (match action cliTables ["words", "--file", "/some/path", "--separator=bogus", "--capitalize=bogus"] with
    | .words list L sep cap ent => some (list, L, sep, cap, ent) | _ => none)
    = some ("file", 4, "nil", "", false) := by decide

/-- Unknown flag, missing value, bad integer, unknown list, unknown sub-command: usage. `-h`: help. -/
example :
    (match action cliTables ["characters", "--bogus"] with | .usage => true | _ => false) = true ∧
    (match action cliTables ["characters", "--length"] with | .usage => true | _ => false) = true ∧
    (match action cliTables ["characters", "--length=abc"] with | .usage => true | _ => false) = true ∧
    (match action cliTables ["words", "--list=bogus"] with | .usage => true | _ => false) = true ∧
    (match action cliTables ["recipe"] with | .usage => true | _ => false) = true ∧
    (match action cliTables ["-x"] with | .usage => true | _ => false) = true ∧
    (match action cliTables ["words", "-h"] with | .help => true | _ => false) = true ∧
    (match action cliTables ["characters", "--", "--bogus"] with | .chars _ _ => true | _ => false) = true := by
  decide

end Spg.C17
