/-
  C12 (continued) — the tokens are slices of the CALLER'S string, whoever else is decoding.

  The model's `tokenize` is a function of the string and the index and of nothing else, so
  `tokenize_prefix` speaks about every call, made alone or while other calls are in progress —
  provided the source has no place where one call could leave something for another to pick up.
  That is a fact about the source, regenerated on every run: no function of the package assigns a
  package-level variable, a captured variable, or an element of a parameter (`writesAreLocal`),
  and every package-level variable is plain initialised data or one of the separator presets
  (`packageStateOK`) — in particular there is no shared scratch buffer that `Tokenize` (or a helper
  it calls to split the string) refills on every call. The harness exercises the same statement on
  the real code: several goroutines decode different strings at the same moment and each must get
  the slices of its own string (`CONCURRENCY-DEPENDENT`).
-/
import SpgProofs.Properties.C12
import SpgProofs.Lemmas.FactPreds
namespace Spg.C12b
open Spg

/-- No call of the package leaves anything behind for a concurrent or later call: every
assignment is local to the call, every package-level variable is initialised data. -/
theorem no_shared_scratch : FactPreds.writesAreLocal = true ∧ FactPreds.packageStateOK = true := by
  decide

end Spg.C12b
