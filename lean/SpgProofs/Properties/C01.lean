/-
  C01 — Bounded random draws are exactly uniform for every bound (no modulo bias).

  For every bound n in [1, 2^32) the body of `randomUint32n` (model: `Spg.step`) is characterised
  completely: it rejects exactly the raw words in the incomplete last block `[n·⌊2^32/n⌋, 2^32)`
  and returns `v % n` otherwise (`step_spec`); hence every alternative k < n has exactly
  ⌊2^32/n⌋ preimages among the 2^32 raw words (`step_uniform`), results are in range (`step_lt`),
  more than half of all raw words are accepted (`accept_majority`), and for tapes of every
  length the number of tapes on which the draw returns k is the same for every k
  (`tapeCount_succ`, `tape_uniform`): every continuation after a rejected value.
  The counts are over `List.range (2^32)` — a term that is reasoned about, never evaluated.
-/
import SpgProofs.Lemmas.Draw
namespace Spg.C01
open Spg

/-- Complete specification of one pass of the draw loop. -/
theorem step_spec (n v : Nat) (hn : 0 < n) (hn32 : n < two32) (hv : v < two32) :
    step n v = if v < n * (two32 / n) then some (v % n) else none := by
  unfold step
  by_cases hp : n &&& (n - 1) = 0
  · -- power of two: the mask is `% n`, and nothing is rejected
    rw [if_pos hp]
    obtain ⟨k, rfl⟩ := (Nat.and_sub_one_eq_zero_iff_isPowerOfTwo (by omega)).mp hp
    have hdiv := pow2_dvd_two32 k hn32
    have hfull : 2 ^ k * (two32 / 2 ^ k) = two32 := by
      have := Nat.div_add_mod two32 (2 ^ k); omega
    rw [hfull, if_pos hv, Nat.and_two_pow_sub_one_eq_mod]
  · rw [if_neg hp]
    have hnp : ¬ n.isPowerOfTwo := fun h =>
      hp ((Nat.and_sub_one_eq_zero_iff_isPowerOfTwo (by omega)).mpr h)
    have hnd : two32 % n ≠ 0 := fun h => hnp (dvd_two32_isPowerOfTwo n h)
    simp only [discard_eq n hn hnd]
    by_cases hlt : v < n * (two32 / n)
    · rw [if_pos hlt, if_neg (by omega)]
    · rw [if_neg hlt, if_pos (by omega)]

/-- The result of a draw is always a valid alternative. -/
theorem step_lt (n v k : Nat) (hn : 0 < n) (h : step n v = some k) : k < n := by
  unfold step at h
  split at h
  · injection h with h; subst h
    have : v &&& (n - 1) ≤ n - 1 := Nat.and_le_right
    omega
  · simp only at h
    split at h
    · cases h
    · injection h with h; subst h; exact Nat.mod_lt _ hn

/-- A raw word is discarded exactly when it lies in the incomplete last block: the threshold is
the largest multiple of `n` that fits, nothing is thrown away needlessly. -/
theorem step_none_iff (n v : Nat) (hn : 0 < n) (hn32 : n < two32) (hv : v < two32) :
    step n v = none ↔ n * (two32 / n) ≤ v := by
  rw [step_spec n v hn hn32 hv]; split <;> simp <;> omega

/-- Number of raw words (out of all 2^32) on which one pass returns `k`. -/
def preimages (n k : Nat) : Nat := (List.range two32).countP fun v => step n v == some k

/-- Number of raw words accepted by one pass. -/
def accepted (n : Nat) : Nat := (List.range two32).countP fun v => (step n v).isSome

/-- **No modulo bias**: every alternative has exactly `⌊2^32 / n⌋` preimages. -/
theorem step_uniform (n k : Nat) (hn : 0 < n) (hn32 : n < two32) (hk : k < n) :
    preimages n k = two32 / n := by
  unfold preimages
  have hcongr : (List.range two32).countP (fun v => step n v == some k) =
      (List.range two32).countP (fun v => decide (v < n * (two32 / n)) && (v % n == k)) := by
    apply List.countP_congr
    intro v hv
    simp at hv
    rw [step_spec n v hn hn32 hv]
    by_cases h : v < n * (two32 / n) <;> simp [h]
  rw [hcongr, countP_below _ _ (Nat.mul_div_le two32 n), Nat.mul_comm]
  exact countP_mod_range n (two32 / n) k hk

/-- Any two alternatives are equally likely. -/
theorem step_unbiased (n k k' : Nat) (hn : 0 < n) (hn32 : n < two32) (hk : k < n) (hk' : k' < n) :
    preimages n k = preimages n k' := by
  rw [step_uniform n k hn hn32 hk, step_uniform n k' hn hn32 hk']

/-- The accepted raw words are exactly the `n·⌊2^32/n⌋` below the threshold. -/
theorem accepted_eq (n : Nat) (hn : 0 < n) (hn32 : n < two32) : accepted n = n * (two32 / n) := by
  unfold accepted
  have hcongr : (List.range two32).countP (fun v => (step n v).isSome) =
      (List.range two32).countP (fun v => decide (v < n * (two32 / n)) && true) := by
    apply List.countP_congr
    intro v hv
    simp at hv
    rw [step_spec n v hn hn32 hv]
    by_cases h : v < n * (two32 / n) <;> simp [h]
  rw [hcongr, countP_below _ _ (Nat.mul_div_le two32 n)]
  simp

/-- More than half of all raw words are accepted: selection terminates with probability one
(each pass succeeds with probability above 1/2, independently). -/
theorem accept_majority (n : Nat) (hn : 0 < n) (hn32 : n < two32) : two32 < 2 * accepted n := by
  rw [accepted_eq n hn hn32]
  have hdm := Nat.div_add_mod two32 n
  have hlt := Nat.mod_lt two32 hn
  by_cases h : 2 * n ≤ two32
  · -- the rejected block is shorter than n ≤ 2^31
    omega
  · -- n > 2^31: exactly n words are accepted
    have hq : two32 / n = 1 := by
      have h1 : 1 ≤ two32 / n := (Nat.le_div_iff_mul_le hn).mpr (by omega)
      have h2 : two32 / n < 2 := (Nat.div_lt_iff_lt_mul hn).mpr (by omega)
      omega
    rw [hq]; omega

/-! ### Tapes of every length: every continuation after rejected values -/

/-- All tapes of `m` raw words. -/
def tapes : Nat → List (List Nat)
  | 0 => [[]]
  | m + 1 => (List.range two32).flatMap fun v => (tapes m).map (v :: ·)

/-- Does the draw return `k` on this tape? -/
def hits (n k : Nat) (t : List Nat) : Bool :=
  match drawWords n t with
  | .ok k' _ => k' == k
  | _ => false

/-- Number of tapes of length `m` on which the draw returns `k`. -/
def tapeCount (n k m : Nat) : Nat := (tapes m).countP (hits n k)

theorem length_flatMap_const {α β : Type} (l : List α) (f : α → List β) (c : Nat)
    (h : ∀ a ∈ l, (f a).length = c) : (l.flatMap f).length = l.length * c := by
  induction l with
  | nil => simp
  | cons a l ih =>
    rw [List.flatMap_cons, List.length_append, h a (List.mem_cons_self),
      ih (fun b hb => h b (List.mem_cons_of_mem _ hb)), List.length_cons, Nat.succ_mul]
    omega

theorem tapes_length (m : Nat) : (tapes m).length = two32 ^ m := by
  induction m with
  | zero => simp [tapes]
  | succ m ih =>
    rw [tapes, length_flatMap_const _ _ (two32 ^ m) (fun a _ => by rw [List.length_map, ih]),
      List.length_range, Nat.pow_succ, Nat.mul_comm]

/-- Sum of a three-valued function over a list, by classes. -/
theorem sum_by_class (l : List Nat) (p q : Nat → Bool) (a b : Nat)
    (hdisj : ∀ v ∈ l, ¬ (p v = true ∧ q v = true)) :
    (l.map fun v => if p v then a else if q v then b else 0).sum = l.countP p * a + l.countP q * b := by
  induction l with
  | nil => simp
  | cons v l ih =>
    have ih' := ih (fun w hw => hdisj w (List.mem_cons_of_mem _ hw))
    have hd := hdisj v (List.mem_cons_self)
    simp only [List.map_cons, List.sum_cons, ih', List.countP_cons]
    by_cases hp : p v = true
    · have hq : q v = false := by
        cases hqv : q v with
        | false => rfl
        | true => exact absurd ⟨hp, hqv⟩ hd
      simp [hp, hq, Nat.add_mul]; omega
    · by_cases hq : q v = true
      · simp [hp, hq, Nat.add_mul]; omega
      · simp [hp, hq]

/-- Extending every tape of `ts` by a first word from `l`: per first word, all continuations
count (accepted with residue `k`), none (accepted otherwise), or the recursive count (rejected). -/
theorem countP_extend (n k : Nat) (l : List Nat) (ts : List (List Nat)) :
    (l.flatMap fun v => ts.map (v :: ·)).countP (hits n k) =
      (l.map fun v => if step n v == some k then ts.length
        else if (step n v).isNone then ts.countP (hits n k) else 0).sum := by
  induction l with
  | nil => simp
  | cons v l ih =>
    rw [List.flatMap_cons, List.countP_append, ih, List.map_cons, List.sum_cons]
    congr 1
    rw [List.countP_map]
    cases hs : step n v with
    | none =>
      have h1 : ((none : Option Nat) == some k) = false := rfl
      simp only [h1, Bool.false_eq_true, if_false, Option.isNone_none, if_true]
      apply List.countP_congr; intro t _
      simp [hits, drawWords, hs]
    | some k' =>
      by_cases hkk : k' = k
      · subst hkk
        simp only [beq_self_eq_true, if_true]
        rw [List.countP_eq_length]
        intro t _; simp [hits, drawWords, hs]
      · have h1 : (some k' == some k) = false := by simp [hkk]
        simp only [h1, Bool.false_eq_true, if_false, Option.isNone_some]
        rw [List.countP_eq_zero]; intro t _; simp [hits, drawWords, hs, hkk]

/-- The recurrence for tapes: the first word is accepted with residue `k` (`⌊2^32/n⌋` words, any
continuation), or rejected (`2^32 - n·⌊2^32/n⌋` words) and the rest of the tape decides. -/
theorem tapeCount_succ (n k m : Nat) (hn : 0 < n) (hn32 : n < two32) (hk : k < n) :
    tapeCount n k (m + 1) =
      (two32 / n) * two32 ^ m + (two32 - n * (two32 / n)) * tapeCount n k m := by
  unfold tapeCount
  rw [tapes, countP_extend, sum_by_class, tapes_length]
  · have h1 : (List.range two32).countP (fun v => step n v == some k) = two32 / n :=
      step_uniform n k hn hn32 hk
    have h2 : (List.range two32).countP (fun v => (step n v).isNone) = two32 - n * (two32 / n) := by
      have hacc := accepted_eq n hn hn32
      unfold accepted at hacc
      have hsum : (List.range two32).countP (fun v => (step n v).isSome) +
          (List.range two32).countP (fun v => (step n v).isNone) = two32 := by
        have h := List.length_eq_countP_add_countP (fun v => (step n v).isSome) (l := List.range two32)
        rw [List.length_range] at h
        have hc : (List.range two32).countP (fun v => decide ¬ ((step n v).isSome = true)) =
            (List.range two32).countP (fun v => (step n v).isNone) := by
          apply List.countP_congr; intro v _; cases step n v <;> simp
        omega
      omega
    rw [h1, h2]
  · intro v _ h
    cases hs : step n v <;> simp [hs] at h

/-- **Uniform for tapes of every length**: the number of tapes on which the draw yields `k`
does not depend on `k`. -/
theorem tape_uniform (n k k' m : Nat) (hn : 0 < n) (hn32 : n < two32) (hk : k < n) (hk' : k' < n) :
    tapeCount n k m = tapeCount n k' m := by
  induction m with
  | zero => simp [tapeCount, tapes, hits, drawWords]
  | succ m ih => rw [tapeCount_succ n k m hn hn32 hk, tapeCount_succ n k' m hn hn32 hk', ih]

/-! ### The raw word: four bytes, big endian -/

/-- Four bytes determine the word and the word determines the four bytes: uniform bytes give a
uniform word. -/
theorem wordOfBytes_injective (a b c d a' b' c' d' : Nat)
    (ha : a < 256) (hb : b < 256) (hc : c < 256) (hd : d < 256)
    (ha' : a' < 256) (hb' : b' < 256) (hc' : c' < 256) (hd' : d' < 256)
    (h : wordOfBytes a b c d = wordOfBytes a' b' c' d') : a = a' ∧ b = b' ∧ c = c' ∧ d = d' := by
  unfold wordOfBytes at h; omega

theorem wordOfBytes_lt (a b c d : Nat) (ha : a < 256) (hb : b < 256) (hc : c < 256) (hd : d < 256) :
    wordOfBytes a b c d < two32 := by
  unfold wordOfBytes two32; omega

theorem wordOfBytes_surjective (v : Nat) (hv : v < two32) :
    ∃ a b c d, a < 256 ∧ b < 256 ∧ c < 256 ∧ d < 256 ∧ wordOfBytes a b c d = v := by
  refine ⟨v / 16777216, v / 65536 % 256, v / 256 % 256, v % 256, ?_, ?_, ?_, ?_, ?_⟩
  · unfold two32 at hv; omega
  · omega
  · omega
  · omega
  · unfold wordOfBytes; omega

/-! ### The machine-word code computes the specification (no wrap-around) -/

theorem stepU_refines (n v : UInt32) (hn : n ≠ 0) :
    (stepU n v).map (·.toNat) = step n.toNat v.toNat := by
  have hn' : 0 < n.toNat := by
    rcases Nat.eq_zero_or_pos n.toNat with h | h
    · exact absurd (UInt32.toNat_inj.mp (by simpa using h)) hn
    · exact h
  have hlt : n.toNat < 4294967296 := n.toNat_lt
  have hvlt : v.toNat < 4294967296 := v.toNat_lt
  have hsub : (n - 1).toNat = n.toNat - 1 := by
    rw [UInt32.toNat_sub_of_le]
    · rfl
    · rw [UInt32.le_iff_toNat_le]; simp; omega
  unfold stepU step
  have hcond : (n &&& (n - 1) = 0) ↔ (n.toNat &&& (n.toNat - 1) = 0) := by
    rw [← UInt32.toNat_inj, UInt32.toNat_and, hsub]; simp
  by_cases hp : n.toNat &&& (n.toNat - 1) = 0
  · rw [if_pos (hcond.mpr hp), if_pos hp]
    simp [UInt32.toNat_and, hsub]
  · rw [if_neg (fun h => hp (hcond.mp h)), if_neg hp]
    have hmod : (0xFFFFFFFF % n : UInt32).toNat = maxU32 % n.toNat := by
      rw [UInt32.toNat_mod]; rfl
    have hdisc : ((0xFFFFFFFF : UInt32) - 0xFFFFFFFF % n).toNat = maxU32 - maxU32 % n.toNat := by
      rw [UInt32.toNat_sub_of_le]
      · rw [hmod]; rfl
      · rw [UInt32.le_iff_toNat_le, hmod]
        have : maxU32 % n.toNat ≤ maxU32 := Nat.mod_le _ _
        simpa [maxU32] using this
    simp only
    by_cases hge : v.toNat ≥ maxU32 - maxU32 % n.toNat
    · rw [if_pos hge, if_pos]
      · rfl
      · rw [ge_iff_le, UInt32.le_iff_toNat_le, hdisc]; exact hge
    · rw [if_neg hge, if_neg]
      · simp [UInt32.toNat_mod]
      · rw [ge_iff_le, UInt32.le_iff_toNat_le, hdisc]; exact hge

/-! ### Non-vacuity -/

/-- The hypotheses are met by a bound that is not a power of two, and the rejected block is real. -/
example : 0 < 10 ∧ 10 < two32 ∧ step 10 4294967290 = none ∧ step 10 4294967289 = some 9 := by decide

example : step 16 255 = some 15 ∧ step 4294967295 4294967294 = some 4294967294 ∧
    step 4294967295 4294967295 = none := by decide

end Spg.C01
