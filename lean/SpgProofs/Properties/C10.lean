/-
  C10 — Word lists normalise to a duplicate-free set; capitalised twins are removed.

  `newWordListOrd title input order` is NewWordList with Go's map iteration order in the
  twin-removal pass made an explicit argument. All theorems hold for EVERY order that reaches
  every distinct word (as a map iteration does) and for every idempotent `title`
  (`strings.Title` is a parameter; idempotence is checked on the real function by the harness).
-/
import SpgProofs.Lemmas.WordList
import SpgProofs.Properties.C05
namespace Spg.C10
open Spg

variable (title : Word → Word)

/-- An empty input is rejected; any other input is accepted. -/
theorem empty_rejected (order : List Word) : newWordListOrd title [] order = none := rfl

theorem nonempty_accepted (input order : List Word) (h : input ≠ []) :
    (newWordListOrd title input order).isSome = true := by
  cases input with
  | nil => exact absurd rfl h
  | cons a l => simp [newWordListOrd]

/-- The words kept, given the result. -/
theorem words_eq (input order : List Word) (wl : WordList) (d : Nat)
    (h : newWordListOrd title input order = some (wl, d)) :
    wl.words = sortW (removeTwins title order (dedupW input)) ∧
    d = input.length - wl.words.length := by
  unfold newWordListOrd at h
  split at h
  · cases h
  · injection h with h; injection h with h1 h2; subst h1; exact ⟨rfl, h2.symm⟩

/-- **Kept-set specification**: a word is kept iff it was listed and is not the title-cased
form of another listed word. Exactly one copy of each distinct word, twins dropped, nothing
else dropped. -/
theorem kept_spec (hid : ∀ w, title (title w) = title w) (input order : List Word)
    (hcover : ∀ w ∈ input, w ∈ order) (wl : WordList) (d : Nat)
    (h : newWordListOrd title input order = some (wl, d)) (w : Word) :
    w ∈ wl.words ↔ (w ∈ input ∧ ¬ ∃ u ∈ input, u ≠ w ∧ title u = w) := by
  obtain ⟨hw, _⟩ := words_eq title input order wl d h
  have hnd := removeTwins_nodup title order _ (nodup_dedupW input)
  rw [hw, (sortW_perm _ hnd).mem_iff,
    removeTwins_spec title hid order (dedupW input) (fun w hw => hcover w (mem_dedupW.mp hw)) w]
  simp only [mem_dedupW]

/-- The kept list has no repetitions. -/
theorem kept_nodup (input order : List Word) (wl : WordList) (d : Nat)
    (h : newWordListOrd title input order = some (wl, d)) : wl.words.Nodup := by
  obtain ⟨hw, _⟩ := words_eq title input order wl d h
  have hnd := removeTwins_nodup title order _ (nodup_dedupW input)
  rw [hw]; exact (sortW_perm _ hnd).nodup_iff.mpr hnd

/-- `Size()` is the number of words kept, and the notice reports the number dropped. -/
theorem size_eq (input order : List Word) (wl : WordList) (d : Nat)
    (h : newWordListOrd title input order = some (wl, d)) :
    (WLRecipe.size { list := some wl, length := 1, sepChar := [], capitalize := "" }) = wl.words.length ∧
    d = input.length - wl.words.length :=
  ⟨rfl, (words_eq title input order wl d h).2⟩

/-- **Order and multiplicity independence**: two inputs with the same set of words, visited in
any two orders, keep the same set of words — as duplicate-free lists they are permutations of
each other, so `Size()` agrees too. -/
theorem kept_order_indep (hid : ∀ w, title (title w) = title w)
    (in₁ in₂ o₁ o₂ : List Word) (hsame : ∀ w, w ∈ in₁ ↔ w ∈ in₂)
    (hc₁ : ∀ w ∈ in₁, w ∈ o₁) (hc₂ : ∀ w ∈ in₂, w ∈ o₂)
    (wl₁ wl₂ : WordList) (d₁ d₂ : Nat)
    (h₁ : newWordListOrd title in₁ o₁ = some (wl₁, d₁))
    (h₂ : newWordListOrd title in₂ o₂ = some (wl₂, d₂)) :
    wl₁.words.Perm wl₂.words ∧ wl₁.words.length = wl₂.words.length := by
  have hp : wl₁.words.Perm wl₂.words := by
    rw [List.perm_ext_iff_of_nodup (kept_nodup title in₁ o₁ wl₁ d₁ h₁) (kept_nodup title in₂ o₂ wl₂ d₂ h₂)]
    intro w
    rw [kept_spec title hid in₁ o₁ hc₁ wl₁ d₁ h₁ w, kept_spec title hid in₂ o₂ hc₂ wl₂ d₂ h₂ w]
    constructor
    · rintro ⟨hw, hno⟩
      exact ⟨(hsame w).mp hw, fun ⟨u, hu, h⟩ => hno ⟨u, (hsame u).mpr hu, h⟩⟩
    · rintro ⟨hw, hno⟩
      exact ⟨(hsame w).mpr hw, fun ⟨u, hu, h⟩ => hno ⟨u, (hsame u).mp hu, h⟩⟩
  exact ⟨hp, hp.length_eq⟩

/-- The order used by the executable model (first occurrences) is one of the admissible orders. -/
theorem model_order_covers (input : List Word) : ∀ w ∈ input, w ∈ dedupW input :=
  fun _ hw => mem_dedupW.mpr hw

/-- **Every generated atom is a kept word or its title-cased form**, on every random stream
(for a list without an empty word — known finding D8 otherwise). -/
theorem atoms_from_kept (cfg : Cfg) (r : WLRecipe) (wl : WordList) (hl : r.list = some wl)
    (hne : ∀ w ∈ wl.words, w ≠ [] ∧ title w ≠ []) :
    Rand.All (fun res => ∀ p, res = Res.ok p →
        ∀ a ∈ Tokens.ofType atomType p.tokens, ∃ w ∈ wl.words, a = w ∨ a = title w)
      (WLRecipe.generate cfg title r) := by
  apply Rand.All_mono _ _ (C05.generate_structure cfg title r wl hl hne)
  intro res h p hp
  obtain ⟨caps, _, hshape⟩ := h p hp
  exact C05.atoms_from_list title wl.words caps _ _ _ p.tokens hshape

/-! ### Non-vacuity -/

/-- "Polish" is dropped next to "polish", the repeated "one" collapses, "Two" has no twin and
stays: the hypotheses (idempotent title on these words, covering order) are satisfiable and the
kept set is as specified, in two different visiting orders. -/
example :
    let title : Word → Word := fun w => match w with
      | c :: cs => (if 97 ≤ c ∧ c ≤ 122 then c - 32 else c) :: cs
      | [] => []
    let polish : Word := [112, 111]; let Polish : Word := [80, 111]
    let one : Word := [111]; let Two : Word := [84]
    (newWordListOrd title [Polish, polish, one, Two, one] [Polish, polish, one, Two]).map (·.1.words)
      = some [Two, one, polish] ∧
    (newWordListOrd title [Polish, polish, one, Two, one] [Two, one, polish, Polish]).map (·.1.words)
      = some [Two, one, polish] := by
  decide

end Spg.C10
