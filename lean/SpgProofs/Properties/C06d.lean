/-
  C06d — the bounds of C06/C06b restated against the REAL-valued entropy.

  C06, C06b and C06c state "no password is likelier than 2^-Entropy" as `P ≤ 1/D`, `D` being the
  integer whose base-2 logarithm `Entropy()` reports (the code computes `float32(log2 D)`; the
  harness compares that number with the model's `D`). This file closes the remaining gap in the
  statement: for the exact real number of bits `bits D := Real.logb 2 D`,

      P ≤ 1/D   ↔   P ≤ 2 ^ (−bits D)            (`le_inv_iff_le_two_pow_neg_bits`)

  so each bound can be read literally as the property words it, and — the other direction that
  matters to a user — ANY entropy figure `e` that does not exceed `bits D` is also safe
  (`le_two_pow_neg_of_le_bits`: reporting fewer bits never overstates), while a figure above
  `bits D` is NOT covered by any of the bounds (`two_pow_neg_lt_of_bits_lt`: then `2^-e < 1/D`, and
  where generation is exactly uniform — `char_prob_exact` with `q = 0`, `wl_prob_exact_*` — some
  password is strictly likelier than `2^-e`). What is NOT modelled: the rounding of `log2 D` to
  `float32` (§11 of DESIGN.md); the harness compares the reported float with `log2 D` numerically.

  Only this file imports real analysis; the model and the other property files do not.
-/
import SpgProofs.Properties.C06
import Mathlib.Analysis.SpecialFunctions.Log.Base
import Mathlib.Analysis.SpecialFunctions.Pow.Real

namespace Spg.C06d
open Spg Rand C06

/-- The exact number of bits of a count `D`: `log2 D` as a real number. -/
noncomputable def bits (D : ℚ) : ℝ := Real.logb 2 (D : ℝ)

theorem two_pow_neg_bits {D : ℚ} (hD : 0 < D) : (2 : ℝ) ^ (-(bits D)) = 1 / (D : ℝ) := by
  have hD' : (0 : ℝ) < (D : ℝ) := by exact_mod_cast hD
  unfold bits
  rw [Real.rpow_neg (by norm_num), Real.rpow_logb (by norm_num) (by norm_num) hD', one_div]

/-- `P ≤ 1/D` is literally `P ≤ 2^(−log2 D)`. -/
theorem le_inv_iff_le_two_pow_neg_bits {p D : ℚ} (hD : 0 < D) :
    p ≤ 1 / D ↔ (p : ℝ) ≤ (2 : ℝ) ^ (-(bits D)) := by
  rw [two_pow_neg_bits hD]
  constructor
  · intro h
    have : ((p : ℚ) : ℝ) ≤ ((1 / D : ℚ) : ℝ) := by exact_mod_cast h
    simpa using this
  · intro h
    have : ((p : ℚ) : ℝ) ≤ ((1 / D : ℚ) : ℝ) := by simpa using h
    exact_mod_cast this

/-- Reporting FEWER bits than `log2 D` never overstates. -/
theorem le_two_pow_neg_of_le_bits {p D : ℚ} (hD : 0 < D) (h : p ≤ 1 / D) {e : ℝ}
    (he : e ≤ bits D) : (p : ℝ) ≤ (2 : ℝ) ^ (-e) := by
  refine le_trans ((le_inv_iff_le_two_pow_neg_bits hD).1 h) ?_
  exact Real.rpow_le_rpow_of_exponent_le (by norm_num) (by linarith)

/-- Reporting MORE bits than `log2 D` claims a bound below `1/D`: nothing here covers it, and a
password of probability exactly `1/D` violates it. -/
theorem two_pow_neg_lt_of_bits_lt {D : ℚ} (hD : 0 < D) {e : ℝ} (he : bits D < e) :
    (2 : ℝ) ^ (-e) < 1 / (D : ℝ) := by
  rw [← two_pow_neg_bits hD]
  exact Real.rpow_lt_rpow_of_exponent_lt (by norm_num) (by linarith)

theorem overstated_of_uniform {p D : ℚ} (hD : 0 < D) (hp : p = 1 / D) {e : ℝ}
    (he : bits D < e) : (2 : ℝ) ^ (-e) < (p : ℝ) := by
  have := two_pow_neg_lt_of_bits_lt hD he
  subst hp
  simpa using this

/-- The exact bits are monotone in the count: a recipe that admits more passwords reports at
least as many bits. -/
theorem bits_mono {D D' : ℚ} (hD : 0 < D) (h : D ≤ D') : bits D ≤ bits D' := by
  have hD' : (0 : ℝ) < (D : ℝ) := by exact_mod_cast hD
  have hle : (D : ℝ) ≤ (D' : ℝ) := by exact_mod_cast h
  exact Real.logb_le_logb_of_le (by norm_num) hD' hle

theorem bits_one : bits 1 = 0 := by simp [bits]

theorem bits_nonneg {D : ℚ} (hD : 1 ≤ D) : 0 ≤ bits D := by
  have := bits_mono (D := 1) (D' := D) (by norm_num) hD
  rwa [bits_one] at this

/-! ## The C06 bounds, read literally -/

section Char
open CharRecipe
variable (cfg : Cfg) (r : CharRecipe)

/-- **C06 for character recipes, in bits**: no string is returned with probability above
`2^(−log2 V)`, `V` the integer whose logarithm `Entropy()` reports (`char_entropy_field`) and
which is the exact number of valid strings (`V_eq_card`). -/
theorem char_maxprob_bits (hL : 1 ≤ r.length) (ha : r.alphabet cfg.tbl ≠ [])
    (hacc : r.acceptable cfg = true) (s : List Nat) :
    ((Rand.prob (genChars cfg r) (C06.returns s) : ℚ) : ℝ) ≤ (2 : ℝ) ^ (-(bits (V cfg r))) :=
  (le_inv_iff_le_two_pow_neg_bits (V_pos cfg r hacc)).1 (char_maxprob cfg r hL ha hacc s)

end Char

section WL
variable (cfg : Cfg) (title : Word → Word) (r : WLRecipe) (wl : WordList)
  (hl : r.list = some wl) (hne : wl.words ≠ []) (hL : 1 ≤ r.length) {c : Word} (h : ConstSep r c)
  (hok : ListOK title wl.words)
include hl hne hL h hok

/-- **C06 for wordlist recipes with a constant separator, in bits**, for every `D > 0` that a
bound `P ≤ 1/D` has been proved for (instantiated below with the reported count). -/
theorem wl_maxprob_bits
    (hvis : WLRecipe.capFactor r r.length.toNat ≠ 1 →
      (∀ w ∈ wl.words, title w ≠ w) ∧ (∀ w₁ ∈ wl.words, ∀ w₂ ∈ wl.words, title w₁ ≠ w₂))
    (hD : 0 < (((((wl.words.length : Nat) : Int) ^ r.length.toNat *
              WLRecipe.capFactor r r.length.toNat : Int)) : ℚ))
    (τ : List (Token Nat)) :
    ((E (WLRecipe.generate cfg title r) (retTokens τ) : ℚ) : ℝ) ≤
      (2 : ℝ) ^ (-(bits (((((wl.words.length : Nat) : Int) ^ r.length.toNat *
              WLRecipe.capFactor r r.length.toNat : Int)) : ℚ))) :=
  (le_inv_iff_le_two_pow_neg_bits hD).1 (wl_maxprob cfg title r wl hl hne hL h hok hvis τ)

end WL

/-! ## Non-vacuity -/

example : bits 8 = 3 := by
  unfold bits
  have : ((8 : ℚ) : ℝ) = (2 : ℝ) ^ (3 : ℕ) := by norm_num
  rw [this, Real.logb_pow]
  simp

example : ((1 / 8 : ℚ) : ℝ) ≤ (2 : ℝ) ^ (-(bits 8)) :=
  (le_inv_iff_le_two_pow_neg_bits (by norm_num)).1 le_rfl

end Spg.C06d
