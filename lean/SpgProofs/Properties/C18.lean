/-
  C18 — Generated secrets leave the library only through the returned Password.

  Two halves. (1) Regenerated facts about every call in the library that can write to standard
  output, standard error or the log, every explicit panic (printed on stderr when unrecovered)
  and every error constructor (callers log errors): their non-constant arguments are numeric
  (counts, lengths, probabilities, an index kind) — or, for the single panic, the text of the
  random source's own error. A `string`, `Token`, `Password`, `[]string` or `interface{}`
  argument at any such site changes the regenerated table and breaks `*_sites_ok`.
  (2) In the model the diagnostics are a function of the recipe alone — they cannot depend on,
  hence cannot reveal, the random choices; `warnings_*` say exactly when the one diagnostic on
  the generation paths appears. The harness captures fd 1, fd 2 and the log around every
  operation of every stream and compares with these predictions.
-/
import Spg.Generated.Facts
import Spg.Model.WordGen
import SpgProofs.Lemmas.CharSets
namespace Spg.C18
open Spg Spg.Generated

/-- `a` begins with `p` (on character lists, so that the kernel can evaluate it). -/
def hasPrefix (p a : String) : Bool := a.toList.take p.length == p.toList

def okOutputArg (a : String) : Bool := a == "const" || hasPrefix "numeric:" a || hasPrefix "stream:os.Std" a
def okPanicArg (a : String) : Bool := a == "const" || a == "errtext"
def okErrorArg (a : String) : Bool := a == "const" || hasPrefix "numeric:" a

/-- **Every output site of the library prints constants and numbers only.** -/
theorem output_sites_ok : (Facts.outputSites.all fun s => s.2.2.2.all okOutputArg) = true := by decide

/-- Explicit panics mention constants and the random source's error text only. -/
theorem panic_sites_ok : (Facts.panicSites.all fun s => s.2.2.2.all okPanicArg) = true := by decide

/-- Returned errors are built from constants and numbers only. -/
theorem errorf_sites_ok : (Facts.errorfSites.all fun s => s.2.2.2.all okErrorArg) = true := by decide

/-- Every output site has one of three shapes — a constant through the log (the two rounding
warnings), a constant format with a count on standard output (the impossible-alphabet warning),
a constant format with a count on standard error (the duplicate-words notice). Which function
the site is in does not matter. -/
theorem output_sites_list :
    (Facts.outputSites.all fun s =>
      [("log.Println", ["const"]), ("fmt.Printf", ["const", "numeric:int"]),
       ("fmt.Fprintf", ["stream:os.Stderr", "const", "numeric:int"])].contains (s.2.2.1, s.2.2.2)) = true := by decide

/-- The duplicate-words notice goes to standard error (repair fd19625), not standard output:
every `Fprint*` names `os.Stderr`. -/
theorem notice_on_stderr :
    ((Facts.outputSites.filter fun s => ["fmt.Fprintf", "fmt.Fprintln", "fmt.Fprint"].contains s.2.2.1).all
      fun s => s.2.2.2.head? == some "stream:os.Stderr") = true := by decide

/-! ### Diagnostics are a function of the recipe -/

variable (cfg : Cfg) (r : CharRecipe)

/-- `Generate()` prints at most one diagnostic line, and only the impossible-alphabet warning. -/
theorem warnings_le_one : r.generateWarnings cfg ≤ 1 := by
  unfold CharRecipe.generateWarnings CharRecipe.entropyWarnings
  split <;> (try split) <;> omega

/-- …exactly when the length is positive and the alphabet is empty (an impossible recipe); the
line carries the element count, nothing else. -/
theorem warnings_iff : r.generateWarnings cfg = 1 ↔ (1 ≤ r.length ∧ r.alphabet cfg.tbl = []) := by
  unfold CharRecipe.generateWarnings CharRecipe.entropyWarnings CharRecipe.size
  have hsub : r.alphabet cfg.tbl = [] → (r.requiredUnion cfg.tbl).isEmpty = true := by
    intro h
    cases hu : r.requiredUnion cfg.tbl with
    | nil => rfl
    | cons c cs =>
      have hc : c ∈ r.alphabet cfg.tbl := by
        simp only [CharRecipe.alphabet, mem_norm, List.mem_append]
        right; rw [hu]; simp
      rw [h] at hc; cases hc
  constructor
  · intro h
    split at h
    · omega
    · rename_i hl
      split at h
      · rename_i hc
        simp only [Bool.and_eq_true, beq_iff_eq, List.length_eq_zero_iff] at hc
        exact ⟨by omega, hc.2⟩
      · omega
  · rintro ⟨hl, ha⟩
    rw [if_neg (by omega)]
    simp [ha, hsub ha]

/-- A wordlist generation prints what its separator recipe prints, once per separator call —
again a function of the recipe, not of the words or separators chosen. -/
theorem wl_warnings (w : WLRecipe) :
    w.generateWarnings cfg = (if w.size == 0 || w.length < 1 then 0 else w.length.toNat * w.sepWarnings cfg) := rfl

end Spg.C18
