/-
  C14 — Recipes, word lists and separator functions are safe to share across goroutines. (PARTIAL)

  A data race is a property of an execution of the Go runtime, which Lean cannot see. What is
  logic is WHY the code is race free: no exported method writes to memory reachable from its
  receiver, its arguments or a package-level variable; every write goes to memory allocated
  during the call (the private copy made by the value receiver, fresh sets and slices).
  (1) `no_shared_write_no_race`, `noninterference`: over an abstract model of threads issuing
  reads and writes to shared locations, if no thread writes a shared location then no
  interleaving contains a conflicting pair, and every thread reads exactly what it would read
  running alone — so each concurrent call returns what it returns alone (C03/C06 carry over).
  (2) Regenerated facts, compared with expectations by `decide`: receiver kinds of the API
  methods, every assignment that could reach shared memory, every call of a pointer-receiver
  method. The expectations are argued below.
  The runtime tie is the Go race detector (go/cmd/racer). Outside the model: the Go memory
  model, golang-set's internal locking, aliasing the syntactic facts cannot see.
-/
import Spg.Generated.Facts
import SpgProofs.Lemmas.FactPreds
namespace Spg.C14
open Spg.Generated

/-- One memory access by a call: to a shared location (reachable from before the call), or to
memory the call allocated itself. -/
inductive Acc where
  | read (loc : Nat)
  | write (loc : Nat) (v : Nat)
  | fresh
  deriving Repr, DecidableEq

def Acc.isSharedWrite : Acc → Bool
  | .write _ _ => true
  | _ => false

/-- A schedule: the accesses of all threads in the order they happen, each tagged with its thread. -/
abbrev Schedule := List (Nat × Acc)

/-- Two accesses conflict: different threads, same shared location, at least one a write. -/
def conflict (a b : Nat × Acc) : Prop :=
  a.1 ≠ b.1 ∧ match a.2, b.2 with
    | .write l _, .write l' _ => l = l'
    | .write l _, .read l' => l = l'
    | .read l, .write l' _ => l = l'
    | _, _ => False

/-- **No shared write, no race**: whatever the interleaving. -/
theorem no_shared_write_no_race (s : Schedule) (h : ∀ x ∈ s, x.2.isSharedWrite = false) :
    ∀ a ∈ s, ∀ b ∈ s, ¬ conflict a b := by
  intro a ha b hb hc
  have h1 := h a ha
  have h2 := h b hb
  unfold conflict at hc
  cases ha2 : a.2 <;> cases hb2 : b.2 <;> simp_all [Acc.isSharedWrite]

/-- Values read by thread `t` when the schedule is executed from memory `mem`. -/
def observe (t : Nat) : (Nat → Nat) → Schedule → List Nat
  | _, [] => []
  | mem, (t', .read l) :: rest => if t' = t then mem l :: observe t mem rest else observe t mem rest
  | mem, (_, .write l v) :: rest => observe t (fun x => if x = l then v else mem x) rest
  | mem, (_, .fresh) :: rest => observe t mem rest

/-- **Non-interference**: without shared writes, thread `t` observes in any interleaving exactly
what it observes when its accesses run alone. -/
theorem noninterference (t : Nat) (mem : Nat → Nat) :
    ∀ (s : Schedule), (∀ x ∈ s, x.2.isSharedWrite = false) →
      observe t mem s = observe t mem (s.filter fun x => x.1 == t) := by
  intro s
  induction s with
  | nil => intro _; rfl
  | cons x rest ih =>
    intro h
    have ih' := ih (fun y hy => h y (List.mem_cons_of_mem _ hy))
    obtain ⟨t', a⟩ := x
    have hx := h (t', a) List.mem_cons_self
    cases a with
    | write l v => simp [Acc.isSharedWrite] at hx
    | fresh =>
      by_cases ht : t' = t
      · subst ht; simp [observe, ih']
      · have : (t' == t) = false := by simpa using ht
        simp [observe, List.filter_cons, this, ih']
    | read l =>
      by_cases ht : t' = t
      · subst ht; simp [observe, ih']
      · have : (t' == t) = false := by simpa using ht
        simp [observe, List.filter_cons, this, ht, ih']

/-! ### Regenerated facts -/

/-- Every method a caller may invoke concurrently on a shared value has a VALUE receiver: the
call works on a private copy of the struct. -/
theorem api_receivers_value :
    ([("CharRecipe", "Generate"), ("CharRecipe", "Entropy"), ("CharRecipe", "Alphabet"),
      ("CharRecipe", "SuccessProbability"), ("WLRecipe", "Generate"), ("WLRecipe", "Entropy"),
      ("WLRecipe", "Size"), ("WordList", "Size"), ("Password", "String"), ("Password", "Tokens"),
      ("Tokens", "MakeIndices"), ("Tokens", "Kind"), ("Tokens", "Atoms"), ("Tokens", "Separators")].all
      fun m => Facts.receivers.contains (m.1, m.2, "value")) = true := by decide

/-- No exported method has a pointer receiver. -/
theorem pointer_receivers : Facts.exportedPointerMethods = [] := by decide

/-- **Every assignment that could reach memory outliving a call is local** (`FactPreds.localWrite`):
it goes through a pointer to an object created by that very call (`p := &Password{}`,
`r := new(CharRecipe)`), or to a field of a pointer receiver (see `pointer_calls`), or into the
slice `buildCharacterList` has itself just built. No package-level variable, no captured
variable, no parameter element, no other path through a receiver is ever assigned. -/
theorem shared_writes : FactPreds.writesAreLocal = true := by decide

/-- No assignment to a package-level variable, a captured variable or through a parameter. -/
theorem no_global_or_captured_writes :
    (Facts.sharedWrites.filter fun w => !FactPreds.localWrite w) = [] := by
  decide

/-- A pointer-receiver method that writes its receiver (`buildCharacterList`) is only ever called
on `self` from a value-receiver method — a private copy of the caller's struct; a method called on
a shared object (`isAllCapitalizable` on the word list) does not write it. -/
theorem pointer_calls : FactPreds.writersOnPrivateCopies = true := by decide

/-- **All package-level state of the library** is plain data — the two shipped lists, the two
exported budget variables (caller-owned configuration), the two class tables, none of them
assigned after initialisation (`shared_writes`) — or one of the seven separator presets (closures
over constant recipes). A cache, a memo table, a `sync.Map`, a once-flag, a shared scratch value is
hidden state that could outlive a call or be shared between goroutines, and falsifies this. -/
theorem package_state : FactPreds.packageStateOK = true := by decide

/-- The predicates accept what the source legitimately does (literal entries, so that a
refactoring which happens to remove the last assignment of some kind does not matter)… -/
example :
    FactPreds.localWrite ("WLRecipe.Generate", "new.tokens", "freshfield") = true ∧
    FactPreds.localWrite ("(*CharRecipe).buildCharacterList", "recv.allowedSet", "recvfield") = true ∧
    FactPreds.localWrite ("(*CharRecipe).buildCharacterList", "(recv.requiredSets[]).s", "recvdeep:reqSet") = true ∧
    FactPreds.localWrite ("nextSubset", "param[]", "freshparam") = true := by decide

/-- …and they reject what they should: a write to a package variable, to the caller's slice
through the receiver, through an unknown pointer. -/
example :
    FactPreds.localWrite ("sfWrap", "MaxFailRate", "pkgvar") = false ∧
    FactPreds.localWrite ("(*CharRecipe).buildCharacterList", "recv.RequireSets[]", "recvdeep") = false ∧
    FactPreds.localWrite ("Tokens.Scrub", "recv[].value", "recvdeep:Token") = false ∧
    FactPreds.localWrite ("sortInPlace", "param[]", "paramelem") = false ∧
    FactPreds.localWrite ("NewSFFunction", "prev", "captured") = false ∧
    FactPreds.localWrite ("f", "q.x", "ptrfield") = false := by decide

/-! ### Non-vacuity -/

/-- Two threads reading the same shared location and touching fresh memory: the hypotheses hold,
and the observations of thread 1 in the interleaving are those of thread 1 alone. -/
example :
    let s : Schedule := [(1, .read 7), (2, .fresh), (2, .read 7), (1, .fresh), (1, .read 8)]
    (∀ x ∈ s, x.2.isSharedWrite = false) ∧
      observe 1 (fun l => l * 10) s = [70, 80] := by
  decide

/-- With a shared write the conclusion fails: the theorem's hypothesis is what matters. -/
example : observe 1 (fun _ => 0) [(2, .write 7 5), (1, .read 7)] ≠
    observe 1 (fun _ => 0) ([(2, Acc.write 7 5), (1, .read 7)].filter fun x => x.1 == 1) := by decide

end Spg.C14
