/-
  C09 — All randomness comes from the OS CSPRNG; generation fails closed when it fails.

  Model: `crypto/rand.Read(b)` is `io.ReadFull` over a reader that answers each `Read` call as
  a *plan* dictates (how many bytes at most, error or not) from a byte supply (`Source`).
  * `readFull_chunking`: however the reader chunks its answers (any plan without errors, zero-
    byte answers included), the four bytes read are the next four bytes of the supply — so a
    word, hence every choice, depends on the source bytes only.
  * `readFull_error`, `readFull_eof`: an error (with 0–3 bytes delivered) or an exhausted supply
    before the fourth byte makes the read fail; `drawSource_fault`: then the draw yields no
    value at all (the code panics) — never one built from a partially filled buffer.
  * Every generator is a `Rand` computation whose only access to the source is `draw`
    (structural), and `run` is a function of the tape: same recipe, same bytes, same choices;
    `run_fault_no_result`: when the tape ends inside a generation there is no password.
  * Regenerated facts (`imports_ok`, `rand_sites`): crypto/rand is the only randomness-capable
    package imported by the library, and `randomUint32` its only call site.
-/
import SpgProofs.Lemmas.Rand
import Spg.Generated.Facts
import SpgProofs.Lemmas.FactPreds
namespace Spg.C09
open Spg

/-- A plan none of whose responses reports an error. -/
def NoErr (plan : List Resp) : Prop := ∀ r ∈ plan, r.err = false

/-- **Chunking invariance.** -/
theorem readFull_chunking : ∀ (fuel need : Nat) (got : List Nat) (s : Source),
    NoErr s.plan → need ≤ s.bytes.length → s.plan.length < fuel →
      ∃ plan', (readFull fuel need got s) =
        (some (got ++ s.bytes.take need), { plan := plan', bytes := s.bytes.drop need }) := by
  intro fuel
  induction fuel with
  | zero => intro need got s _ _ h; omega
  | succ fuel ih =>
    intro need got s hne hlen hfuel
    unfold readFull
    by_cases hz : need = 0
    · subst hz; exact ⟨s.plan, by simp⟩
    · rw [if_neg hz]
      simp only
      -- the response to this Read call
      cases hp : s.plan with
      | nil =>
        simp only [List.headD_nil, Nat.min_self, List.tail_nil]
        have htk : (s.bytes.take need).length = need := by simp [List.length_take]; omega
        simp only [htk, Nat.sub_self, if_true]
        exact ⟨[], rfl⟩
      | cons r rest =>
        simp only [List.headD_cons, List.tail_cons]
        have hr : r.err = false := hne r (by rw [hp]; simp)
        have hk : min r.give need ≤ s.bytes.length := by omega
        have htk : (s.bytes.take (min r.give need)).length = min r.give need := by
          simp [List.length_take]; omega
        simp only [htk, hr, Bool.false_eq_true, if_false, Nat.lt_irrefl]
        by_cases hdone : need - min r.give need = 0
        · rw [if_pos hdone]
          have : min r.give need = need := by omega
          rw [this]; exact ⟨rest, rfl⟩
        · rw [if_neg hdone]
          have hrec := ih (need - min r.give need) (got ++ s.bytes.take (min r.give need))
            { plan := rest, bytes := s.bytes.drop (min r.give need) }
            (fun q hq => hne q (by rw [hp]; exact List.mem_cons_of_mem _ hq))
            (by simp [List.length_drop]; omega)
            (by rw [hp] at hfuel; simp at hfuel ⊢; omega)
          obtain ⟨plan', hrec⟩ := hrec
          refine ⟨plan', ?_⟩
          rw [hrec]
          simp only [List.append_assoc, List.drop_drop, Prod.mk.injEq, Option.some.injEq,
            List.append_cancel_left_eq, true_and]
          constructor
          · rw [← List.take_add]; congr 1; omega
          · congr 2; omega

/-- A word read through any error-free chunking is the big-endian value of the next four bytes. -/
theorem readWord_chunking (s : Source) (b0 b1 b2 b3 : Nat) (rest : List Nat)
    (hb : s.bytes = b0 :: b1 :: b2 :: b3 :: rest) (hne : NoErr s.plan) :
    ∃ plan', readWord s = (some (wordOfBytes b0 b1 b2 b3), { plan := plan', bytes := rest }) := by
  unfold readWord
  obtain ⟨plan', h⟩ := readFull_chunking (s.plan.length + 5) 4 [] s hne (by rw [hb]; simp) (by omega)
  rw [h, hb]
  exact ⟨plan', by simp⟩

/-- **An error before the buffer is full fails the read**: the response to the current `Read`
reports an error and (with what it delivers) the four bytes are not complete. -/
theorem readFull_error (fuel need : Nat) (got : List Nat) (s : Source) (r : Resp) (rest : List Resp)
    (hp : s.plan = r :: rest) (he : r.err = true) (hneed : 0 < need)
    (hshort : min (min r.give need) s.bytes.length < need) :
    (readFull (fuel + 1) need got s).1 = none := by
  unfold readFull
  rw [if_neg (by omega)]
  simp only [hp, List.headD_cons, List.tail_cons, List.length_take]
  rw [if_neg (by omega)]
  simp [he]

/-- **A source that runs dry fails the read** (`io.EOF` / `io.ErrUnexpectedEOF`). -/
theorem readFull_eof (fuel need : Nat) (got : List Nat) (s : Source)
    (hp : s.plan = []) (hshort : s.bytes.length < need) :
    (readFull (fuel + 1) need got s).1 = none := by
  unfold readFull
  rw [if_neg (by omega)]
  simp only [hp, List.headD_nil, Nat.min_self, List.tail_nil, List.length_take]
  rw [if_neg (by omega)]
  simp only [Bool.false_eq_true, if_false]
  rw [if_pos (by rw [Nat.min_eq_right (by omega)]; exact hshort)]

/-- **Fail closed**: if the read of a word fails, the bounded draw yields no value. -/
theorem drawSource_fault (n fuel : Nat) (s : Source) (h : (readWord s).1 = none) :
    (drawSource n (fuel + 1) s).1 = none := by
  unfold drawSource
  cases hr : readWord s with
  | mk w s' =>
    rw [hr] at h
    simp only at h
    subst h
    rfl

/-- A value comes out of a draw only if a complete word was read and accepted. -/
theorem drawSource_some (n : Nat) : ∀ (fuel : Nat) (s s' : Source) (k : Nat),
    drawSource n fuel s = (some k, s') →
      ∃ (s₁ s₂ : Source) (v : Nat), readWord s₁ = (some v, s₂) ∧ step n v = some k := by
  intro fuel
  induction fuel with
  | zero => intro s s' k h; simp [drawSource] at h
  | succ fuel ih =>
    intro s s' k h
    unfold drawSource at h
    cases hr : readWord s with
    | mk w s₂ =>
      rw [hr] at h
      cases w with
      | none => simp at h
      | some v =>
        simp only at h
        cases hs : step n v with
        | some k' =>
          rw [hs] at h
          simp only [Prod.mk.injEq, Option.some.injEq] at h
          exact ⟨s, s₂, v, hr, by rw [hs, h.1]⟩
        | none =>
          rw [hs] at h
          exact ih s₂ s' k h

/-- On the word level: when the tape ends before a generation is complete there is no result —
in particular no password. (`RunRes.fault` is the code's `panic("PRNG gen error…")`.) -/
theorem run_fault_no_result {α : Type} (p : Rand α) (n : Nat) (k : Nat → Rand α) (hp : p = .draw n k)
    (hn : 0 < n) : p.run [] = .fault := by
  subst hp
  have : n ≠ 0 := by omega
  simp [Rand.run, drawTape, drawWords, this]

/-- Determinism: a run is a function of the program and the tape — the same recipe fed the same
source words makes the same choices. (Stated for emphasis; it is the functionality of `run`.) -/
theorem run_deterministic {α : Type} (p : Rand α) (t₁ t₂ : List Nat) (h : t₁ = t₂) :
    p.run t₁ = p.run t₂ := by rw [h]

/-! ### The byte-level source against the word-level tape, for whole generators -/

/-- The four bytes of a raw word, big endian. -/
def bytesOfWord (v : Nat) : List Nat := [v / 16777216 % 256, v / 65536 % 256, v / 256 % 256, v % 256]

/-- The byte supply that decodes to a tape of words. -/
def bytesOfWords (ws : List Nat) : List Nat := ws.flatMap bytesOfWord

theorem wordOfBytes_bytesOfWord (v : Nat) (hv : v < two32) :
    wordOfBytes (v / 16777216 % 256) (v / 65536 % 256) (v / 256 % 256) (v % 256) = v := by
  unfold wordOfBytes; unfold two32 at hv; omega

/-- Reading never invents plan entries: what is left of the plan was in the plan. -/
theorem readFull_plan_subset : ∀ (fuel need : Nat) (got : List Nat) (s : Source),
    ∀ r ∈ (readFull fuel need got s).2.plan, r ∈ s.plan
  | 0, _, _, s => fun r hr => hr
  | fuel + 1, need, got, s => by
    intro r hr
    unfold readFull at hr
    split at hr
    · exact hr
    · simp only at hr
      split at hr
      · exact List.mem_of_mem_tail hr
      · split at hr
        · exact List.mem_of_mem_tail hr
        · split at hr
          · exact List.mem_of_mem_tail hr
          · have := readFull_plan_subset fuel _ _ _ r hr
            exact List.mem_of_mem_tail this

theorem readWord_plan_subset (s : Source) : ∀ r ∈ (readWord s).2.plan, r ∈ s.plan := by
  intro r hr
  unfold readWord at hr
  have h := readFull_plan_subset (s.plan.length + 5) 4 [] s
  split at hr
  · rename_i heq; rw [heq] at h; exact h r hr
  · rename_i heq; rw [heq] at h; exact h r hr

/-- With no bytes left, an error-free reader can only report end of input. -/
theorem readFull_no_bytes : ∀ (fuel need : Nat) (got : List Nat) (plan : List Resp),
    0 < need → (readFull fuel need got { plan := plan, bytes := [] }).1 = none
  | 0, _, _, _, _ => rfl
  | fuel + 1, need, got, plan, hn => by
    unfold readFull
    rw [if_neg (by omega)]
    simp only [List.take_nil, List.length_nil, List.append_nil, List.drop_nil, Nat.sub_zero]
    rw [if_neg (by omega)]
    split
    · rfl
    · split
      · rfl
      · -- the response asked for 0 bytes: the loop goes on with the rest of the plan
        exact readFull_no_bytes fuel need got _ hn

theorem readWord_no_bytes (plan : List Resp) : (readWord { plan := plan, bytes := [] }).1 = none := by
  unfold readWord
  have := readFull_no_bytes (plan.length + 5) 4 [] plan (by omega)
  simp only at this ⊢
  cases h : readFull (plan.length + 5) 4 [] { plan := plan, bytes := [] } with
  | mk o s' =>
    rw [h] at this
    simp only at this
    subst this
    rfl

/-- One draw on the byte source is one draw on the decoded tape. -/
theorem drawSource_words (n : Nat) : ∀ (ws : List Nat) (fuel : Nat) (plan : List Resp),
    (∀ w ∈ ws, w < two32) → NoErr plan → ws.length < fuel →
    match drawWords n ws with
    | .ok k rest => ∃ plan', (∀ r ∈ plan', r ∈ plan) ∧
        drawSource n fuel { plan := plan, bytes := bytesOfWords ws } =
          (some k, { plan := plan', bytes := bytesOfWords rest })
    | _ => (drawSource n fuel { plan := plan, bytes := bytesOfWords ws }).1 = none
  | [], fuel, plan, _, _, hf => by
    simp only [drawWords]
    obtain ⟨f, rfl⟩ : ∃ f, fuel = f + 1 := ⟨fuel - 1, by simp at hf; omega⟩
    exact drawSource_fault n f _ (readWord_no_bytes plan)
  | v :: ws, fuel, plan, hlt, hne, hf => by
    obtain ⟨f, rfl⟩ : ∃ f, fuel = f + 1 := ⟨fuel - 1, by simp at hf; omega⟩
    have hv : v < two32 := hlt v (by simp)
    have hbytes : bytesOfWords (v :: ws) =
        (v / 16777216 % 256) :: (v / 65536 % 256) :: (v / 256 % 256) :: (v % 256) :: bytesOfWords ws := by
      simp [bytesOfWords, bytesOfWord]
    obtain ⟨plan1, hread⟩ := readWord_chunking { plan := plan, bytes := bytesOfWords (v :: ws) } _ _ _ _
      (bytesOfWords ws) hbytes hne
    rw [wordOfBytes_bytesOfWord v hv] at hread
    have hsub1 : ∀ r ∈ plan1, r ∈ plan := by
      have := readWord_plan_subset { plan := plan, bytes := bytesOfWords (v :: ws) }
      rw [hread] at this
      exact this
    simp only [drawWords]
    cases hs : step n v with
    | some k =>
      simp only
      refine ⟨plan1, hsub1, ?_⟩
      simp only [drawSource, hread, hs]
    | none =>
      simp only
      have hne1 : NoErr plan1 := fun r hr => hne r (hsub1 r hr)
      have ih := drawSource_words n ws f plan1 (fun w hw => hlt w (by simp [hw])) hne1 (by simp at hf ⊢; omega)
      have hstep : drawSource n (f + 1) { plan := plan, bytes := bytesOfWords (v :: ws) } =
          drawSource n f { plan := plan1, bytes := bytesOfWords ws } := by
        simp only [drawSource, hread, hs]
      rw [hstep]
      cases hd : drawWords n ws with
      | ok k rest =>
        rw [hd] at ih
        obtain ⟨plan', hsub', heq⟩ := ih
        exact ⟨plan', fun r hr => hsub1 r (hsub' r hr), heq⟩
      | fault => rw [hd] at ih; exact ih
      | zero => rw [hd] at ih; exact ih

/-- Run a generator against the scripted byte source (`fuel` bounds the words read per draw). -/
def runS {α : Type} : Rand α → Nat → Source → Option α
  | .pure a, _, _ => some a
  | .draw n k, fuel, s =>
    if n = 0 then none else
    match drawSource n fuel s with
    | (some i, s') => runS (k i) fuel s'
    | (none, _) => none

/-- **Same recipe, same bytes, same choices — however the source chunks its reads.** Running any
generator on a reader that never reports an error, whatever its plan of short reads, gives
exactly the result of running it on the words its bytes decode to; and where the word-level run
ends in a panic (source exhausted, or `randomUint32n(0)`), the byte-level run has no result. -/
theorem runS_eq_run {α : Type} : ∀ (p : Rand α) (ws : List Nat) (fuel : Nat) (plan : List Resp),
    (∀ w ∈ ws, w < two32) → NoErr plan → ws.length < fuel →
    runS p fuel { plan := plan, bytes := bytesOfWords ws } =
      (match p.run ws with | .done a _ => some a | _ => none)
  | .pure a, ws, fuel, plan, _, _, _ => rfl
  | .draw n k, ws, fuel, plan, hlt, hne, hf => by
    simp only [runS, Rand.run, drawTape]
    by_cases hn : n = 0
    · simp [hn]
    · rw [if_neg hn, if_neg hn]
      have hd := drawSource_words n ws fuel plan hlt hne hf
      cases hw : drawWords n ws with
      | ok i rest =>
        rw [hw] at hd
        obtain ⟨plan', hsub, heq⟩ := hd
        rw [heq]
        simp only
        have hrest_lt : ∀ w ∈ rest, w < two32 := by
          -- the rest of the tape is a suffix of the tape
          have : ∀ (t : List Nat) (i : Nat) (r : List Nat), drawWords n t = .ok i r → ∀ w ∈ r, w ∈ t := by
            intro t
            induction t with
            | nil => intro i r h; cases h
            | cons v t ih =>
              intro i r h w hwr
              simp only [drawWords] at h
              cases hs : step n v with
              | some k' => rw [hs] at h; injection h with _ h2; subst h2; exact List.mem_cons_of_mem _ hwr
              | none => rw [hs] at h; exact List.mem_cons_of_mem _ (ih i r h w hwr)
          exact fun w hwr => hlt w (this ws i rest hw w hwr)
        have hrest_len : rest.length < fuel := by
          have : ∀ (t : List Nat) (i : Nat) (r : List Nat), drawWords n t = .ok i r → r.length ≤ t.length := by
            intro t
            induction t with
            | nil => intro i r h; cases h
            | cons v t ih =>
              intro i r h
              simp only [drawWords] at h
              cases hs : step n v with
              | some k' => rw [hs] at h; injection h with _ h2; subst h2; simp
              | none => rw [hs] at h; have := ih i r h; simp; omega
          have := this ws i rest hw; omega
        exact runS_eq_run (k i) rest fuel plan' hrest_lt (fun r hr => hne r (hsub r hr)) hrest_len
      | fault =>
        rw [hw] at hd
        cases hds : drawSource n fuel { plan := plan, bytes := bytesOfWords ws } with
        | mk o s' => rw [hds] at hd; simp only at hd; subst hd; rfl
      | zero =>
        rw [hw] at hd
        cases hds : drawSource n fuel { plan := plan, bytes := bytesOfWords ws } with
        | mk o s' => rw [hds] at hd; simp only at hd; subst hd; rfl


/-! ### Regenerated facts about the source text -/

/-- Packages from which variability other than the OS CSPRNG could enter. -/
def randomnessCapable : List String :=
  ["crypto/rand", "math/rand", "math/rand/v2", "time", "unsafe", "runtime", "os/user", "net",
   "hash/maphash", "reflect", "syscall", "os/exec", "crypto/md5", "crypto/sha1", "crypto/sha256"]

/-- **crypto/rand is the only randomness-capable package the library imports.** -/
theorem imports_ok :
    (Generated.Facts.imports.all fun f =>
      f.2.all fun i => !(randomnessCapable.contains i) || i == "crypto/rand") = true := by
  decide

/-- **Every call into a package that could supply variability is a call of `crypto/rand.Read`**
(and there is one). `os` is imported for `os.Stderr` only: no call into it is made. Which
function makes the call does not matter. -/
theorem rand_sites :
    (Generated.Facts.sensitiveCalls.all fun c => c.2.2.1 == "crypto/rand.Read") = true ∧
    Generated.Facts.sensitiveCalls ≠ [] := by
  decide

/-- **Nothing else to draw on**: the package keeps no state in which bytes of one call could
linger for another — its package-level variables are plain shipped data and configuration that
nothing assigns, slices or hands out, and the separator presets. A read buffer, a "previous block"
for a health test, a pool of scratch values at package level falsifies this. -/
theorem no_lingering_state : FactPreds.packageStateOK = true ∧
    (Generated.Facts.sharedWrites.filter fun w => w.2.2 == "pkgvar") = [] := by decide

/-! ### Non-vacuity -/

/-- A reader that answers 1 byte, 0 bytes, 2 bytes, then whatever is asked: the word is the same
as from a reader that answers everything at once. -/
example :
    (readWord { plan := [⟨1, false⟩, ⟨0, false⟩, ⟨2, false⟩], bytes := [1, 2, 3, 4, 9] }).1 = some 16909060 ∧
    (readWord { plan := [], bytes := [1, 2, 3, 4, 9] }).1 = some 16909060 := by decide

/-- An error after three bytes: no word; an error that arrives together with the fourth byte: a word
(`io.ReadFull` semantics). -/
example :
    (readWord { plan := [⟨3, true⟩], bytes := [1, 2, 3, 4] }).1 = none ∧
    (readWord { plan := [⟨4, true⟩], bytes := [1, 2, 3, 4] }).1 = some 16909060 := by decide

end Spg.C09
