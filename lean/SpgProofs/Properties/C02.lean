/-
  C02 — Character passwords are uniform over exactly the strings the recipe allows.

  What is proved, in plain words. Every bounded draw `randomUint32n(n)` returns each of its `n`
  alternatives with probability exactly `1/n`, independently (that is C01; it is the meaning of
  `Rand.E` / `Rand.prob` in `SpgProofs.Lemmas.Prob`). Under that reading, exactly, in rational
  arithmetic:

  * `drawMany_E`: `L` successive draws over `b` alternatives are uniform over all `b^L` index
    tuples.
  * `candidate_uniform`: one candidate password is uniform over all `N^L` strings of length `L`
    over the alphabet (`N` = size of the alphabet): the last character of the alphabet is as
    likely as the first, at every position, and each string is counted exactly once.
  * `tryLoop_prob_valid`, `tryLoop_prob_invalid`, `tryLoop_prob_exhausted`: the retry loop
    with budget `T` returns each string that is over the alphabet and passes the requirement
    filter with probability `(1 + q + … + q^(T-1)) / M`, where `M = N^L`, `V` is the number of
    valid strings and `q = (M - V)/M` is the chance that one candidate is rejected. This does not
    depend on the string: all valid strings are exactly equally likely; retrying after a
    rejected candidate favours none. Any other string has probability 0, and the loop gives up
    ("exhausted") with probability exactly `q^T`.
  * `genChars_prob_valid`, `genChars_prob_invalid`, `valid_equally_likely`: the same for
    `CharRecipe.Generate` on a recipe that gets past the pre-flight checks, with the recipe's own
    alphabet, `Length` and `MaxTrials`. (When a pre-flight check fails the result is an error with
    certainty — C13 — so no string is returned at all.)
  * a concrete recipe (duplicate in `AllowChars`, a required set, an excluded character) for
    which all hypotheses hold, so that none of the above is vacuous.

  That `V` is the number `CharRecipe.n()` reports is C07; that the returned strings satisfy the
  recipe on every stream is C03.
-/
import SpgProofs.Lemmas.ProbChar
namespace Spg.C02
open Spg CharRecipe

/-- `L` successive draws are uniform over all index tuples.
(The hypothesis `0 < b` is not needed for the identity; it is kept because that is the only case
in which the generator draws.) -/
theorem drawMany_E (b L : Nat) (_hb : 0 < b) (g : List Nat → ℚ) :
    Rand.E (Rand.drawMany b L) g = ((strings (List.range b) L).map g).sum / (b : ℚ) ^ L :=
  Rand.drawMany_E' b L g

/-- One candidate is uniform over all `N^L` strings over the alphabet: expectation of any
pay-off `g` is the plain average of `g` over `strings alpha L`, a duplicate-free list
(`strings_nodup`) of exactly `N^L` strings (`strings_length`). -/
theorem candidate_uniform (alpha : List Nat) (_hnd : alpha.Nodup) (_hne : alpha ≠ []) (L : Nat)
    (g : List Nat → ℚ) :
    Rand.E (CharRecipe.candidate alpha L) g
      = ((strings alpha L).map g).sum / (alpha.length : ℚ) ^ L :=
  candidate_E alpha L g

/-- Each individual string over the alphabet has probability exactly `1 / N^L` of being the
candidate (the `g := indicator of s` instance of `candidate_uniform`, where duplicate-freeness
of the alphabet matters). -/
theorem candidate_prob (alpha : List Nat) (hnd : alpha.Nodup) (_hne : alpha ≠ []) (L : Nat)
    (s : List Nat) (hs : s ∈ strings alpha L) :
    Rand.prob (CharRecipe.candidate alpha L) (fun c => c == s) = 1 / (alpha.length : ℚ) ^ L := by
  unfold Rand.prob
  rw [candidate_E]
  simp only []
  rw [sum_indicator_of_mem s _ (strings_nodup hnd L) hs]

variable (cfg : Cfg) (r : CharRecipe)

/-! In the statements below, with `M = N^L` (`N = alpha.length`) the number of candidates:
`V = ((strings alpha L).filter (r.passes cfg.tbl)).length` is the number of valid strings and
`q = (M - V) / M` the probability that one candidate is rejected. The closed form
`(1 + q + … + q^(T-1)) / M` mentions no particular string. -/

/-- **Every valid string is returned by the retry loop with the same probability**, namely
`(1 + q + … + q^(T-1)) / M`. -/
theorem tryLoop_prob_valid (alpha : List Nat) (hnd : alpha.Nodup) (hne : alpha ≠ []) (L : Nat)
    (s : List Nat) (hs : s ∈ strings alpha L) (hp : r.passes cfg.tbl s = true) (T : Nat) :
    Rand.prob (tryLoop cfg r alpha L T)
        (fun res => match res with | .ok cs => cs == s | .err _ => false)
      = ((List.range T).map fun t =>
            (((alpha.length : ℚ) ^ L
              - (((strings alpha L).filter fun s => r.passes cfg.tbl s).length : ℚ))
              / (alpha.length : ℚ) ^ L) ^ t).sum
          / (alpha.length : ℚ) ^ L := by
  have hN : (alpha.length : ℚ) ≠ 0 := by
    have : alpha.length ≠ 0 := fun h => hne (List.length_eq_zero_iff.mp h)
    exact_mod_cast this
  have hM : (alpha.length : ℚ) ^ L ≠ 0 := pow_ne_zero L hN
  unfold Rand.prob
  induction T with
  | zero => simp [tryLoop_E_zero]
  | succ T ih =>
    rw [tryLoop_E_succ, ih, geom_sum_succ]
    have hmem : s ∈ (strings alpha L).filter fun s => r.passes cfg.tbl s :=
      List.mem_filter.mpr ⟨hs, hp⟩
    have h1 := sum_indicator_of_mem s _ ((strings_nodup hnd L).filter _) hmem
    simp only []
    rw [h1]
    field_simp

/-- **No other string is ever returned**: a string that is not of length `L` over the alphabet,
or that fails the requirement filter, has probability 0. -/
theorem tryLoop_prob_invalid (alpha : List Nat) (L : Nat)
    (s : List Nat) (hs : s ∉ strings alpha L ∨ r.passes cfg.tbl s = false) (T : Nat) :
    Rand.prob (tryLoop cfg r alpha L T)
        (fun res => match res with | .ok cs => cs == s | .err _ => false) = 0 := by
  unfold Rand.prob
  induction T with
  | zero => simp [tryLoop_E_zero]
  | succ T ih =>
    rw [tryLoop_E_succ, ih]
    have hmem : s ∉ (strings alpha L).filter fun s => r.passes cfg.tbl s := by
      intro h
      obtain ⟨h1, h2⟩ := List.mem_filter.mp h
      rcases hs with hs | hs
      · exact hs h1
      · rw [hs] at h2; cases h2
    have h1 := sum_indicator_of_not_mem s _ hmem
    simp only []
    rw [h1]
    simp

/-- **The loop gives up with probability exactly `q^T`.** -/
theorem tryLoop_prob_exhausted (alpha : List Nat) (L T : Nat) :
    Rand.prob (tryLoop cfg r alpha L T)
        (fun res => match res with | .err .exhausted => true | _ => false)
      = (((alpha.length : ℚ) ^ L
            - (((strings alpha L).filter fun s => r.passes cfg.tbl s).length : ℚ))
          / (alpha.length : ℚ) ^ L) ^ T := by
  unfold Rand.prob
  induction T with
  | zero => simp [tryLoop_E_zero]
  | succ T ih =>
    rw [tryLoop_E_succ, ih, pow_succ]
    simp only [Bool.false_eq_true, if_false, List.map_const', List.sum_replicate, nsmul_zero,
      zero_div, zero_add]
    ring

/-- On a recipe that gets past the pre-flight checks, `Generate` is the retry loop. -/
theorem genChars_eq (hL : 1 ≤ r.length) (ha : r.alphabet cfg.tbl ≠ [])
    (hacc : r.acceptable cfg = true) :
    genChars cfg r = tryLoop cfg r (r.alphabet cfg.tbl) r.length.toNat cfg.maxTrials := by
  unfold genChars
  rw [if_neg (by omega)]
  have : (r.alphabet cfg.tbl).isEmpty = false := by
    cases hh : r.alphabet cfg.tbl with
    | nil => exact absurd hh ha
    | cons _ _ => rfl
  simp [this, hacc]

/-- **C02 for `Generate`**: every string of length `Length` over the recipe's alphabet that
passes the requirement filter is returned with the same probability
`(1 + q + … + q^(MaxTrials-1)) / N^Length`. -/
theorem genChars_prob_valid (hL : 1 ≤ r.length) (ha : r.alphabet cfg.tbl ≠ [])
    (hacc : r.acceptable cfg = true) (s : List Nat)
    (hs : s ∈ strings (r.alphabet cfg.tbl) r.length.toNat) (hp : r.passes cfg.tbl s = true) :
    Rand.prob (genChars cfg r)
        (fun res => match res with | .ok cs => cs == s | .err _ => false)
      = ((List.range cfg.maxTrials).map fun t =>
            ((((r.alphabet cfg.tbl).length : ℚ) ^ r.length.toNat
              - (((strings (r.alphabet cfg.tbl) r.length.toNat).filter
                    fun s => r.passes cfg.tbl s).length : ℚ))
              / ((r.alphabet cfg.tbl).length : ℚ) ^ r.length.toNat) ^ t).sum
          / ((r.alphabet cfg.tbl).length : ℚ) ^ r.length.toNat := by
  rw [genChars_eq cfg r hL ha hacc]
  exact tryLoop_prob_valid cfg r _ (alphabet_nodup cfg.tbl r) ha _ s hs hp _

/-- **C02 for `Generate`, the other strings**: probability 0. -/
theorem genChars_prob_invalid (hL : 1 ≤ r.length) (ha : r.alphabet cfg.tbl ≠ [])
    (hacc : r.acceptable cfg = true) (s : List Nat)
    (hs : s ∉ strings (r.alphabet cfg.tbl) r.length.toNat ∨ r.passes cfg.tbl s = false) :
    Rand.prob (genChars cfg r)
        (fun res => match res with | .ok cs => cs == s | .err _ => false) = 0 := by
  rw [genChars_eq cfg r hL ha hacc]
  exact tryLoop_prob_invalid cfg r _ _ s hs _

/-- `Generate` on such a recipe gives up with probability exactly `q^MaxTrials`. -/
theorem genChars_prob_exhausted (hL : 1 ≤ r.length) (ha : r.alphabet cfg.tbl ≠ [])
    (hacc : r.acceptable cfg = true) :
    Rand.prob (genChars cfg r)
        (fun res => match res with | .err .exhausted => true | _ => false)
      = ((((r.alphabet cfg.tbl).length : ℚ) ^ r.length.toNat
            - (((strings (r.alphabet cfg.tbl) r.length.toNat).filter
                  fun s => r.passes cfg.tbl s).length : ℚ))
          / ((r.alphabet cfg.tbl).length : ℚ) ^ r.length.toNat) ^ cfg.maxTrials := by
  rw [genChars_eq cfg r hL ha hacc]
  exact tryLoop_prob_exhausted cfg r _ _ _

/-- **All valid strings are equally likely.** -/
theorem valid_equally_likely (hL : 1 ≤ r.length) (ha : r.alphabet cfg.tbl ≠ [])
    (hacc : r.acceptable cfg = true) (s₁ s₂ : List Nat)
    (hs₁ : s₁ ∈ strings (r.alphabet cfg.tbl) r.length.toNat) (hp₁ : r.passes cfg.tbl s₁ = true)
    (hs₂ : s₂ ∈ strings (r.alphabet cfg.tbl) r.length.toNat) (hp₂ : r.passes cfg.tbl s₂ = true) :
    Rand.prob (genChars cfg r)
        (fun res => match res with | .ok cs => cs == s₁ | .err _ => false)
      = Rand.prob (genChars cfg r)
        (fun res => match res with | .ok cs => cs == s₂ | .err _ => false) := by
  rw [genChars_prob_valid cfg r hL ha hacc s₁ hs₁ hp₁, genChars_prob_valid cfg r hL ha hacc s₂ hs₂ hp₂]

/-! ### Non-vacuity

A concrete recipe over the class table `[(4, "012")]`: `Length = 2`, the class allowed,
`AllowChars = "aa"` (a duplicate), one required set `"ab"`, `ExcludeChars = "2"`; budget
`MaxTrials = 5`, `MaxFailRate = 1/2`. Its alphabet is `0 1 a b` (`N = 4`, `M = 16`), `V = 12`
strings contain an `a` or a `b`, `q = 1/4`. All hypotheses of `genChars_prob_valid` hold, and
the string `"0b"` — like each of the other eleven — has probability
`(1 + 1/4 + … + 1/4^4) / 16 = 341/4096`; `12 · 341/4096 + (1/4)^5 = 1`. -/

/-- The example configuration. -/
def exCfg : Cfg := { tbl := [(4, [48, 49, 50])], maxTrials := 5, frNum := 1, frDen := 2 }

/-- The example recipe. -/
def exR : CharRecipe :=
  { length := 2, allow := 4, require := 0, exclude := 0,
    allowChars := [97, 97], requireSets := [[97, 98]], excludeChars := [50] }

example :
    1 ≤ exR.length ∧ exR.alphabet exCfg.tbl = [48, 49, 97, 98] ∧ exR.alphabet exCfg.tbl ≠ [] ∧
    exR.acceptable exCfg = true ∧
    [48, 98] ∈ strings (exR.alphabet exCfg.tbl) exR.length.toNat ∧
    exR.passes exCfg.tbl [48, 98] = true ∧
    -- an invalid string over the alphabet, and one outside it
    exR.passes exCfg.tbl [48, 49] = false ∧
    [50, 97] ∉ strings (exR.alphabet exCfg.tbl) exR.length.toNat ∧
    ((strings (exR.alphabet exCfg.tbl) exR.length.toNat).filter
      fun s => exR.passes exCfg.tbl s).length = 12 := by
  decide

example :
    Rand.prob (genChars exCfg exR)
        (fun res => match res with | .ok cs => cs == [48, 98] | .err _ => false) = 341 / 4096 := by
  refine (genChars_prob_valid exCfg exR (by decide) (by decide) (by decide) [48, 98]
    (by decide) (by decide)).trans ?_
  have hV : ((strings (exR.alphabet exCfg.tbl) exR.length.toNat).filter
      fun s => exR.passes exCfg.tbl s).length = 12 := by decide
  have hA : (exR.alphabet exCfg.tbl).length = 4 := by decide
  have hL : exR.length.toNat = 2 := by decide
  have hT : exCfg.maxTrials = 5 := rfl
  rw [hV, hA, hL, hT]
  norm_num [List.range_succ]

example :
    Rand.prob (genChars exCfg exR)
        (fun res => match res with | .ok cs => cs == [48, 49] | .err _ => false) = 0 :=
  genChars_prob_invalid exCfg exR (by decide) (by decide) (by decide) [48, 49] (Or.inr (by decide))

end Spg.C02
