/-
  C11 — Token index round-trips every password exactly and is as compact as documented.

  `roundtrip`: for every non-empty token sequence whose tokens are 1 to 255 characters long —
  whatever the characters (an arbitrary type: ASCII and non-ASCII alike) and whatever the type
  bytes — MakeIndices succeeds and Tokenize(String(), index) gives back exactly the same
  tokens (values and types; the entropy argument is copied through by the code unchanged).
  `too_long_is_error`, `index_size`, `kind_*` give the error and size laws.
-/
import SpgProofs.Lemmas.Token
namespace Spg.C11
open Spg Tokens

variable {α : Type}

theorem le_foldl_max (ts : List (Token α)) (m : Nat) :
    m ≤ ts.foldl (fun m t => max m t.value.length) m ∧
    ∀ t ∈ ts, t.value.length ≤ ts.foldl (fun m t => max m t.value.length) m := by
  induction ts generalizing m with
  | nil => simp
  | cons a ts ih =>
    simp only [List.foldl_cons, List.mem_cons]
    obtain ⟨h1, h2⟩ := ih (max m a.value.length)
    refine ⟨by omega, ?_⟩
    intro t ht
    rcases ht with rfl | ht
    · omega
    · exact h2 t ht

theorem le_maxLen (ts : List (Token α)) (t : Token α) (h : t ∈ ts) : t.value.length ≤ maxLen ts :=
  (le_foldl_max ts 0).2 t h

/-- Slicing the concatenation by the tokens' own lengths gives the tokens back, provided the
types follow `typeOf`. Extra characters after the tokens are left alone. -/
theorem slices_concat (typeOf : Nat → Nat) :
    ∀ (ts : List (Token α)) (i : Nat) (extra : List α),
      (∀ j (h : j < ts.length), ts[j].ttype = typeOf (i + j)) →
      slices typeOf i (ts.map (·.value.length)) (concat ts ++ extra) = some ts := by
  intro ts
  induction ts with
  | nil => intro i extra _; simp [slices]
  | cons t ts ih =>
    intro i extra htypes
    simp only [List.map_cons, slices, concat, List.flatMap_cons, List.append_assoc, List.length_append]
    rw [if_neg (by omega), List.drop_left, List.take_left]
    have hrec := ih (i + 1) extra (fun j h => by
      have := htypes (j + 1) (by simp; omega)
      simpa [Nat.add_assoc, Nat.add_comm 1 j] using this)
    simp only [concat] at hrec
    rw [hrec]
    have h0 := htypes 0 (by simp)
    simp at h0
    cases t; simp_all

theorem slicesFull_concat :
    ∀ (ts : List (Token α)) (extra : List α),
      slicesFull (ts.flatMap fun t => [t.value.length, t.ttype]) (concat ts ++ extra) = some ts := by
  intro ts
  induction ts with
  | nil => intro extra; simp [slicesFull]
  | cons t ts ih =>
    intro extra
    simp only [List.flatMap_cons, List.cons_append, List.nil_append, slicesFull, concat,
      List.append_assoc, List.length_append]
    rw [if_neg (by omega), List.drop_left, List.take_left]
    have hrec := ih extra
    simp only [concat] at hrec
    rw [hrec]

theorem all_atoms_types (ts : List (Token α)) (h : isAllAtoms ts = true) :
    ∀ j (hj : j < ts.length), ts[j].ttype = atomType := by
  intro j hj
  simp only [isAllAtoms, Bool.and_eq_true, List.all_eq_true] at h
  have := h.2 ts[j] (List.getElem_mem hj)
  simpa using this

theorem altFrom_types : ∀ (ts : List (Token α)) (i : Nat), altFrom i ts = true →
    ∀ j (hj : j < ts.length), ts[j].ttype = (if (i + j) % 2 = 1 then sepType else atomType) := by
  intro ts
  induction ts with
  | nil => intro i _ j hj; simp at hj
  | cons t ts ih =>
    intro i h j hj
    simp only [altFrom, Bool.and_eq_true] at h
    cases j with
    | zero =>
      simp only [List.getElem_cons_zero, Nat.add_zero]
      by_cases hi : i % 2 = 0
      · simp [hi] at h; rw [if_neg (by omega)]; exact h.1
      · simp [hi] at h; rw [if_pos (by omega)]; exact h.1
    | succ j =>
      simp only [List.getElem_cons_succ]
      have := ih (i + 1) h.2 j (by simpa using hj)
      rw [this]; congr 2; omega

/-- **Round trip.** -/
theorem roundtrip (ts : List (Token α)) (hne : ts ≠ [])
    (hlen : ∀ t ∈ ts, 1 ≤ t.value.length ∧ t.value.length ≤ 255) :
    ∃ ix, makeIndices ts = some ix ∧ Tokens.tokenize (concat ts) ix = some ts := by
  have hall255 : (ts.all fun t => decide (t.value.length ≤ 255)) = true := by
    rw [List.all_eq_true]; intro t ht; simpa using (hlen t ht).2
  have hemp : ts.isEmpty = false := by cases ts <;> simp_all
  unfold makeIndices
  rw [hemp]
  simp only [Bool.false_eq_true, if_false]
  unfold kind
  by_cases hA : isAllAtoms ts = true
  · by_cases hM : maxLen ts = 1
    · -- character password
      simp only [hA, hM, beq_self_eq_true, Bool.and_self, if_true]
      refine ⟨[0], rfl, ?_⟩
      simp only [Tokens.tokenize]
      congr 1
      have hone : ∀ t ∈ ts, ∃ c, t = { value := [c], ttype := atomType } := by
        intro t ht
        have h1 := (hlen t ht).1
        have h2 := le_maxLen ts t ht
        have hl : t.value.length = 1 := by omega
        obtain ⟨j, hj, rfl⟩ := List.getElem_of_mem ht
        have hty := all_atoms_types ts hA j hj
        match hv : ts[j].value, hl with
        | [c], _ => exact ⟨c, by cases hh : ts[j]; simp_all⟩
      clear hlen hall255 hemp hne hA hM
      induction ts with
      | nil => simp [concat]
      | cons t ts ih =>
        obtain ⟨c, rfl⟩ := hone t (List.mem_cons_self)
        simp only [concat, List.flatMap_cons, List.singleton_append, List.map_cons]
        congr 1
        exact ih (fun t ht => hone t (List.mem_cons_of_mem _ ht))
    · -- variable atoms
      have hM' : (maxLen ts == 1) = false := by simpa using hM
      simp only [hA, hM', Bool.and_false, Bool.false_eq_true, if_false, if_true, hall255]
      refine ⟨_, rfl, ?_⟩
      simp only [Tokens.tokenize]
      have := slices_concat (fun _ => atomType) ts 0 [] (fun j hj => all_atoms_types ts hA j hj)
      simpa using this
  · have hA' : isAllAtoms ts = false := by simpa using hA
    by_cases hAlt : isAlternating ts = true
    · simp only [hA', Bool.false_and, Bool.false_eq_true, if_false, hAlt, if_true, hall255]
      refine ⟨_, rfl, ?_⟩
      simp only [Tokens.tokenize]
      have halt : altFrom 0 ts = true := by
        simp only [isAlternating, Bool.and_eq_true] at hAlt; exact hAlt.2
      have := slices_concat (fun i => if i % 2 = 1 then sepType else atomType) ts 0 []
        (fun j hj => by simpa using altFrom_types ts 0 halt j hj)
      simpa using this
    · have hAlt' : isAlternating ts = false := by simpa using hAlt
      simp only [hA', Bool.false_and, Bool.false_eq_true, if_false, hAlt', hall255, if_true]
      refine ⟨_, rfl, ?_⟩
      simp only [Tokens.tokenize]
      have hlen2 : (ts.flatMap fun t => [t.value.length, t.ttype]).length % 2 = 0 := by
        clear hlen hall255 hemp hne hA hA' hAlt hAlt'
        induction ts with
        | nil => simp
        | cons t ts ih => simp only [List.flatMap_cons, List.length_append, List.length_cons, List.length_nil]; omega
      rw [if_neg (by omega)]
      have := slicesFull_concat ts []
      simpa using this

/-- A token longer than 255 characters cannot be encoded: MakeIndices reports an error rather
than producing a lossy index. -/
theorem too_long_is_error (ts : List (Token α)) (h : ∃ t ∈ ts, 255 < t.value.length) :
    makeIndices ts = none := by
  obtain ⟨t, ht, hl⟩ := h
  have hne : ts.isEmpty = false := by cases ts <;> simp_all
  have hnot : (ts.all fun t => decide (t.value.length ≤ 255)) = false := by
    rw [Bool.eq_false_iff]; intro hall
    rw [List.all_eq_true] at hall
    have := hall t ht; simp at this; omega
  have hmax : (maxLen ts == 1) = false := by
    have := le_maxLen ts t ht
    simp; omega
  unfold makeIndices kind
  simp only [hne, Bool.false_eq_true, if_false, hmax, Bool.and_false]
  by_cases hA : isAllAtoms ts = true <;> by_cases hL : isAlternating ts = true <;> simp [hA, hL, hnot]

/-- The index has the documented size: one byte for a character password, one byte per token
plus one for all-atom and alternating sequences, two bytes per token plus one otherwise. -/
theorem index_size (ts : List (Token α)) (ix : List Nat) (hne : ts ≠ []) (h : makeIndices ts = some ix) :
    ix.length = (if kind ts = 0 then 1 else if kind ts = 1 ∨ kind ts = 2 then 1 + ts.length
                 else 1 + 2 * ts.length) := by
  have hemp : ts.isEmpty = false := by cases ts <;> simp_all
  unfold makeIndices at h
  rw [hemp] at h
  simp only [Bool.false_eq_true, if_false] at h
  have hflat : (ts.flatMap fun t => [t.value.length, t.ttype]).length = 2 * ts.length := by
    clear h hemp hne
    induction ts with
    | nil => simp
    | cons t ts ih => simp only [List.flatMap_cons, List.length_append, List.length_cons, List.length_nil, ih]; omega
  split at h
  · rename_i hk; injection h with h; subst h; simp [hk]
  · rename_i hk
    split at h
    · injection h with h; subst h; simp [hk]; omega
    · cases h
  · rename_i hk
    split at h
    · injection h with h; subst h; simp [hk]; omega
    · cases h
  · rename_i h0 h1 h2
    split at h
    · injection h with h; subst h
      simp only [List.length_cons, hflat]
      rw [if_neg h0, if_neg (by intro hh; rcases hh with hh | hh; exact h1 hh; exact h2 hh)]; omega
    · cases h

/-- `Kind()` is "character" exactly when every token is an atom of at most one character
(exactly one, given that tokens are non-empty). -/
theorem kind_character (ts : List (Token α)) (hne : ts ≠ []) (hlen : ∀ t ∈ ts, 1 ≤ t.value.length) :
    kind ts = 0 ↔ (∀ t ∈ ts, t.ttype = atomType ∧ t.value.length = 1) := by
  have hemp : ts.isEmpty = false := by cases ts <;> simp_all
  unfold kind
  constructor
  · intro h
    by_cases hc : (isAllAtoms ts && maxLen ts == 1) = true
    · simp only [Bool.and_eq_true, beq_iff_eq] at hc
      intro t ht
      obtain ⟨j, hj, rfl⟩ := List.getElem_of_mem ht
      refine ⟨all_atoms_types ts hc.1 j hj, ?_⟩
      have := le_maxLen ts ts[j] (List.getElem_mem hj)
      have := hlen ts[j] (List.getElem_mem hj)
      omega
    · rw [if_neg hc] at h
      split at h <;> (try split at h) <;> simp at h
  · intro h
    have hA : isAllAtoms ts = true := by
      simp only [isAllAtoms, hemp, Bool.not_false, Bool.true_and, List.all_eq_true]
      intro t ht; simpa using (h t ht).1
    have hM : maxLen ts = 1 := by
      have hle : maxLen ts ≤ 1 := by
        unfold maxLen
        have : ∀ (l : List (Token α)) (m : Nat), m ≤ 1 → (∀ t ∈ l, t.value.length = 1) →
            l.foldl (fun m t => max m t.value.length) m ≤ 1 := by
          intro l
          induction l with
          | nil => intro m hm _; simpa
          | cons a l ih =>
            intro m hm hl
            simp only [List.foldl_cons]
            apply ih
            · have := hl a (List.mem_cons_self); omega
            · intro t ht; exact hl t (List.mem_cons_of_mem _ ht)
        exact this ts 0 (by omega) (fun t ht => (h t ht).2)
      obtain ⟨t, ht⟩ := List.exists_mem_of_ne_nil ts hne
      have := le_maxLen ts t ht
      have := (h t ht).2
      omega
    simp [hA, hM]

/-- `Kind()` is "variable atoms" exactly when all tokens are atoms and it is not a character
password; "alternating" exactly for A S A … A with both types present. -/
theorem kind_varAtoms (ts : List (Token α)) :
    kind ts = 1 ↔ (isAllAtoms ts = true ∧ maxLen ts ≠ 1) := by
  unfold kind
  by_cases hA : isAllAtoms ts = true <;> by_cases hM : maxLen ts = 1 <;>
    by_cases hL : isAlternating ts = true <;> simp [hA, hM, hL]

theorem kind_alternating (ts : List (Token α)) :
    kind ts = 2 ↔ (isAllAtoms ts = false ∧ isAlternating ts = true) := by
  unfold kind
  by_cases hA : isAllAtoms ts = true <;> by_cases hM : maxLen ts = 1 <;>
    by_cases hL : isAlternating ts = true <;> simp [hA, hM, hL]

/-- Index entries fit in a byte whenever the type bytes do. -/
theorem index_bytes (ts : List (Token α)) (ix : List Nat) (h : makeIndices ts = some ix)
    (hty : ∀ t ∈ ts, t.ttype < 256) : ∀ b ∈ ix, b < 256 := by
  unfold makeIndices at h
  split at h
  · injection h with h; subst h; simp
  · have key : (ts.all fun t => decide (t.value.length ≤ 255)) = true →
        (∀ b ∈ ts.map (·.value.length), b < 256) := by
      intro hall b hb
      rw [List.all_eq_true] at hall
      obtain ⟨t, ht, rfl⟩ := List.mem_map.mp hb
      have := hall t ht; simp at this; omega
    split at h
    · injection h with h; subst h; simp
    · split at h
      · rename_i hall; injection h with h; subst h
        intro b hb; rcases List.mem_cons.mp hb with rfl | hb
        · omega
        · exact key hall b hb
      · cases h
    · split at h
      · rename_i hall; injection h with h; subst h
        intro b hb; rcases List.mem_cons.mp hb with rfl | hb
        · omega
        · exact key hall b hb
      · cases h
    · split at h
      · rename_i hall; injection h with h; subst h
        intro b hb; rcases List.mem_cons.mp hb with rfl | hb
        · omega
        · rw [List.all_eq_true] at hall
          obtain ⟨t, ht, hbt⟩ := List.mem_flatMap.mp hb
          simp only [List.mem_cons, List.not_mem_nil, or_false] at hbt
          rcases hbt with rfl | rfl
          · have := hall t ht; simp at this; omega
          · exact hty t ht
      · cases h

/-! ### Non-vacuity -/

/-- A non-ASCII-like alternating sequence (characters are just values of `α`): hypotheses met,
round trip computed. -/
example :
    let ts : List (Token Nat) := [⟨[233, 233], 1⟩, ⟨[45], 0⟩, ⟨[26085, 26412], 1⟩]
    (∀ t ∈ ts, 1 ≤ t.value.length ∧ t.value.length ≤ 255) ∧
    makeIndices ts = some [2, 2, 1, 2] ∧ Tokens.tokenize (concat ts) [2, 2, 1, 2] = some ts := by
  decide

/-- An irregular sequence with an unusual type byte needs the full index and still round-trips. -/
example :
    let ts : List (Token Nat) := [⟨[1, 2], 7⟩, ⟨[3], 0⟩]
    makeIndices ts = some [3, 2, 7, 1, 0] ∧ Tokens.tokenize (concat ts) [3, 2, 7, 1, 0] = some ts := by
  decide

end Spg.C11
