/-
  C12 — Tokenize is total: malformed indices give an error, never a panic or fake text.

  `TokenizeGo.tokenize` is token.go's Tokenize transcribed with every run-time check of Go
  (indexing, slicing, indexed stores) as an explicit `panic` outcome; it is what the driver runs
  against the real code. `tokenizeGo_spec` shows it equals the specification `Tokens.tokenize`
  for every string and every index, so the `panic` outcome is unreachable (`tokenize_no_panic`).
  The specification's successes are consecutive slices of the string (`tokenize_prefix`) with
  exactly the character counts the index gives (`tokenize_lengths_*`), and the listed malformed
  inputs are errors (`tokenize_errors`). Characters are an arbitrary type: nothing depends on
  UTF-8, so invalid UTF-8 and the empty string are covered.
-/
import SpgProofs.Lemmas.Token
import SpgProofs.Lemmas.Explode
namespace Spg.C12
open Spg Tokens

variable {α : Type}

/-- The transcribed code computes the specification, for every input. -/
theorem tokenizeGo_spec (chars : List α) (ti : List Nat) :
    TokenizeGo.tokenize chars ti = liftRes (Tokens.tokenize chars ti) := by
  cases ti with
  | nil => rfl
  | cons k rest =>
    unfold TokenizeGo.tokenize
    by_cases h0 : k = 0
    · subst h0; simp [Tokens.tokenize, liftRes]
    by_cases h1 : k = 1
    · subst h1
      simp only [if_neg h0, if_true, Tokens.tokenize]
      have := loopVar_eq chars (fun _ => atomType) rest.length rest 0 0 (by omega) (by omega)
      simpa using this
    by_cases h2 : k = 2
    · subst h2
      simp only [if_neg h0, if_neg h1, if_true, Tokens.tokenize]
      have := loopVar_eq chars (fun i => if i % 2 = 1 then sepType else atomType) rest.length rest 0 0
        (by omega) (by omega)
      simpa using this
    by_cases h3 : k = 3
    · subst h3
      simp only [if_neg h0, if_neg h1, if_neg h2, if_true, Tokens.tokenize, List.length_cons]
      by_cases hodd : (rest.length + 1) % 2 ≠ 1
      · have : rest.length % 2 ≠ 0 := by omega
        simp [hodd, this, liftRes]
      · have hev : rest.length % 2 = 0 := by omega
        rw [if_neg hodd, if_neg (by omega)]
        have := loopFull_eq_aux chars (3 :: rest) ((rest.length + 1) / 2) (rest.length / 2) rest
          (rest.length + 1) 1 0 (by omega) (by simp) (by omega) (by omega) (by omega)
        simpa using this
    · simp only [if_neg h0, if_neg h1, if_neg h2, if_neg h3]
      match k, h0, h1, h2, h3 with
      | k + 4, _, _, _, _ => simp [Tokens.tokenize, liftRes]

/-- **Tokenize never panics**, whatever the string and the index bytes. -/
theorem tokenize_no_panic (chars : List α) (ti : List Nat) :
    TokenizeGo.tokenize chars ti ≠ .panic := by
  rw [tokenizeGo_spec]; cases Tokens.tokenize chars ti <;> simp [liftRes]

/-- Consecutive slices: the values concatenate to a prefix of the characters, and each token
has exactly the length its index entry says. -/
theorem slices_spec (typeOf : Nat → Nat) :
    ∀ (ls : List Nat) (i : Nat) (chars : List α) (ts : List (Token α)),
      slices typeOf i ls chars = some ts →
      concat ts = chars.take ls.sum ∧ ts.map (·.value.length) = ls ∧ ls.sum ≤ chars.length := by
  intro ls
  induction ls with
  | nil => intro i chars ts h; simp [slices] at h; subst h; simp [concat]
  | cons l ls ih =>
    intro i chars ts h
    simp only [slices] at h
    split at h
    · cases h
    · rename_i hl
      cases hrec : slices typeOf (i + 1) ls (chars.drop l) with
      | none => simp [hrec] at h
      | some ts' =>
        simp only [hrec, Option.some.injEq] at h
        subst h
        obtain ⟨h1, h2, h3⟩ := ih (i + 1) (chars.drop l) ts' hrec
        have hll : l ≤ chars.length := by omega
        simp only [List.length_drop] at h3
        refine ⟨?_, ?_, ?_⟩
        · simp only [concat, List.flatMap_cons, List.sum_cons] at h1 ⊢
          rw [h1, List.take_add]
        · simp [h2, List.length_take, Nat.min_eq_left hll]
        · simp only [List.sum_cons]; omega

/-- Lengths (even positions) of a full index's payload. -/
def fullLengths : List Nat → List Nat
  | l :: _ :: rest => l :: fullLengths rest
  | _ => []

/-- Types (odd positions) of a full index's payload. -/
def fullTypes : List Nat → List Nat
  | _ :: t :: rest => t :: fullTypes rest
  | _ => []

theorem slicesFull_spec :
    ∀ (k : Nat) (ls : List Nat) (chars : List α) (ts : List (Token α)), ls.length ≤ k →
      slicesFull ls chars = some ts →
      concat ts = chars.take (fullLengths ls).sum ∧ ts.map (·.value.length) = fullLengths ls ∧
        ts.map (·.ttype) = fullTypes ls ∧ (fullLengths ls).sum ≤ chars.length := by
  intro k
  induction k using Nat.strongRecOn with
  | _ k ih =>
    intro ls chars ts hk h
    match ls with
    | [] => simp [slicesFull] at h; subst h; simp [concat, fullLengths, fullTypes]
    | [_] => simp [slicesFull] at h; subst h; simp [concat, fullLengths, fullTypes]
    | l :: t :: rest =>
      simp only [slicesFull] at h
      split at h
      · cases h
      · rename_i hl
        cases hrec : slicesFull rest (chars.drop l) with
        | none => simp [hrec] at h
        | some ts' =>
          simp only [hrec, Option.some.injEq] at h
          subst h
          simp only [List.length_cons] at hk
          obtain ⟨h1, h2, h3, h4⟩ := ih (k - 2) (by omega) rest (chars.drop l) ts' (by omega) hrec
          have hll : l ≤ chars.length := by omega
          simp only [List.length_drop] at h4
          refine ⟨?_, ?_, ?_, ?_⟩
          · simp only [concat, List.flatMap_cons, fullLengths, List.sum_cons] at h1 ⊢
            rw [h1, List.take_add]
          · simp [h2, fullLengths, List.length_take, Nat.min_eq_left hll]
          · simp [h3, fullTypes]
          · simp only [fullLengths, List.sum_cons]; omega

/-- **Prefix law**: whenever Tokenize succeeds, the token values concatenate to a prefix of the
string — the tokens are consecutive slices of it, never invented text. -/
theorem tokenize_prefix (chars : List α) (ti : List Nat) (ts : List (Token α))
    (h : Tokens.tokenize chars ti = some ts) : ∃ k, k ≤ chars.length ∧ concat ts = chars.take k := by
  match ti, h with
  | 0 :: _, h =>
    simp only [Tokens.tokenize, Option.some.injEq] at h; subst h
    refine ⟨chars.length, Nat.le_refl _, ?_⟩
    simp [concat, List.flatMap_map]
  | 1 :: ls, h =>
    obtain ⟨h1, _, h3⟩ := slices_spec _ ls 0 chars ts h
    exact ⟨_, h3, h1⟩
  | 2 :: ls, h =>
    obtain ⟨h1, _, h3⟩ := slices_spec _ ls 0 chars ts h
    exact ⟨_, h3, h1⟩
  | 3 :: ls, h =>
    simp only [Tokens.tokenize] at h
    split at h
    · cases h
    · obtain ⟨h1, _, _, h4⟩ := slicesFull_spec ls.length ls chars ts (Nat.le_refl _) h
      exact ⟨_, h4, h1⟩

/-- Character index: every character becomes a one-character atom. -/
theorem tokenize_lengths_char (chars : List α) (rest : List Nat) (ts : List (Token α))
    (h : Tokens.tokenize chars (0 :: rest) = some ts) :
    ts.length = chars.length ∧ ∀ t ∈ ts, t.value.length = 1 ∧ t.ttype = atomType := by
  simp only [Tokens.tokenize, Option.some.injEq] at h; subst h
  simp

/-- Variable-atoms index: token `i` has exactly `ls[i]` characters and is an atom. -/
theorem tokenize_lengths_var (chars : List α) (ls : List Nat) (ts : List (Token α))
    (h : Tokens.tokenize chars (1 :: ls) = some ts) : ts.map (·.value.length) = ls :=
  (slices_spec _ ls 0 chars ts h).2.1

/-- Alternating index: token `i` has exactly `ls[i]` characters. -/
theorem tokenize_lengths_alt (chars : List α) (ls : List Nat) (ts : List (Token α))
    (h : Tokens.tokenize chars (2 :: ls) = some ts) : ts.map (·.value.length) = ls :=
  (slices_spec _ ls 0 chars ts h).2.1

/-- Full index: token `i` has exactly the `i`-th length and the `i`-th type byte. -/
theorem tokenize_lengths_full (chars : List α) (ls : List Nat) (ts : List (Token α))
    (h : Tokens.tokenize chars (3 :: ls) = some ts) :
    ts.map (·.value.length) = fullLengths ls ∧ ts.map (·.ttype) = fullTypes ls := by
  simp only [Tokens.tokenize] at h
  split at h
  · cases h
  · obtain ⟨_, h2, h3, _⟩ := slicesFull_spec ls.length ls chars ts (Nat.le_refl _) h
    exact ⟨h2, h3⟩

/-- The malformed inputs named by the property are errors: an empty index, an unknown kind
byte, a truncated full index, and lengths that exceed the string. -/
theorem tokenize_errors (chars : List α) :
    Tokens.tokenize chars [] = none ∧
    (∀ k rest, 3 < k → Tokens.tokenize chars (k :: rest) = none) ∧
    (∀ ls, ls.length % 2 = 1 → Tokens.tokenize chars (3 :: ls) = none) ∧
    (∀ ls, chars.length < ls.sum → Tokens.tokenize chars (1 :: ls) = none ∧
                                     Tokens.tokenize chars (2 :: ls) = none) := by
  refine ⟨rfl, ?_, ?_, ?_⟩
  · intro k rest hk
    match k, hk with
    | k + 4, _ => rfl
  · intro ls h; simp [Tokens.tokenize, h]
  · intro ls h
    constructor
    · cases hs : Tokens.tokenize chars (1 :: ls) with
      | none => rfl
      | some ts => have := (slices_spec _ ls 0 chars ts hs).2.2; omega
    · cases hs : Tokens.tokenize chars (2 :: ls) with
      | none => rfl
      | some ts => have := (slices_spec _ ls 0 chars ts hs).2.2; omega

/-- A full index whose lengths exceed the string is an error too. -/
theorem tokenize_errors_full (chars : List α) (ls : List Nat) (h : chars.length < (fullLengths ls).sum) :
    Tokens.tokenize chars (3 :: ls) = none := by
  cases hs : Tokens.tokenize chars (3 :: ls) with
  | none => rfl
  | some ts =>
    simp only [Tokens.tokenize] at hs
    split at hs
    · cases hs
    · have := (slicesFull_spec ls.length ls chars ts (Nat.le_refl _) hs).2.2.2; omega

/-! ### From characters to bytes: `strings.Split(pw, "")` on any byte string -/

/-- The characters Tokenize cuts the string into concatenate to the string and are non-empty, for
every byte string — valid UTF-8 or not, the empty string included. With `tokenize_prefix` this
makes the tokens consecutive substrings of the password's bytes. (`explode` is the model of
`strings.Split(s, "")`, compared with Go on random byte strings by the `explode` operations.) -/
theorem explode_partition (bytes : List Nat) :
    (explode (bytes.length + 1) bytes).flatten = bytes ∧ ∀ c ∈ explode (bytes.length + 1) bytes, c ≠ [] :=
  ⟨explode_flatten _ _ (by omega), explode_nonempty _ _⟩

/-- **Prefix law on bytes**: whenever Tokenize succeeds on a byte string, the bytes of the token
values, concatenated, are a prefix of the password's bytes. -/
theorem tokenize_prefix_bytes (bytes : List Nat) (ti : List Nat) (ts : List (Token (List Nat)))
    (h : Tokens.tokenize (explode (bytes.length + 1) bytes) ti = some ts) :
    ∃ rest, (concat ts).flatten ++ rest = bytes := by
  obtain ⟨k, _, hk⟩ := tokenize_prefix _ ti ts h
  refine ⟨((explode (bytes.length + 1) bytes).drop k).flatten, ?_⟩
  rw [hk, ← List.flatten_append, List.take_append_drop]
  exact (explode_partition bytes).1

/-! ### Non-vacuity and the repaired defect -/

/-- The input that used to panic (`Tokenize("abc", Indices{3,3}, e)`) is now an error. -/
example : TokenizeGo.tokenize ['a', 'b', 'c'] [3, 3] = .err := by decide

/-- Without the parity check the transcribed loop does reach the `panic` outcome on that input:
the outcome is real, not decoration. -/
example : TokenizeGo.loopFull ['a', 'b', 'c'] [3, 3] 1 2 1 0 = .panic := by decide

example : Tokens.tokenize ['a', 'b', 'c'] [2, 1, 1, 1] =
    some [⟨['a'], 1⟩, ⟨['b'], 0⟩, ⟨['c'], 1⟩] := by decide

end Spg.C12
