/-
  C05 — Wordlist password structure matches the recipe (atoms, caps, separators).

  `Shaped` describes the token sequences the word/separator loop may produce from position `i`
  with `n` positions to go; `body_shaped` shows every random stream produces one
  (`Rand.All`), and the English clauses of the property are consequences of `Shaped`:
  exactly `n` atoms, each a list word or — exactly at the positions the scheme selects — its
  title-cased form (`shaped_atoms`); a separator token only directly after an atom that is not
  the last, only when non-empty, so never leading, trailing or doubled (`shaped_no_edge_sep`).
  `capChoice_spec` pins the positions each scheme can select.

  The hypothesis "no empty word" is forced by the proof: with the list [""] the code drops the
  atom (`structure_counterexample`, known finding D8).
-/
import SpgProofs.Lemmas.Rand
import Spg.Model.WordGen
namespace Spg.C05
open Spg

def atomTok (w : Word) : Token Nat := { value := w, ttype := atomType }
def sepTok (s : Word) : Token Nat := { value := s, ttype := sepType }

/-- The word at position `i`: a list word, title-cased exactly when the scheme selected `i`. -/
def wordAt (title : Word → Word) (words : List Word) (caps : Nat → Bool) (i j : Nat) : Word :=
  if caps i then title (words.getD j []) else words.getD j []

/-- Token sequences the loop can produce from position `i` with `n` positions to go. -/
inductive Shaped (title : Word → Word) (words : List Word) (caps : Nat → Bool) (L : Nat) :
    Nat → Nat → List (Token Nat) → Prop
  | done (i : Nat) : Shaped title words caps L i 0 []
  /-- the last position: an atom and nothing after it -/
  | last (i n j : Nat) (rest : List (Token Nat)) (hj : j < words.length) (hl : ¬ i + 1 < L)
      (h : Shaped title words caps L (i + 1) n rest) :
      Shaped title words caps L i (n + 1) (atomTok (wordAt title words caps i j) :: rest)
  /-- an inner position with a non-empty separator: atom, separator -/
  | sep (i n j : Nat) (s : Word) (rest : List (Token Nat)) (hj : j < words.length) (hl : i + 1 < L)
      (hs : s ≠ []) (h : Shaped title words caps L (i + 1) n rest) :
      Shaped title words caps L i (n + 1) (atomTok (wordAt title words caps i j) :: sepTok s :: rest)
  /-- an inner position with an empty separator: no separator token -/
  | nosep (i n j : Nat) (rest : List (Token Nat)) (hj : j < words.length) (hl : i + 1 < L)
      (h : Shaped title words caps L (i + 1) n rest) :
      Shaped title words caps L i (n + 1) (atomTok (wordAt title words caps i j) :: rest)

variable (cfg : Cfg) (title : Word → Word) (r : WLRecipe)

/-- **Every random stream yields a well-shaped token sequence** (given that no word of the list
is empty, nor becomes empty when title-cased). -/
theorem body_shaped (words : List Word) (caps : Nat → Bool) (L : Nat)
    (hne : ∀ w ∈ words, w ≠ [] ∧ title w ≠ []) :
    ∀ (n i : Nat), Rand.All (Shaped title words caps L i n) (WLRecipe.body cfg title r words caps L i n)
  | 0, i => by simp [WLRecipe.body, Rand.All]; exact Shaped.done i
  | n + 1, i => by
    unfold WLRecipe.body
    intro j hj
    have hw : wordAt title words caps i j ≠ [] := by
      unfold wordAt
      have hmem : words.getD j [] ∈ words := by
        rw [List.getD_eq_getElem?_getD, List.getElem?_eq_getElem hj]; exact List.getElem_mem hj
      split
      · exact (hne _ hmem).2
      · exact (hne _ hmem).1
    have hatom : (if (if caps i = true then title (words.getD j []) else words.getD j []).isEmpty = true
        then ([] : List (Token Nat))
        else [{ value := if caps i = true then title (words.getD j []) else words.getD j [], ttype := atomType }])
        = [atomTok (wordAt title words caps i j)] := by
      have : (if caps i = true then title (words.getD j []) else words.getD j []) = wordAt title words caps i j := rfl
      rw [this]
      have : (wordAt title words caps i j).isEmpty = false := by
        cases hh : wordAt title words caps i j with
        | nil => exact absurd hh hw
        | cons _ _ => rfl
      simp [this, atomTok]
    simp only [hatom]
    by_cases hl : i + 1 < L
    · simp only [hl, if_true]
      apply Rand.All_bind_true
      rintro ⟨s, _⟩
      apply Rand.All_bind _ _ (body_shaped words caps L hne n (i + 1))
      intro rest hrest
      simp only [Rand.All]
      by_cases hs : s = []
      · subst hs; simpa using Shaped.nosep i n j rest hj hl hrest
      · have : s.isEmpty = false := by cases s <;> simp_all
        simp only [this, Bool.false_eq_true, if_false, List.cons_append, List.nil_append]
        exact Shaped.sep i n j s rest hj hl hs hrest
    · simp only [hl, if_false]
      apply Rand.All_bind _ _ (body_shaped words caps L hne n (i + 1))
      intro rest hrest
      simp only [Rand.All]
      simpa using Shaped.last i n j rest hj hl hrest

/-- **Atoms.** A shaped sequence has exactly `n` atoms, in order the words at positions
`i, i+1, …`: each a word of the list, title-cased exactly where the scheme says. -/
theorem shaped_atoms (words : List Word) (caps : Nat → Bool) (L : Nat) :
    ∀ (n i : Nat) (toks : List (Token Nat)), Shaped title words caps L i n toks →
      ∃ js : List Nat, js.length = n ∧ (∀ j ∈ js, j < words.length) ∧
        Tokens.ofType atomType toks = (List.range n).zipWith (fun k j => wordAt title words caps (i + k) j) js := by
  intro n i toks h
  induction h with
  | done i => exact ⟨[], rfl, by simp, by simp [Tokens.ofType]⟩
  | last i n j rest hj hl h ih | nosep i n j rest hj hl h ih =>
    obtain ⟨js, hlen, hlt, hat⟩ := ih
    refine ⟨j :: js, by simp [hlen], ?_, ?_⟩
    · intro x hx; rcases List.mem_cons.mp hx with rfl | hx; exact hj; exact hlt x hx
    · simp only [Tokens.ofType, atomTok, List.filter_cons, beq_self_eq_true, if_true, List.map_cons] at hat ⊢
      rw [hat, List.range_succ_eq_map, List.zipWith_cons_cons, List.zipWith_map_left]
      simp only [Nat.add_zero, List.cons.injEq, true_and]
      congr 1; funext k j'; congr 1; omega
  | sep i n j s rest hj hl hs h ih =>
    obtain ⟨js, hlen, hlt, hat⟩ := ih
    refine ⟨j :: js, by simp [hlen], ?_, ?_⟩
    · intro x hx; rcases List.mem_cons.mp hx with rfl | hx; exact hj; exact hlt x hx
    · have hne : (sepType == atomType) = false := by decide
      simp only [Tokens.ofType, atomTok, sepTok, List.filter_cons, beq_self_eq_true, if_true, hne,
        Bool.false_eq_true, if_false, List.map_cons] at hat ⊢
      rw [hat, List.range_succ_eq_map, List.zipWith_cons_cons, List.zipWith_map_left]
      simp only [Nat.add_zero, List.cons.injEq, true_and]
      congr 1; funext k j'; congr 1; omega

/-- Is the token an atom / a separator? -/
def isAtom (t : Token Nat) : Prop := t.ttype = atomType
def isSep (t : Token Nat) : Prop := t.ttype = sepType

/-- **Separators.** In a shaped sequence every token is an atom or a separator; the first token
is an atom; a separator is non-empty, is directly preceded by an atom and directly followed by an
atom — so there is never a leading, trailing or doubled separator, and at most one separator
token between adjacent atoms. -/
theorem shaped_no_edge_sep (words : List Word) (caps : Nat → Bool) (L : Nat) :
    ∀ (n i : Nat) (toks : List (Token Nat)), Shaped title words caps L i n toks → i + n = L →
      (∀ t ∈ toks, isAtom t ∨ (isSep t ∧ t.value ≠ [])) ∧
      (∀ t, toks.head? = some t → isAtom t) ∧
      (∀ t, toks.getLast? = some t → isAtom t) ∧
      (∀ k (t u : Token Nat), toks[k]? = some t → toks[k + 1]? = some u → isSep t → isAtom u) := by
  intro n i toks h
  induction h with
  | done i => intro _; simp
  | last i n j rest hj hl h ih =>
    intro hL
    have hn : n = 0 := by omega
    subst hn
    cases h
    refine ⟨?_, ?_, ?_, ?_⟩ <;> simp [atomTok, isAtom]
  | nosep i n j rest hj hl h ih =>
    intro hL
    obtain ⟨h1, h2, h3, h4⟩ := ih (by omega)
    have hrest : rest ≠ [] := by
      cases h with
      | done => omega
      | last => simp
      | sep => simp
      | nosep => simp
    refine ⟨?_, ?_, ?_, ?_⟩
    · intro t ht; rcases List.mem_cons.mp ht with rfl | ht
      · exact Or.inl rfl
      · exact h1 t ht
    · intro t ht; simp at ht; subst ht; rfl
    · intro t ht
      rw [List.getLast?_cons_of_ne_nil hrest] at ht
      exact h3 t ht
    · intro k t u hk hk1 hs
      cases k with
      | zero => simp at hk; subst hk; simp [isSep, atomTok, atomType, sepType] at hs
      | succ k => exact h4 k t u (by simpa using hk) (by simpa using hk1) hs
  | sep i n j s rest hj hl hs h ih =>
    intro hL
    obtain ⟨h1, h2, h3, h4⟩ := ih (by omega)
    have hrest : rest ≠ [] := by
      cases h with
      | done => omega
      | last => simp
      | sep => simp
      | nosep => simp
    refine ⟨?_, ?_, ?_, ?_⟩
    · intro t ht
      rcases List.mem_cons.mp ht with rfl | ht
      · exact Or.inl rfl
      · rcases List.mem_cons.mp ht with rfl | ht
        · exact Or.inr ⟨rfl, hs⟩
        · exact h1 t ht
    · intro t ht; simp at ht; subst ht; rfl
    · intro t ht
      rw [List.getLast?_cons_of_ne_nil (by simp), List.getLast?_cons_of_ne_nil hrest] at ht
      exact h3 t ht
    · intro k t u hk hk1 hsp
      match k with
      | 0 => simp at hk; subst hk; simp [isSep, atomTok, atomType, sepType] at hsp
      | 1 =>
        simp at hk1
        cases rest with
        | nil => exact absurd rfl hrest
        | cons a rest' =>
          simp at hk1; subst hk1
          exact h2 a (by simp)
      | k + 2 => exact h4 k t u (by simpa using hk) (by simpa using hk1) hsp

/-- **Capitalisation schemes**: which positions can be selected, on every random stream.
none / unknown scheme: no position; first: exactly position 0; all: every position below `L`;
one: exactly one position below `L`; random: any subset. -/
theorem capChoice_spec (L : Nat) :
    Rand.All (fun caps =>
      (r.capitalize = "first" → ∀ i, caps i = true ↔ i = 0) ∧
      (r.capitalize = "all" → ∀ i, caps i = true ↔ i < L) ∧
      (r.capitalize = "one" → ∃ w, w < L ∧ ∀ i, caps i = true ↔ i = w) ∧
      (r.capitalize ≠ "first" → r.capitalize ≠ "all" → r.capitalize ≠ "one" → r.capitalize ≠ "random" →
        ∀ i, caps i = false))
      (WLRecipe.capChoice r L) := by
  unfold WLRecipe.capChoice
  by_cases h1 : r.capitalize = "first"
  · simp [h1, Rand.All]
  by_cases h2 : r.capitalize = "one"
  · simp only [h1, h2, if_false, if_true]
    intro w hw
    simp only [Rand.All]
    refine ⟨by simp, by simp, ?_, by simp⟩
    intro _; exact ⟨w, hw, by simp⟩
  by_cases h3 : r.capitalize = "random"
  · simp only [h1, h2, h3, if_false, if_true]
    apply Rand.All_bind_true
    intro bits
    simp [Rand.All, h3]
  by_cases h4 : r.capitalize = "all"
  · simp [h4, Rand.All]
  · simp [h1, h2, h3, h4, Rand.All]

/-- What a capitalisation function may look like under each scheme (the conclusion of
`capChoice_spec`, named). -/
def SchemeOK (scheme : String) (L : Nat) (caps : Nat → Bool) : Prop :=
  (scheme = "first" → ∀ i, caps i = true ↔ i = 0) ∧
  (scheme = "all" → ∀ i, caps i = true ↔ i < L) ∧
  (scheme = "one" → ∃ w, w < L ∧ ∀ i, caps i = true ↔ i = w) ∧
  (scheme ≠ "first" → scheme ≠ "all" → scheme ≠ "one" → scheme ≠ "random" → ∀ i, caps i = false)

/-- **C05 for the whole generator, on every random stream.** Whatever `Generate` returns is a
well-shaped token sequence for some capitalisation function the scheme allows: exactly `Length`
atoms, each a word of the list or — exactly at the selected positions — its title-cased form;
one separator token between neighbours exactly when that separator is non-empty; never a
leading, trailing or doubled separator (`shaped_atoms`, `shaped_no_edge_sep`). -/
theorem generate_structure (wl : WordList) (hl : r.list = some wl)
    (hne : ∀ w ∈ wl.words, w ≠ [] ∧ title w ≠ []) :
    Rand.All (fun res => ∀ p, res = Res.ok p →
        ∃ caps, SchemeOK r.capitalize r.length.toNat caps ∧
          Shaped title wl.words caps r.length.toNat 0 r.length.toNat p.tokens)
      (WLRecipe.generate cfg title r) := by
  unfold WLRecipe.generate
  simp only [hl]
  split
  · simp [Rand.All]
  · split
    · simp [Rand.All]
    · apply Rand.All_bind _ _ (capChoice_spec r r.length.toNat)
      intro caps hcaps
      apply Rand.All_bind _ _ (body_shaped cfg title r wl.words caps r.length.toNat hne r.length.toNat 0)
      intro toks hshape
      apply Rand.All_bind_true
      intro d
      simp only [Rand.All]
      intro p hp
      injection hp with hp
      subst hp
      exact ⟨caps, hcaps, hshape⟩

/-- The same for a concrete run on a concrete tape of raw words. -/
theorem generate_structure_run (wl : WordList) (hl : r.list = some wl)
    (hne : ∀ w ∈ wl.words, w ≠ [] ∧ title w ≠ []) (tape rest : List Nat) (p : Password)
    (h : (WLRecipe.generate cfg title r).run tape = .done (.ok p) rest) :
    ∃ caps, SchemeOK r.capitalize r.length.toNat caps ∧
      Shaped title wl.words caps r.length.toNat 0 r.length.toNat p.tokens :=
  Rand.run_All _ tape _ rest (generate_structure cfg title r wl hl hne) h p rfl

/-- **Every generated atom is a word of the list or its title-cased form** (C10's last clause). -/
theorem atoms_from_list (words : List Word) (caps : Nat → Bool) (L n i : Nat) (toks : List (Token Nat))
    (h : Shaped title words caps L i n toks) :
    ∀ a ∈ Tokens.ofType atomType toks, ∃ w ∈ words, a = w ∨ a = title w := by
  obtain ⟨js, hlen, hlt, hat⟩ := shaped_atoms title words caps L n i toks h
  intro a ha
  rw [hat] at ha
  obtain ⟨k, hk, rfl⟩ := List.getElem_of_mem ha
  simp only [List.length_zipWith, List.length_range, hlen, Nat.min_self] at hk
  simp only [List.getElem_zipWith, List.getElem_range]
  have hj : js[k] < words.length := hlt _ (List.getElem_mem _)
  refine ⟨words[js[k]], List.getElem_mem hj, ?_⟩
  unfold wordAt
  rw [List.getD_eq_getElem?_getD, List.getElem?_eq_getElem hj]
  split
  · right; rfl
  · left; rfl

/-- `String()` is the concatenation of the token values in order; `Atoms()` and `Separators()`
are the values of the respective type, in order (these are the definitions the model shares
with the code; stated for reference). -/
theorem string_concat (ts : List (Token Nat)) : Tokens.concat ts = (ts.map (·.value)).flatten := by
  simp [Tokens.concat, List.flatMap_def]

theorem atoms_separators_filter (ts : List (Token Nat)) (ty : Nat) :
    Tokens.ofType ty ts = (ts.filter fun t => t.ttype == ty).map (·.value) := rfl

/-! ### Known finding D8: the hypothesis on empty words cannot be dropped -/

/-- With the list [""] (which `NewWordList` accepts) a three-word password has no atoms at all. -/
theorem structure_counterexample :
    let cfg : Cfg := { tbl := [], maxTrials := 200, frNum := 1, frDen := 1000000000 }
    let r : WLRecipe := { list := some { words := [[]], unCap := 1 }, length := 3,
                          sepChar := [], capitalize := "none" }
    (match (WLRecipe.generate cfg id r).run [0, 0, 0] with
      | .done (.ok p) _ => some p.tokens | _ => none) = some [] := by
  decide

/-! ### Non-vacuity -/

example :
    let cfg : Cfg := { tbl := [], maxTrials := 200, frNum := 1, frDen := 1000000000 }
    let title : Word → Word := fun w => match w with | c :: cs => (c - 32) :: cs | [] => []
    let r : WLRecipe := { list := some { words := [[97], [98, 99]], unCap := 0 }, length := 3,
                          sepChar := [45], capitalize := "first" }
    (match (WLRecipe.generate cfg title r).run [1, 0, 1] with
      | .done (.ok p) _ => p.tokens | _ => []) =
      [atomTok [66, 99], sepTok [45], atomTok [97], sepTok [45], atomTok [98, 99]] := by
  decide

end Spg.C05
