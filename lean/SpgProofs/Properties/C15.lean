/-
  C15 — Calls are pure: results reflect the recipe's current fields, not call history.

  The mechanism in the code: `CharRecipe` has two private, derived fields (`allowedSet`,
  `requiredSets`) that `buildCharacterList` — a pointer-receiver method — overwrites from the
  public fields; every exported method has a value receiver and calls it on its own copy.
  `History` models exactly that, with the private fields as part of the state and holding
  arbitrary junk: a call through a VALUE receiver leaves the state as it was
  (`call_preserves_state`), its output is a function of the public fields and the tape only
  (`out_depends_on_public`), and therefore after any two histories that end with the same public
  field values — whatever calls and updates came before, on this or any other recipe — the next
  call returns the same result (`history_indep`); a field update is honoured by the very next
  call (`update_honoured`). That the receivers ARE value receivers is a regenerated fact
  (`receivers_value`). With a pointer receiver the state theorem fails
  (`pointer_receiver_counterexample`): the hypothesis is what carries the property.
-/
import Spg.Generated.Facts
import SpgProofs.Lemmas.FactPreds
import Spg.Model.CharGen
import SpgProofs.Lemmas.Rand
namespace Spg.C15
open Spg Spg.Generated

/-- A `CharRecipe` value in memory: public fields, and the two private derived fields. -/
structure RState where
  pub          : CharRecipe
  allowedSet   : List Nat
  requiredSets : List (List Nat)
  deriving DecidableEq

/-- `buildCharacterList` through a pointer: both derived fields are overwritten from the public ones. -/
def build (tbl : ClassTable) (s : RState) : RState :=
  { s with allowedSet := s.pub.allowedSet tbl, requiredSets := s.pub.requiredSets tbl }

inductive Recv where
  | value | pointer
  deriving DecidableEq

/-- The API calls. -/
inductive Call where
  | alphabet | entropy | successProb | generate (tape : List Nat)
  deriving DecidableEq

/-- What a call returns (exact quantities, as everywhere in the model). -/
inductive Out where
  | chars (l : List Nat)
  | int (d : Int)
  | frac (c m : Int)
  | gen (res : Option (Option (List Nat)))   -- none: no result (source failed); some none: error
  deriving DecidableEq

/-- The body of a method, run on the struct `s'` it has access to (after `build`): everything
it reads is a derived field of `s'` or a public field. -/
def body (cfg : Cfg) (s' : RState) : Call → Out
  | .alphabet => .chars (norm (s'.allowedSet ++ norm s'.requiredSets.flatten))
  | .entropy => .int (s'.pub.entropyD cfg)
  | .successProb => .frac (s'.pub.entropyD cfg) (s'.pub.total cfg)
  | .generate tape =>
    .gen (match (s'.pub.genChars cfg).run tape with
      | .done (.ok cs) _ => some (some cs)
      | .done (.err _) _ => some none
      | _ => none)

/-- One call on a recipe in memory: the method body runs on a copy (value receiver) or on the
object itself (pointer receiver); `build` is the first thing every method does. -/
def call (recv : Recv) (cfg : Cfg) (s : RState) (c : Call) : RState × Out :=
  let s' := build cfg.tbl s
  (match recv with | .value => s | .pointer => s', body cfg s' c)

/-- **A call never modifies the recipe** (value receiver). -/
theorem call_preserves_state (cfg : Cfg) (s : RState) (c : Call) : (call .value cfg s c).1 = s := rfl

/-- **The result depends only on the public fields** (and the tape inside the call): whatever the
private fields hold. -/
theorem out_depends_on_public (cfg : Cfg) (s₁ s₂ : RState) (c : Call) (h : s₁.pub = s₂.pub) :
    (call .value cfg s₁ c).2 = (call .value cfg s₂ c).2 := by
  cases c <;> simp [call, body, build, h]

/-- An operation of a history on a pool of recipes: a call on recipe `i`, or the caller
assigning new public fields to recipe `i`. -/
inductive Op where
  | call (i : Nat) (c : Call)
  | update (i : Nat) (pub : CharRecipe)

/-- The pool after an operation. -/
def step (cfg : Cfg) (pool : Nat → RState) : Op → (Nat → RState)
  | .call i c => fun j => if j = i then (call .value cfg (pool i) c).1 else pool j
  | .update i pub => fun j => if j = i then { pool i with pub := pub } else pool j

def run (cfg : Cfg) (pool : Nat → RState) (ops : List Op) : Nat → RState := ops.foldl (step cfg) pool

/-- Calls change nothing, anywhere in the pool. -/
theorem step_call_id (cfg : Cfg) (pool : Nat → RState) (i : Nat) (c : Call) : step cfg pool (.call i c) = pool := by
  funext j; simp only [step]; split
  · rename_i h; subst h; rfl
  · rfl

/-- The public fields of recipe `i` after a history are the last values the caller assigned
(or the initial ones): calls, on this or any other recipe, do not matter. -/
def lastUpdate (i : Nat) (init : CharRecipe) : List Op → CharRecipe
  | [] => init
  | .call _ _ :: rest => lastUpdate i init rest
  | .update j pub :: rest => if j = i then lastUpdate i pub rest else lastUpdate i init rest

theorem run_pub (cfg : Cfg) (i : Nat) : ∀ (ops : List Op) (pool : Nat → RState),
    ((run cfg pool ops) i).pub = lastUpdate i (pool i).pub ops := by
  intro ops
  induction ops with
  | nil => intro pool; rfl
  | cons op rest ih =>
    intro pool
    simp only [run, List.foldl_cons] at ih ⊢
    rw [ih]
    cases op with
    | call j c => rw [step_call_id]; rfl
    | update j pub =>
      simp only [step, lastUpdate]
      by_cases h : j = i
      · subst h; simp
      · have : ¬ i = j := fun e => h e.symm
        simp [h, this]

/-- **History independence**: two histories (any calls and updates, on any recipes, from any two
initial pools with any junk in the private fields) after which recipe `i` has the same public
field values — the next call on it returns the same result. -/
theorem history_indep (cfg : Cfg) (i : Nat) (pool₁ pool₂ : Nat → RState) (h₁ h₂ : List Op) (c : Call)
    (hsame : lastUpdate i (pool₁ i).pub h₁ = lastUpdate i (pool₂ i).pub h₂) :
    (call .value cfg ((run cfg pool₁ h₁) i) c).2 = (call .value cfg ((run cfg pool₂ h₂) i) c).2 := by
  apply out_depends_on_public
  rw [run_pub, run_pub, hsame]

theorem lastUpdate_append_update (i : Nat) (pub : CharRecipe) : ∀ (hist : List Op) (init : CharRecipe),
    lastUpdate i init (hist ++ [.update i pub]) = pub
  | [], _ => by simp [lastUpdate]
  | .call _ _ :: rest, init => by simpa [lastUpdate] using lastUpdate_append_update i pub rest init
  | .update j p' :: rest, init => by
    simp only [List.cons_append, lastUpdate]
    split
    · exact lastUpdate_append_update i pub rest p'
    · exact lastUpdate_append_update i pub rest init

/-- **A field update is honoured by the next call**: after `update i pub`, a call on `i` returns
what a fresh recipe with those fields returns. -/
theorem update_honoured (cfg : Cfg) (i : Nat) (pool : Nat → RState) (hist : List Op) (pub : CharRecipe) (c : Call) :
    (call .value cfg ((run cfg pool (hist ++ [.update i pub])) i) c).2 =
      (call .value cfg { pub := pub, allowedSet := [], requiredSets := [] } c).2 := by
  apply out_depends_on_public
  rw [run_pub, lastUpdate_append_update]

/-- The model's alphabet is what the method body computes from the rebuilt derived fields: the
history model and the stateless model used everywhere else agree. -/
theorem body_alphabet (cfg : Cfg) (s : RState) :
    (call .value cfg s .alphabet).2 = .chars (s.pub.alphabet cfg.tbl) := by
  rfl

/-! ### Regenerated fact: the receivers are value receivers -/

theorem receivers_value :
    ([("CharRecipe", "Generate"), ("CharRecipe", "Entropy"), ("CharRecipe", "Alphabet"),
      ("CharRecipe", "SuccessProbability"), ("WLRecipe", "Generate"), ("WLRecipe", "Entropy"),
      ("WLRecipe", "Size"), ("WordList", "Size")].all
      fun m => Facts.receivers.contains (m.1, m.2, "value")) = true := by decide

/-- **All package-level state of the library** is plain data (the shipped lists, the class tables,
the caller-owned retry budget) that nothing assigns after initialisation, or one of the seven
separator presets. A cache, a memo table, a `sync.Map`, a once-flag, a pointer to a shared default
is hidden state that could carry one call's effect into the next, and falsifies this. -/
theorem package_state : FactPreds.packageStateOK = true := by decide

/-- **Every assignment of the library that could outlive the statement it is in is local**
(`FactPreds.localWrite`): through a pointer to an object created in the same call, to a field of a
pointer receiver that is a private copy (`pointer_calls`), or into the slice
`buildCharacterList` has just built. A separator function that remembers something between calls
(a captured variable), the package's budget variables changed by a call, a constructor that keeps
and later edits the caller's slice, a method that writes through a shared pointer — each is an
assignment of another kind. -/
theorem writes_are_local : FactPreds.writesAreLocal = true := by decide

/-- No assignment to a package-level variable, to a variable captured by a closure (a separator
function with memory), or through a parameter (the caller's slices). -/
theorem no_global_or_captured_writes :
    (Facts.sharedWrites.filter fun w => !FactPreds.localWrite w) = [] := by
  decide

/-- A method that writes its pointer receiver is only called on the caller's private copy. -/
theorem pointer_calls : FactPreds.writersOnPrivateCopies = true := by decide

/-- With a pointer receiver a call would leave its derived fields behind in the caller's recipe. -/
theorem pointer_receiver_counterexample :
    let cfg : Cfg := { tbl := [], maxTrials := 1, frNum := 1, frDen := 1 }
    let s : RState := { pub := { (default : CharRecipe) with allowChars := [97] }, allowedSet := [], requiredSets := [] }
    (call .pointer cfg s .alphabet).1 ≠ s := by decide

/-- **No environment inputs**: the library calls into no package that could supply anything that
varies between runs or machines — clock, environment variables, processor count, scheduler,
`math/rand` — other than `crypto/rand.Read`. (Seeded change C07j made `Entropy()` depend on
`runtime.GOMAXPROCS`.) -/
theorem no_environment_inputs :
    (Spg.Generated.Facts.sensitiveCalls.all fun c => c.2.2.1 == "crypto/rand.Read") = true := by decide

end Spg.C15
