/-
  C15 — Calls are pure: results reflect the recipe's current fields, not call history.

  The mechanism in the code: `CharRecipe` has two private, derived fields (`allowedSet`,
  `requiredSets`) that `buildCharacterList` — a pointer-receiver method — overwrites from the
  public fields; every exported method has a value receiver and calls it on its own copy.
  `History` models exactly that, with the private fields as part of the state and holding
  arbitrary junk: a call through a VALUE receiver leaves the state as it was
  (`call_preserves_state`), its output is a function of the public fields and the tape only
  (`out_depends_on_public`), and therefore after any two histories that end with the same public
  field values — whatever calls and updates came before, on this or any other recipe — the next
  call returns the same result (`history_indep`); a field update is honoured by the very next
  call (`update_honoured`). That the receivers ARE value receivers is a regenerated fact
  (`receivers_value`). With a pointer receiver the state theorem fails
  (`pointer_receiver_counterexample`): the hypothesis is what carries the property.
-/
import Spg.Generated.Facts
import Spg.Model.CharGen
import SpgProofs.Lemmas.Rand
namespace Spg.C15
open Spg Spg.Generated

/-- A `CharRecipe` value in memory: public fields, and the two private derived fields. -/
structure RState where
  pub          : CharRecipe
  allowedSet   : List Nat
  requiredSets : List (List Nat)
  deriving DecidableEq

/-- `buildCharacterList` through a pointer: both derived fields are overwritten from the public ones. -/
def build (tbl : ClassTable) (s : RState) : RState :=
  { s with allowedSet := s.pub.allowedSet tbl, requiredSets := s.pub.requiredSets tbl }

inductive Recv where
  | value | pointer
  deriving DecidableEq

/-- The API calls. -/
inductive Call where
  | alphabet | entropy | successProb | generate (tape : List Nat)
  deriving DecidableEq

/-- What a call returns (exact quantities, as everywhere in the model). -/
inductive Out where
  | chars (l : List Nat)
  | int (d : Int)
  | frac (c m : Int)
  | gen (res : Option (Option (List Nat)))   -- none: no result (source failed); some none: error
  deriving DecidableEq

/-- The body of a method, run on the struct `s'` it has access to (after `build`): everything
it reads is a derived field of `s'` or a public field. -/
def body (cfg : Cfg) (s' : RState) : Call → Out
  | .alphabet => .chars (norm (s'.allowedSet ++ norm s'.requiredSets.flatten))
  | .entropy => .int (s'.pub.entropyD cfg)
  | .successProb => .frac (s'.pub.entropyD cfg) (s'.pub.total cfg)
  | .generate tape =>
    .gen (match (s'.pub.genChars cfg).run tape with
      | .done (.ok cs) _ => some (some cs)
      | .done (.err _) _ => some none
      | _ => none)

/-- One call on a recipe in memory: the method body runs on a copy (value receiver) or on the
object itself (pointer receiver); `build` is the first thing every method does. -/
def call (recv : Recv) (cfg : Cfg) (s : RState) (c : Call) : RState × Out :=
  let s' := build cfg.tbl s
  (match recv with | .value => s | .pointer => s', body cfg s' c)

/-- **A call never modifies the recipe** (value receiver). -/
theorem call_preserves_state (cfg : Cfg) (s : RState) (c : Call) : (call .value cfg s c).1 = s := rfl

/-- **The result depends only on the public fields** (and the tape inside the call): whatever the
private fields hold. -/
theorem out_depends_on_public (cfg : Cfg) (s₁ s₂ : RState) (c : Call) (h : s₁.pub = s₂.pub) :
    (call .value cfg s₁ c).2 = (call .value cfg s₂ c).2 := by
  cases c <;> simp [call, body, build, h]

/-- An operation of a history on a pool of recipes: a call on recipe `i`, or the caller
assigning new public fields to recipe `i`. -/
inductive Op where
  | call (i : Nat) (c : Call)
  | update (i : Nat) (pub : CharRecipe)

/-- The pool after an operation. -/
def step (cfg : Cfg) (pool : Nat → RState) : Op → (Nat → RState)
  | .call i c => fun j => if j = i then (call .value cfg (pool i) c).1 else pool j
  | .update i pub => fun j => if j = i then { pool i with pub := pub } else pool j

def run (cfg : Cfg) (pool : Nat → RState) (ops : List Op) : Nat → RState := ops.foldl (step cfg) pool

/-- Calls change nothing, anywhere in the pool. -/
theorem step_call_id (cfg : Cfg) (pool : Nat → RState) (i : Nat) (c : Call) : step cfg pool (.call i c) = pool := by
  funext j; simp only [step]; split
  · rename_i h; subst h; rfl
  · rfl

/-- The public fields of recipe `i` after a history are the last values the caller assigned
(or the initial ones): calls, on this or any other recipe, do not matter. -/
def lastUpdate (i : Nat) (init : CharRecipe) : List Op → CharRecipe
  | [] => init
  | .call _ _ :: rest => lastUpdate i init rest
  | .update j pub :: rest => if j = i then lastUpdate i pub rest else lastUpdate i init rest

theorem run_pub (cfg : Cfg) (i : Nat) : ∀ (ops : List Op) (pool : Nat → RState),
    ((run cfg pool ops) i).pub = lastUpdate i (pool i).pub ops := by
  intro ops
  induction ops with
  | nil => intro pool; rfl
  | cons op rest ih =>
    intro pool
    simp only [run, List.foldl_cons] at ih ⊢
    rw [ih]
    cases op with
    | call j c => rw [step_call_id]; rfl
    | update j pub =>
      simp only [step, lastUpdate]
      by_cases h : j = i
      · subst h; simp
      · have : ¬ i = j := fun e => h e.symm
        simp [h, this]

/-- **History independence**: two histories (any calls and updates, on any recipes, from any two
initial pools with any junk in the private fields) after which recipe `i` has the same public
field values — the next call on it returns the same result. -/
theorem history_indep (cfg : Cfg) (i : Nat) (pool₁ pool₂ : Nat → RState) (h₁ h₂ : List Op) (c : Call)
    (hsame : lastUpdate i (pool₁ i).pub h₁ = lastUpdate i (pool₂ i).pub h₂) :
    (call .value cfg ((run cfg pool₁ h₁) i) c).2 = (call .value cfg ((run cfg pool₂ h₂) i) c).2 := by
  apply out_depends_on_public
  rw [run_pub, run_pub, hsame]

theorem lastUpdate_append_update (i : Nat) (pub : CharRecipe) : ∀ (hist : List Op) (init : CharRecipe),
    lastUpdate i init (hist ++ [.update i pub]) = pub
  | [], _ => by simp [lastUpdate]
  | .call _ _ :: rest, init => by simpa [lastUpdate] using lastUpdate_append_update i pub rest init
  | .update j p' :: rest, init => by
    simp only [List.cons_append, lastUpdate]
    split
    · exact lastUpdate_append_update i pub rest p'
    · exact lastUpdate_append_update i pub rest init

/-- **A field update is honoured by the next call**: after `update i pub`, a call on `i` returns
what a fresh recipe with those fields returns. -/
theorem update_honoured (cfg : Cfg) (i : Nat) (pool : Nat → RState) (hist : List Op) (pub : CharRecipe) (c : Call) :
    (call .value cfg ((run cfg pool (hist ++ [.update i pub])) i) c).2 =
      (call .value cfg { pub := pub, allowedSet := [], requiredSets := [] } c).2 := by
  apply out_depends_on_public
  rw [run_pub, lastUpdate_append_update]

/-- The model's alphabet is what the method body computes from the rebuilt derived fields: the
history model and the stateless model used everywhere else agree. -/
theorem body_alphabet (cfg : Cfg) (s : RState) :
    (call .value cfg s .alphabet).2 = .chars (s.pub.alphabet cfg.tbl) := by
  rfl

/-! ### Regenerated fact: the receivers are value receivers -/

theorem receivers_value :
    ([("CharRecipe", "Generate"), ("CharRecipe", "Entropy"), ("CharRecipe", "Alphabet"),
      ("CharRecipe", "SuccessProbability"), ("WLRecipe", "Generate"), ("WLRecipe", "Entropy"),
      ("WLRecipe", "Size"), ("WordList", "Size")].all
      fun m => Facts.receivers.contains (m.1, m.2, "value")) = true := by decide

/-- **All package-level state of the library**: the two shipped lists, the two exported budget
variables (caller-owned configuration), the seven separator presets (closures over constant
recipes) and the two read-only class tables. None is written after initialisation
(`no_global_or_captured_writes`). A new package-level variable — a cache, a memo table, a
`sync.Map`, a once-flag — is hidden state that could outlive a call or be shared between
goroutines; it changes this regenerated list and breaks the obligation. -/
theorem package_state :
    Facts.packageVars =
      [("AgileSyllables", "[]string"), ("AgileWords", "[]string"), ("MaxFailRate", "float64"),
       ("MaxTrials", "int"), ("SFDigits1", "spg.SFFunction"), ("SFDigits2", "spg.SFFunction"),
       ("SFDigitsNoAmbiguous1", "spg.SFFunction"), ("SFDigitsNoAmbiguous2", "spg.SFFunction"),
       ("SFDigitsSymbols", "spg.SFFunction"), ("SFNone", "spg.SFFunction"), ("SFSymbols", "spg.SFFunction"),
       ("charTypeByFlag", "map[spg.CTFlag]string"), ("charTypeNamesByFlag", "map[spg.CTFlag]string")] := by
  decide

/-- **Every assignment of the library that could outlive the statement it is in** (through a
pointer, to a receiver field, to a package-level variable, to a variable captured by a function
literal, or to an element of a parameter), regenerated from the source. Each one writes to an
object created in the same call (`p`, the `Password` being built; `r` in `NewCharRecipe`; `req`)
or to the private copy of a value receiver (`buildCharacterList` is only called on such a copy,
`pointer_calls`). A separator function that remembers something between calls, a recipe method
that writes through a shared pointer, a constructor that keeps and later edits the caller's
slice — each adds an entry here. -/
theorem writes_are_local :
    Facts.sharedWrites =
      [("CharRecipe.Generate", "p.Entropy", "ptrfield"), ("CharRecipe.Generate", "p.tokens", "ptrfield"),
       ("(*CharRecipe).buildCharacterList", "r.requiredSets", "recvfield"),
       ("(*CharRecipe).buildCharacterList", "r.requiredSets", "recvfield"),
       ("(*CharRecipe).buildCharacterList", "r.requiredSets", "recvfield"),
       ("(*CharRecipe).buildCharacterList", "r.allowedSet", "recvfield"),
       ("(*CharRecipe).buildCharacterList", "req.s", "ptrfield"),
       ("(*CharRecipe).buildCharacterList", "r.allowedSet", "recvfield"),
       ("NewCharRecipe", "r.Length", "ptrfield"), ("NewCharRecipe", "r.Allow", "ptrfield"),
       ("NewCharRecipe", "r.Exclude", "ptrfield"),
       ("WLRecipe.Generate", "p.tokens", "ptrfield"), ("WLRecipe.Generate", "p.Entropy", "ptrfield")] := by
  decide

/-- No assignment to a package-level variable, to a variable captured by a closure (a separator
function with memory), or through a parameter (the caller's slices). -/
theorem no_global_or_captured_writes :
    (Facts.sharedWrites.filter fun w => w.2.2 == "pkgvar" || w.2.2 == "captured" || w.2.2 == "paramelem") = [] := by
  decide

/-- The one writing pointer method is only called on the caller's private copy. -/
theorem pointer_calls :
    Facts.pointerMethodCalls =
      [("CharRecipe.Generate", "value", "buildCharacterList", "r"),
       ("CharRecipe.Entropy", "value", "buildCharacterList", "r"),
       ("CharRecipe.Alphabet", "value", "buildCharacterList", "r"),
       ("WLRecipe.Entropy", "value", "isAllCapitalizable", "r.list")] := by decide

/-- With a pointer receiver a call would leave its derived fields behind in the caller's recipe. -/
theorem pointer_receiver_counterexample :
    let cfg : Cfg := { tbl := [], maxTrials := 1, frNum := 1, frDen := 1 }
    let s : RState := { pub := { (default : CharRecipe) with allowChars := [97] }, allowedSet := [], requiredSets := [] }
    (call .pointer cfg s .alphabet).1 ≠ s := by decide

end Spg.C15
