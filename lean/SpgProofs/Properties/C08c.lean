/-
  C08c — the product form of the wordlist count is the code's sum of logarithms.

  The model (and C06/C08) carry the wordlist entropy as the integer
  `D = size^L · capFactor · d^(L-1)`; `WLRecipe.Entropy()` in word_gen.go computes
  `L·log2(size) + capBits + (L−1)·sepEnt` with `capBits = L` (random), `log2 L` (one) or 0.
  Here: the exact real number `log2 D` IS that sum (`log_count_eq_sum`, `capBits_spec`), so the
  harness's comparison of the reported float with `log2 D` compares it with the formula the
  source states, term by term. float32/float64 rounding is not modelled.
-/
import SpgProofs.Properties.C06d
import SpgProofs.Properties.C08

namespace Spg.C08c
open Spg

/-- `log2` of the product-form count is the sum of the three contributions. -/
theorem log_count_eq_sum (size L : Nat) (cf d : Int) (hsize : 0 < size) (hcf : 0 < cf)
    (hd : 0 < d) :
    Real.logb 2 ((((size : Int) ^ L * cf * d ^ (L - 1) : Int)) : ℝ) =
      (L : ℝ) * Real.logb 2 (size : ℝ) + Real.logb 2 (cf : ℝ)
        + ((L - 1 : Nat) : ℝ) * Real.logb 2 (d : ℝ) := by
  have hs : (0 : ℝ) < (size : ℝ) := by exact_mod_cast hsize
  have hc : (0 : ℝ) < (cf : ℝ) := by exact_mod_cast hcf
  have hd' : (0 : ℝ) < (d : ℝ) := by exact_mod_cast hd
  push_cast
  rw [Real.logb_mul (by positivity) (by positivity), Real.logb_mul (by positivity) (by positivity),
    Real.logb_pow, Real.logb_pow]

/-- The capitalisation contribution in bits, as word_gen.go adds it. -/
noncomputable def capBits (r : WLRecipe) (L : Nat) : ℝ :=
  if WLRecipe.allCap r = true ∧ r.capitalize = "random" then (L : ℝ)
  else if WLRecipe.allCap r = true ∧ r.capitalize = "one" then Real.logb 2 (L : ℝ)
  else 0

theorem capBits_spec (r : WLRecipe) (L : Nat) :
    Real.logb 2 ((WLRecipe.capFactor r L : Int) : ℝ) = capBits r L := by
  rw [C08.capFactor_spec]
  unfold capBits
  split
  · push_cast
    rw [Real.logb_pow, Real.logb_self_eq_one (by norm_num), mul_one]
  · split
    · push_cast; rfl
    · simp

theorem capFactor_pos (r : WLRecipe) (L : Nat) (hL : 1 ≤ L) : 0 < WLRecipe.capFactor r L := by
  rw [C08.capFactor_spec]
  split
  · positivity
  · split
    · exact_mod_cast hL
    · norm_num

/-- **The entropy formula of word_gen.go**, exactly: for a non-empty list, `L ≥ 1` and a
separator count `d ≥ 1` (1 for constants), `log2 D = L·log2 size + capBits + (L−1)·log2 d`. -/
theorem wl_bits_formula (r : WLRecipe) (d : Int) (hsize : 0 < WLRecipe.size r)
    (hL : 1 ≤ r.length.toNat) (hd : 0 < d) :
    Real.logb 2 (((((WLRecipe.size r : Nat) : Int) ^ r.length.toNat *
        WLRecipe.capFactor r r.length.toNat * d ^ (r.length.toNat - 1) : Int)) : ℝ) =
      (r.length.toNat : ℝ) * Real.logb 2 ((WLRecipe.size r : Nat) : ℝ) + capBits r r.length.toNat
        + ((r.length.toNat - 1 : Nat) : ℝ) * Real.logb 2 (d : ℝ) := by
  rw [log_count_eq_sum _ _ _ _ hsize (capFactor_pos r _ hL) hd, capBits_spec]

/-- Non-vacuity: 4 words, length 3, factor 8, separator count 10. -/
example : Real.logb 2 ((((4 : Nat) : Int) ^ 3 * 8 * 10 ^ (3 - 1) : Int) : ℝ) =
    ((3 : Nat) : ℝ) * Real.logb 2 ((4 : Nat) : ℝ) + Real.logb 2 ((8 : Int) : ℝ)
      + ((3 - 1 : Nat) : ℝ) * Real.logb 2 ((10 : Int) : ℝ) :=
  log_count_eq_sum 4 3 8 10 (by norm_num) (by norm_num) (by norm_num)

end Spg.C08c
