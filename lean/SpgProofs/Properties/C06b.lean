/-
  C06b — No wordlist password is likelier than 2^-Entropy when the separator comes from a
  requirement-free separator RECIPE (`NewSFFunction(r)`: the presets `SFDigits1`, `SFDigits2`,
  `SFDigitsNoAmbiguous1/2`, `SFSymbols`, `SFDigitsSymbols`). Complements C06, which proves the
  bound for CONSTANT separators and shows (finding D9) that it fails for separator recipes WITH
  requirements.

  As in C06 the entropy a recipe reports is represented by the integer `D` with
  `Entropy = log2 D`, so "probability ≤ 2^-Entropy" reads "probability ≤ 1/D"; probabilities are
  exact rationals in the expectation semantics `Rand.E` (every bounded draw uniform, draws
  independent — C01).

  Setting. `r : WLRecipe` with `r.list = some wl`, `wl.words ≠ []`, `1 ≤ r.length`,
  `r.sep = .recipe cr`; `L = r.length.toNat`, `size = wl.words.length`. The premises on the
  separator recipe `cr` are bundled in `SepOK cfg cr` (`SpgProofs/Lemmas/ProbWLSep.lean`):
  `1 ≤ cr.length`, `cr.alphabet cfg.tbl ≠ []`, `cr.acceptable cfg = true`, `0 < cfg.maxTrials`,
  and NO EFFECTIVE REQUIREMENT, stated as `∀ cand, cr.passes cfg.tbl cand = true`. (Nothing is
  assumed about `requiredUnion`: that `Dsep := cr.entropyD cfg` equals `N^Lsep`, the number of
  strings of length `cr.length` over the alphabet, follows from C07.entropyD_eq_card —
  `SepOK.entropyD_eq`.) The premises on the list are C06's `ListOK title wl.words` (no duplicates,
  no word empty or emptied by `title`, `title` injective on the list). The `_explicit` variants at
  the end restate the main theorems with the five premises on `cr` spelled out.

  What is proved, in plain words.
  * `SepOK.sepCall_eq`, `sepProb_recipe`: with nothing to reject, one call of the separator
    function IS its first candidate; every string of length `cr.length ≥ 1` over the separator
    alphabet is returned with probability exactly `1/Dsep`, every other string with probability 0.
    In particular every separator is non-empty (`SepOK.ne_nil_of_mem`), and generation never
    fails, so no "empty separator with 0 bits" (the mechanism of D9) can occur.
  * `wl_entropy_recipe_sep`, `wl_entropy_field_recipe_sep`: on every random stream `Entropy()`
    is `D = size^L · capFactor · Dsep^(L-1)` and every returned Password carries that `D` (C08).
  * `assemble_good_injective`: the password determines all the random choices — for a fixed
    capitalisation, two sequences of (word index, separator) choices of the shape the loop
    produces (`Good`: index in range; a possible separator at each of the `L-1` gaps, none after
    the last word) that write the same tokens are equal: atoms and separators carry different
    token types, every position yields exactly one atom and every gap exactly one separator token.
    If moreover no title-cased word equals a list word, the tokens also determine which positions
    were capitalised.
  * `weight_good`, `choices_assemble_exact`, `choices_assemble_le`: given the capitalisation, each
    producible token sequence has probability exactly `(1/size)^L · (1/Dsep)^(L-1)` (C04's product
    law `choices_prob` + `sepProb_recipe`), every other one probability 0.
  * `wl_maxprob_recipe_sep_nocapbonus`: for every capitalisation scheme every token sequence has
    probability `≤ 1/(size^L · Dsep^(L-1))`; this is `≤ 1/D` whenever no capitalisation bonus is
    claimed.
  * `wl_maxprob_recipe_sep_one`, `wl_maxprob_recipe_sep_random`: if every title-cased word
    differs from every list word, then under 'one' (resp. 'random') every token sequence has
    probability `≤ 1/(size^L · L · Dsep^(L-1))` (resp. `≤ 1/(size^L · 2^L · Dsep^(L-1))`).
  * `wl_maxprob_recipe_sep`: the three combined against the reported
    `D = size^L · capFactor · Dsep^(L-1)`: probability `≤ 1/D`, the distinguishability premise
    being required only when `capFactor ≠ 1`.
  * equality: `wl_prob_exact_fixed`, `wl_prob_exact_one`, `wl_prob_exact_random` — each
    producible password has probability exactly `1/(size^L · Dsep^(L-1))`, resp.
    `1/(size^L · L · Dsep^(L-1))`, `1/(size^L · 2^L · Dsep^(L-1))`: the bounds are attained.
  * `preset_instances`, `preset_entropyD`: the separator recipes of the six recipe-built presets —
    `{length 1|2, allow Digits}`, `{length 1|2, allow Digits, exclude Ambiguous}`,
    `{length 1, allow Symbols}`, `{length 1, allow Digits|Symbols}`, everything else empty — satisfy
    `SepOK` for the class table `[(4, digits), (8, "!@.-_*"), (16, "0O1Il5S")]`, `MaxTrials = 200`,
    `MaxFailRate = 10^-9`, with `Dsep = 10, 100, 7, 49, 6, 16`; `preset_instances_shipped`: the
    same for the full regenerated class table and the shipped budget (`C13.shippedCfg`).
    `passes_of_no_required`: a recipe with no required sets and no required classes rejects no
    candidate, for any class table. (`SFNone` is a constant separator: C06.)
  * `wl_maxprob_recipe_sep_of_newWordList`: the same bound for a list as `NewWordList` builds it
    (no duplicates by C10; the distinguishability premise discharged by C08 + C10).
  * a worked example (`ab`, `c`, `de`; three words; 'random'; `SFDigits1`): `D = 21600`, every
    password has probability `≤ 1/21600`, and `Ab7c3de` has probability exactly `1/21600`.

  What is left out.
  * Separator recipes WITH effective requirements: the bound is false there (C06, D9).
  * As in C06, `title`-injectivity on the list is a genuine extra premise, and "no title-cased
    word is a list word" is a premise of the capitalisation-bonus bounds; the latter is derived
    for lists built by `NewWordList` with an idempotent `title` in
    `wl_maxprob_recipe_sep_of_newWordList` (C08 + C10, as in C06).
-/
import SpgProofs.Lemmas.ProbWLSep
import SpgProofs.Properties.C06
namespace Spg.C06b
open Spg Rand C06

/-! ## The law of the separator -/
section SepLaw
variable (cfg : Cfg) (r : WLRecipe) (cr : CharRecipe)

/-- `Dsep`: the integer whose log2 the separator recipe reports as its entropy, as a rational. -/
abbrev Dsep : ℚ := ((cr.entropyD cfg : Int) : ℚ)

/-- The strings the separator function can return. -/
abbrev sepStrings : List Word := strings (cr.alphabet cfg.tbl) cr.length.toNat

theorem sepProb_recipe (hs : r.sep = .recipe cr) (h : SepOK cfg cr) (s : Word) :
    C04.sepProb cfg r s = if s ∈ sepStrings cfg cr then 1 / Dsep cfg cr else 0 := by
  unfold C04.sepProb
  rw [hs, h.sepCall_E]
  have hconv : (sepStrings cfg cr).map (fun c => if (c, cr.entropyD cfg).1 = s then (1 : ℚ) else 0) =
      (sepStrings cfg cr).map (fun c => if (c == s) = true then (1 : ℚ) else 0) := by
    apply List.map_congr_left
    intro c _
    simp
  rw [hconv]
  by_cases hm : s ∈ sepStrings cfg cr
  · rw [if_pos hm, sum_indicator_of_mem s _ (strings_nodup (CharRecipe.alphabet_nodup cfg.tbl cr) _) hm]
  · rw [if_neg hm, sum_indicator_of_not_mem s _ hm, zero_div]

end SepLaw

/-! ## The shape of the choices, and the tokens they produce -/
section Shape

/-- What the per-position choices look like on every random stream, from position `i` on: the
word index is within the list; the separator is one of `seps` at an inner position and `[]`
(no call of the separator function) after the last word. -/
def Good (size : Nat) (seps : List Word) (L : Nat) : Nat → List (Nat × Word) → Prop
  | _, [] => True
  | i, (j, s) :: rest =>
    j < size ∧ (if i + 1 < L then s ∈ seps else s = []) ∧ Good size seps L (i + 1) rest

/-- The separator token written after position `i` (none after the last word). -/
def gapToks (L i : Nat) (s : Word) : List (Token Nat) :=
  if i + 1 < L then [{ value := s, ttype := sepType }] else []

variable {title : Word → Word} {words : List Word}

/-- One round of the loop on a well-shaped choice: exactly one atom (the word is not empty),
exactly one separator token at an inner position (the separator is not empty), the rest. -/
theorem assemble_good_cons (hok : ListOK title words) (caps : Nat → Bool) {seps : List Word}
    (hne : ∀ s ∈ seps, s ≠ []) (L i : Nat) {j : Nat} {s : Word} (hj : j < words.length)
    (hs : if i + 1 < L then s ∈ seps else s = []) (rest : List (Nat × Word)) :
    C04.assemble title words caps i ((j, s) :: rest) =
      { value := wordAt title words caps i j, ttype := atomType } ::
        (gapToks L i s ++ C04.assemble title words caps (i + 1) rest) := by
  have hw := wordAt_ne_nil hok caps i hj
  have he : (wordAt title words caps i j).isEmpty = false := by
    cases h : wordAt title words caps i j with
    | nil => exact absurd h hw
    | cons _ _ => rfl
  unfold wordAt at he
  by_cases hl : i + 1 < L
  · rw [if_pos hl] at hs
    have hse : s.isEmpty = false := by
      cases h : s with
      | nil => exact absurd h (hne s hs)
      | cons _ _ => rfl
    simp only [C04.assemble, wordAt, gapToks, he, hse, hl]
    rfl
  · rw [if_neg hl] at hs
    subst hs
    simp only [C04.assemble, wordAt, gapToks, he, hl]
    rfl

/-- **The choices are determined by the password.** Two well-shaped choice sequences that write
the same tokens are equal — word indices and separators alike: atoms and separators carry
different token types, every position yields exactly one atom and every gap exactly one
separator token. This holds for one fixed capitalisation (`caps = caps'`), and across two
capitalisations when every title-cased word differs from every list word — in which case the
capitalised positions agree as well. -/
theorem assemble_good_injective (hok : ListOK title words) {seps : List Word}
    (hne : ∀ s ∈ seps, s ≠ []) (caps caps' : Nat → Bool)
    (hc : (∀ w₁ ∈ words, ∀ w₂ ∈ words, title w₁ ≠ w₂) ∨ caps = caps') (L : Nat) :
    ∀ (ch ch' : List (Nat × Word)) (i : Nat),
      Good words.length seps L i ch → Good words.length seps L i ch' →
      C04.assemble title words caps i ch = C04.assemble title words caps' i ch' →
      ch = ch' ∧ ∀ k, k < ch.length → caps (i + k) = caps' (i + k)
  | [], [], _, _, _, _ => ⟨rfl, fun k hk => by simp at hk⟩
  | [], (j', s') :: rest', i, _, hg', h => by
    obtain ⟨hj', hs', _⟩ := hg'
    rw [assemble_good_cons hok caps' hne L i hj' hs'] at h
    simp [C04.assemble] at h
  | (j, s) :: rest, [], i, hg, _, h => by
    obtain ⟨hj, hs, _⟩ := hg
    rw [assemble_good_cons hok caps hne L i hj hs] at h
    simp [C04.assemble] at h
  | (j, s) :: rest, (j', s') :: rest', i, hg, hg', h => by
    obtain ⟨hj, hs, hr⟩ := hg
    obtain ⟨hj', hs', hr'⟩ := hg'
    rw [assemble_good_cons hok caps hne L i hj hs, assemble_good_cons hok caps' hne L i hj' hs'] at h
    injection h with h1 h2
    have hw : wordAt title words caps i j = wordAt title words caps' i j' := by
      injection h1
    have hm := getD_mem hj
    have hm' := getD_mem hj'
    have hboth : j = j' ∧ caps i = caps' i := by
      unfold wordAt at hw
      cases hci : caps i <;> cases hci' : caps' i <;>
        simp only [hci, hci', if_true, if_false, Bool.false_eq_true] at hw
      · exact ⟨getD_inj hok.nodup hj hj' hw, rfl⟩
      · rcases hc with hvis | hcc
        · exact absurd hw.symm (hvis _ hm' _ hm)
        · rw [hcc, hci'] at hci; cases hci
      · rcases hc with hvis | hcc
        · exact absurd hw (hvis _ hm _ hm')
        · rw [hcc, hci'] at hci; cases hci
      · exact ⟨getD_inj hok.nodup hj hj' (hok.title_inj _ hm _ hm' hw), rfl⟩
    have hsx : s = s' ∧ C04.assemble title words caps (i + 1) rest =
        C04.assemble title words caps' (i + 1) rest' := by
      unfold gapToks at h2
      by_cases hl : i + 1 < L
      · simp only [hl, if_true] at h2
        injection h2 with h3 h4
        injection h3 with h5 _
        exact ⟨h5, h4⟩
      · simp only [hl, if_false] at h2 hs hs'
        exact ⟨hs.trans hs'.symm, h2⟩
    obtain ⟨hrr, hcaps⟩ := assemble_good_injective hok hne caps caps' hc L rest rest' (i + 1) hr hr' hsx.2
    refine ⟨by rw [hboth.1, hsx.1, hrr], ?_⟩
    intro k hk
    cases k with
    | zero => simpa using hboth.2
    | succ k =>
      have := hcaps k (by simpa using hk)
      have e : i + (k + 1) = i + 1 + k := by omega
      rw [e]; exact this

end Shape

/-! ## Probabilities of the choices -/
section Prob
variable (cfg : Cfg) (r : WLRecipe) (cr : CharRecipe)

/-- Support of the choices at one position. -/
theorem posChoice_support (hs : r.sep = .recipe cr) (h : SepOK cfg cr) (size L i : Nat) :
    All (fun x : Nat × Word => x.1 < size ∧ (if i + 1 < L then x.2 ∈ sepStrings cfg cr else x.2 = []))
      (C04.posChoice cfg r size L i) := by
  unfold C04.posChoice
  by_cases hl : i + 1 < L
  · simp only [hl, if_true, next, Rand.bind, All]
    intro j hj
    rw [hs]
    apply All_bind _ _ h.sepCall_support
    intro p hp
    exact ⟨hj, hp⟩
  · simp only [hl, if_false, next, Rand.bind, All]
    intro j hj
    exact ⟨hj, trivial⟩

/-- **Support of the choice process**: on every random stream the choices are well shaped. -/
theorem choices_support (hs : r.sep = .recipe cr) (h : SepOK cfg cr) (size L : Nat) : ∀ (n i : Nat),
    All (fun ch => ch.length = n ∧ Good size (sepStrings cfg cr) L i ch)
      (C04.choices cfg r size L i n)
  | 0, i => by
    simp only [C04.choices, All]
    exact ⟨rfl, trivial⟩
  | n + 1, i => by
    unfold C04.choices
    apply All_bind _ _ (posChoice_support cfg r cr hs h size L i)
    rintro ⟨j, s⟩ ⟨hj, hsj⟩
    apply All_bind _ _ (choices_support hs h size L n (i + 1))
    rintro rest ⟨hlen, hg⟩
    simp only [All]
    exact ⟨by simp [hlen], hj, hsj, hg⟩

/-- **Probability of a well-shaped choice sequence** covering the positions `i, …, L-1`
(`n = L - i` of them): `(1/size)^n · (1/Dsep)^(n-1)` — every word uniform over the list, every
separator uniform over the `Dsep` possible separators, all independent (C04.choices_prob). -/
theorem weight_good (hs : r.sep = .recipe cr) (h : SepOK cfg cr) (size L : Nat) :
    ∀ (n i : Nat) (ch : List (Nat × Word)), i + n = L → ch.length = n →
      Good size (sepStrings cfg cr) L i ch →
      C04.weight cfg r size L i ch = 1 / ((size : ℚ) ^ n * Dsep cfg cr ^ (n - 1))
  | 0, i, ch, _, hlen, _ => by
    have : ch = [] := List.length_eq_zero_iff.mp hlen
    subst this
    simp [C04.weight]
  | n + 1, i, ch, hL, hlen, hg => by
    match ch, hlen, hg with
    | (j, s) :: rest, hlen, ⟨hj, hsj, hr⟩ =>
      have ih := weight_good hs h size L n (i + 1) rest (by omega) (by simpa using hlen) hr
      unfold C04.weight
      rw [ih, if_pos hj]
      cases n with
      | zero =>
        have hl : ¬ i + 1 < L := by omega
        rw [if_neg hl] at hsj ⊢
        rw [if_pos hsj]
        simp
      | succ m =>
        have hl : i + 1 < L := by omega
        rw [if_pos hl] at hsj ⊢
        rw [sepProb_recipe cfg r cr hs h, if_pos hsj]
        simp only [Nat.add_sub_cancel]
        rw [pow_succ ((size : ℚ)) (m + 1), pow_succ (Dsep cfg cr) m]
        simp only [one_div, mul_inv]
        ring

variable {cfg r cr} {title : Word → Word} {words : List Word}

/-- **Each producible token sequence has conditional probability exactly
`1/(size^n · Dsep^(n-1))`** given the capitalisation: the tokens written for a choice sequence are
written for no other. -/
theorem choices_assemble_exact (hok : ListOK title words) (hs : r.sep = .recipe cr)
    (h : SepOK cfg cr) (caps : Nat → Bool) (L n i : Nat) (hL : i + n = L)
    (ch0 : List (Nat × Word)) (hlen : ch0.length = n)
    (hg : Good words.length (sepStrings cfg cr) L i ch0) :
    E (C04.choices cfg r words.length L i n)
        (fun ch => ind (C04.assemble title words caps i ch0) (C04.assemble title words caps i ch))
      = 1 / ((words.length : ℚ) ^ n * Dsep cfg cr ^ (n - 1)) := by
  have h1 : E (C04.choices cfg r words.length L i n)
        (fun ch => ind (C04.assemble title words caps i ch0) (C04.assemble title words caps i ch)) =
      E (C04.choices cfg r words.length L i n) (ind ch0) := by
    apply E_congr_All _ _ _ _ (choices_support cfg r cr hs h words.length L n i)
    rintro ch ⟨_, hgc⟩
    by_cases hcc : ch = ch0
    · subst hcc; simp [ind]
    · have h2 : C04.assemble title words caps i ch ≠ C04.assemble title words caps i ch0 := fun he =>
        hcc (assemble_good_injective hok (fun s => h.ne_nil_of_mem) caps caps (Or.inr rfl) L ch ch0 i
          hgc hg he).1
      simp [ind, h2, hcc]
  rw [h1, C04.choices_prob cfg r words.length L n i ch0 hlen]
  exact weight_good cfg r cr hs h words.length L n i ch0 hL hlen hg

/-- If a token sequence has non-zero conditional probability, some well-shaped choice sequence
produces it. -/
theorem exists_of_choices_ne_zero (hs : r.sep = .recipe cr) (h : SepOK cfg cr) (caps : Nat → Bool)
    (L n i : Nat) (τ : List (Token Nat))
    (hne : E (C04.choices cfg r words.length L i n)
      (fun ch => ind τ (C04.assemble title words caps i ch)) ≠ 0) :
    ∃ ch : List (Nat × Word), ch.length = n ∧ Good words.length (sepStrings cfg cr) L i ch ∧
      C04.assemble title words caps i ch = τ := by
  obtain ⟨ch, ⟨hl, hg⟩, hnz⟩ :=
    exists_of_E_ne_zero _ _ (choices_support cfg r cr hs h words.length L n i) hne
  refine ⟨ch, hl, hg, ?_⟩
  by_contra hx
  exact hnz (by simp [ind, hx])

theorem bound_nonneg (h : SepOK cfg cr) (size n : Nat) :
    (0 : ℚ) ≤ 1 / ((size : ℚ) ^ n * Dsep cfg cr ^ (n - 1)) :=
  div_nonneg zero_le_one
    (mul_nonneg (pow_nonneg (Nat.cast_nonneg _) _) (pow_nonneg (le_of_lt h.entropyD_pos) _))

/-- **Given the capitalisation, no token sequence is likelier than `1/(size^n · Dsep^(n-1))`.** -/
theorem choices_assemble_le (hok : ListOK title words) (hs : r.sep = .recipe cr)
    (h : SepOK cfg cr) (caps : Nat → Bool) (L n i : Nat) (hL : i + n = L) (τ : List (Token Nat)) :
    E (C04.choices cfg r words.length L i n) (fun ch => ind τ (C04.assemble title words caps i ch))
      ≤ 1 / ((words.length : ℚ) ^ n * Dsep cfg cr ^ (n - 1)) := by
  by_cases hz : E (C04.choices cfg r words.length L i n)
      (fun ch => ind τ (C04.assemble title words caps i ch)) = 0
  · rw [hz]; exact bound_nonneg h _ _
  · obtain ⟨ch0, hlen, hg, rfl⟩ := exists_of_choices_ne_zero hs h caps L n i τ hz
    exact le_of_eq (choices_assemble_exact hok hs h caps L n i hL ch0 hlen hg)

end Prob

/-! ## The generator -/
section Generator
variable (cfg : Cfg) (title : Word → Word) (r : WLRecipe) (wl : WordList) (cr : CharRecipe)

theorem size_eq (hl : r.list = some wl) : WLRecipe.size r = wl.words.length := by
  simp [WLRecipe.size, hl]

/-- **Entropy of the recipe**: on every random stream `Entropy()` reports
`D = size^L · capFactor · Dsep^(L-1)` (C08: the separator's entropy sample cannot fail). -/
theorem wl_entropy_recipe_sep (hl : r.list = some wl) (hs : r.sep = .recipe cr) (h : SepOK cfg cr) :
    All (fun d => d = ((wl.words.length : Nat) : Int) ^ r.length.toNat *
        WLRecipe.capFactor r r.length.toNat * (cr.entropyD cfg) ^ (r.length.toNat - 1))
      (WLRecipe.entropy cfg r) := by
  have hA : (cr.alphabet cfg.tbl).isEmpty = false := by
    cases hh : cr.alphabet cfg.tbl with
    | nil => exact absurd hh h.alpha
    | cons _ _ => rfl
  have := C08.entropy_stream_indep cfg r cr hs h.len hA h.acc h.trials h.noreq
  rw [size_eq r wl hl] at this
  exact this

/-- **The Password carries that entropy**, on every random stream. -/
theorem wl_entropy_field_recipe_sep (hl : r.list = some wl) (hs : r.sep = .recipe cr)
    (h : SepOK cfg cr) :
    All (fun res => ∀ p, res = Res.ok p →
        p.entD = ((wl.words.length : Nat) : Int) ^ r.length.toNat *
          WLRecipe.capFactor r r.length.toNat * (cr.entropyD cfg) ^ (r.length.toNat - 1))
      (WLRecipe.generate cfg title r) := by
  unfold WLRecipe.generate
  rw [hl]
  simp only
  split
  · simp [All]
  split
  · simp [All]
  apply All_bind_true
  intro caps
  apply All_bind_true
  intro toks
  apply All_bind _ _ (wl_entropy_recipe_sep cfg r wl cr hl hs h)
  intro d hd
  simp only [All]
  intro p hp
  injection hp with hp
  subst hp
  exact hd

/-- The entropy sample has total mass one: it does not change the probability of the tokens. -/
theorem entropy_E_const (hs : r.sep = .recipe cr) (h : SepOK cfg cr) (c : ℚ) :
    E (WLRecipe.entropy cfg r) (fun _ => c) = c := by
  rw [C08.entropy_recipe_sep cfg r cr hs, E_bind]
  simp only [E_pure]
  exact h.sepCall_E_const c

/-- The probability of a password is the average, over the capitalisation choice, of its
conditional probability (C04's factorisation). -/
theorem generate_prob_eq (hl : r.list = some wl) (hne : wl.words ≠ []) (hL : 1 ≤ r.length)
    (hs : r.sep = .recipe cr) (h : SepOK cfg cr) (τ : List (Token Nat)) :
    E (WLRecipe.generate cfg title r) (retTokens τ) =
      E (WLRecipe.capChoice r r.length.toNat)
        (fun caps => condProb cfg title r wl.words r.length.toNat caps τ) := by
  rw [C04.generate_factors cfg title r wl hl hne hL]
  apply E_congr
  intro caps
  unfold condProb
  apply E_congr
  intro ch
  exact entropy_E_const cfg r cr hs h (ind τ (C04.assemble title wl.words caps 0 ch))

variable {cfg title r wl cr}

theorem condProb_le (hok : ListOK title wl.words) (hs : r.sep = .recipe cr) (h : SepOK cfg cr)
    (L : Nat) (caps : Nat → Bool) (τ : List (Token Nat)) :
    condProb cfg title r wl.words L caps τ ≤
      1 / ((wl.words.length : ℚ) ^ L * Dsep cfg cr ^ (L - 1)) :=
  choices_assemble_le hok hs h caps L L 0 (by omega) τ

/-- When capitalisation is visible, two capitalisation choices under which `τ` has non-zero
conditional probability select the same positions among the `L`. -/
theorem condProb_pattern (hok : ListOK title wl.words)
    (hvis : ∀ w₁ ∈ wl.words, ∀ w₂ ∈ wl.words, title w₁ ≠ w₂) (hs : r.sep = .recipe cr)
    (h : SepOK cfg cr) (L : Nat) (caps caps' : Nat → Bool) (τ : List (Token Nat))
    (h1 : condProb cfg title r wl.words L caps τ ≠ 0)
    (h2 : condProb cfg title r wl.words L caps' τ ≠ 0) :
    C04.pattern L caps = C04.pattern L caps' := by
  obtain ⟨ch, hl, hg, he⟩ := exists_of_choices_ne_zero hs h caps L L 0 τ h1
  obtain ⟨ch', _, hg', he'⟩ := exists_of_choices_ne_zero hs h caps' L L 0 τ h2
  obtain ⟨_, hcaps⟩ := assemble_good_injective hok (fun s => h.ne_nil_of_mem) caps caps'
    (Or.inl hvis) L ch ch' 0 hg hg' (he.trans he'.symm)
  unfold C04.pattern
  apply List.map_congr_left
  intro k hk
  have := hcaps k (by rw [hl]; exact List.mem_range.mp hk)
  simpa using this

end Generator

/-! ## The bounds -/
section Bounds
variable (cfg : Cfg) (title : Word → Word) (r : WLRecipe) (wl : WordList) (cr : CharRecipe)
  (hl : r.list = some wl) (hne : wl.words ≠ []) (hL : 1 ≤ r.length)
  (hs : r.sep = .recipe cr) (h : SepOK cfg cr) (hok : ListOK title wl.words)
include hl hne hL hs h hok

/-- **No password is likelier than `1/(size^L · Dsep^(L-1))`** — the min-entropy claim of a
recipe that reports no capitalisation bonus (`capFactor = 1`). Holds for every capitalisation
scheme. -/
theorem wl_maxprob_recipe_sep_nocapbonus (τ : List (Token Nat)) :
    E (WLRecipe.generate cfg title r) (retTokens τ) ≤
      1 / ((wl.words.length : ℚ) ^ r.length.toNat * Dsep cfg cr ^ (r.length.toNat - 1)) := by
  rw [generate_prob_eq cfg title r wl cr hl hne hL hs h τ]
  apply E_le_const
  · exact bound_nonneg h _ _
  · intro caps
    exact condProb_le hok hs h _ caps τ

variable (hvis : ∀ w₁ ∈ wl.words, ∀ w₂ ∈ wl.words, title w₁ ≠ w₂)
include hvis

/-- **'one', capitalisation visible: no password is likelier than
`1/(size^L · L · Dsep^(L-1))`.** -/
theorem wl_maxprob_recipe_sep_one (hcap : r.capitalize = "one") (τ : List (Token Nat)) :
    E (WLRecipe.generate cfg title r) (retTokens τ) ≤
      1 / ((wl.words.length : ℚ) ^ r.length.toNat * (r.length.toNat : ℚ) *
        Dsep cfg cr ^ (r.length.toNat - 1)) := by
  rw [generate_prob_eq cfg title r wl cr hl hne hL hs h τ, C04.capChoice_eq_one r _ hcap]
  simp only [E_draw, E_pure]
  rw [mul_right_comm, ← div_div]
  apply div_le_div_of_nonneg_right _ (Nat.cast_nonneg _)
  apply sum_le_of_at_most_one
    (fun w => condProb cfg title r wl.words r.length.toNat (fun i => i == w) τ) _
    (bound_nonneg h _ _) _ List.nodup_range
  · intro w _
    exact condProb_le hok hs h _ _ τ
  · intro w hw w' _ h1 h2
    exact one_pattern_inj _ w' w (List.mem_range.mp hw)
      (condProb_pattern hok hvis hs h _ _ _ τ h1 h2)

/-- **'random', capitalisation visible: no password is likelier than
`1/(size^L · 2^L · Dsep^(L-1))`.** -/
theorem wl_maxprob_recipe_sep_random (hcap : r.capitalize = "random") (τ : List (Token Nat)) :
    E (WLRecipe.generate cfg title r) (retTokens τ) ≤
      1 / ((wl.words.length : ℚ) ^ r.length.toNat * (2 : ℚ) ^ r.length.toNat *
        Dsep cfg cr ^ (r.length.toNat - 1)) := by
  rw [generate_prob_eq cfg title r wl cr hl hne hL hs h τ, C04.capChoice_eq_random r _ hcap, E_bind]
  simp only [E_pure]
  rw [drawMany_E 2 (by omega)]
  have htwo : ((2 : ℕ) : ℚ) = 2 := by norm_num
  rw [htwo, mul_right_comm, ← div_div]
  apply div_le_div_of_nonneg_right _ (pow_nonneg (by norm_num) _)
  apply sum_le_of_at_most_one
    (fun bits => condProb cfg title r wl.words r.length.toNat (capsOfBits bits) τ) _
    (bound_nonneg h _ _) _ (strings_nodup List.nodup_range _)
  · intro bits _
    exact condProb_le hok hs h _ _ τ
  · intro bits hb bits' hb' h1 h2
    exact random_pattern_inj _ bits bits' hb hb'
      (condProb_pattern hok hvis hs h _ _ _ τ h1 h2)

end Bounds

/-! ## The bound against the reported entropy, and equality -/
section Combined
variable (cfg : Cfg) (title : Word → Word) (r : WLRecipe) (wl : WordList) (cr : CharRecipe)
  (hl : r.list = some wl) (hne : wl.words ≠ []) (hL : 1 ≤ r.length)
  (hs : r.sep = .recipe cr) (h : SepOK cfg cr) (hok : ListOK title wl.words)
include hl hne hL hs h hok

/-- **C06 for wordlist recipes with a requirement-free separator recipe**: no password is
likelier than `1/D = 2^-Entropy`, `D = size^L · capFactor · Dsep^(L-1)` being what `Entropy()`
reports and the Password carries on every random stream (`wl_entropy_recipe_sep`,
`wl_entropy_field_recipe_sep`). The premise that title-cased words are distinguishable from list
words is needed only when a capitalisation bonus is claimed. -/
theorem wl_maxprob_recipe_sep
    (hvis : WLRecipe.capFactor r r.length.toNat ≠ 1 →
      ∀ w₁ ∈ wl.words, ∀ w₂ ∈ wl.words, title w₁ ≠ w₂)
    (τ : List (Token Nat)) :
    E (WLRecipe.generate cfg title r) (retTokens τ) ≤
      1 / (((((wl.words.length : Nat) : Int) ^ r.length.toNat *
              WLRecipe.capFactor r r.length.toNat *
              (cr.entropyD cfg) ^ (r.length.toNat - 1) : Int)) : ℚ) := by
  have hspec := C08.capFactor_spec r r.length.toNat
  have hno := wl_maxprob_recipe_sep_nocapbonus cfg title r wl cr hl hne hL hs h hok τ
  by_cases h1 : WLRecipe.allCap r = true ∧ r.capitalize = "random"
  · rw [if_pos h1] at hspec
    by_cases htriv : WLRecipe.capFactor r r.length.toNat = 1
    · rw [htriv]; push_cast; rw [mul_one]
      exact hno
    · rw [hspec]; push_cast
      exact wl_maxprob_recipe_sep_random cfg title r wl cr hl hne hL hs h hok (hvis htriv) h1.2 τ
  · rw [if_neg h1] at hspec
    by_cases h2 : WLRecipe.allCap r = true ∧ r.capitalize = "one"
    · rw [if_pos h2] at hspec
      by_cases htriv : WLRecipe.capFactor r r.length.toNat = 1
      · rw [htriv]; push_cast; rw [mul_one]
        exact hno
      · rw [hspec]; push_cast
        exact wl_maxprob_recipe_sep_one cfg title r wl cr hl hne hL hs h hok (hvis htriv) h2.2 τ
    · rw [if_neg h2] at hspec
      rw [hspec]; push_cast; rw [mul_one]
      exact hno

/-- **Equality, schemes without a random choice** ('none', 'first', 'all', anything else): the
capitalised positions `caps` are fixed, and the password written for each well-shaped choice
sequence (`L` word indices, `L-1` separators) has probability exactly
`1/(size^L · Dsep^(L-1))`. -/
theorem wl_prob_exact_fixed (h1 : r.capitalize ≠ "one") (h2 : r.capitalize ≠ "random") :
    ∃ caps, WLRecipe.capChoice r r.length.toNat = .pure caps ∧
      ∀ ch : List (Nat × Word), ch.length = r.length.toNat →
        Good wl.words.length (sepStrings cfg cr) r.length.toNat 0 ch →
        E (WLRecipe.generate cfg title r) (retTokens (C04.assemble title wl.words caps 0 ch))
          = 1 / ((wl.words.length : ℚ) ^ r.length.toNat * Dsep cfg cr ^ (r.length.toNat - 1)) := by
  obtain ⟨caps, hcaps⟩ := C04.capChoice_const r r.length.toNat h1 h2
  refine ⟨caps, hcaps, ?_⟩
  intro ch hlen hg
  rw [generate_prob_eq cfg title r wl cr hl hne hL hs h, hcaps, E_pure]
  exact choices_assemble_exact hok hs h caps _ _ 0 (by omega) ch hlen hg

variable (hvis : ∀ w₁ ∈ wl.words, ∀ w₂ ∈ wl.words, title w₁ ≠ w₂)
include hvis

/-- **Equality, 'one'** (capitalisation visible): the password written for the capitalised
position `w0` and the choice sequence `ch` has probability exactly
`1/(size^L · L · Dsep^(L-1))`. -/
theorem wl_prob_exact_one (hcap : r.capitalize = "one") (w0 : Nat) (hw0 : w0 < r.length.toNat)
    (ch : List (Nat × Word)) (hlen : ch.length = r.length.toNat)
    (hg : Good wl.words.length (sepStrings cfg cr) r.length.toNat 0 ch) :
    E (WLRecipe.generate cfg title r)
        (retTokens (C04.assemble title wl.words (fun i => i == w0) 0 ch))
      = 1 / ((wl.words.length : ℚ) ^ r.length.toNat * (r.length.toNat : ℚ) *
          Dsep cfg cr ^ (r.length.toNat - 1)) := by
  have hex := choices_assemble_exact hok hs h (fun i => i == w0)
    r.length.toNat r.length.toNat 0 (by omega) ch hlen hg
  have hpos : (0 : ℚ) <
      1 / ((wl.words.length : ℚ) ^ r.length.toNat * Dsep cfg cr ^ (r.length.toNat - 1)) :=
    div_pos one_pos (mul_pos (pow_pos (by exact_mod_cast size_pos hne) _)
      (pow_pos h.entropyD_pos _))
  rw [generate_prob_eq cfg title r wl cr hl hne hL hs h, C04.capChoice_eq_one r _ hcap]
  simp only [E_draw, E_pure]
  rw [mul_right_comm, ← div_div]
  congr 1
  rw [sum_eq_single_of_mem
    (fun w => condProb cfg title r wl.words r.length.toNat (fun i => i == w) _) w0 _
    List.nodup_range (List.mem_range.mpr hw0)]
  · exact hex
  · intro w hw hne0
    by_contra hnz
    apply hne0
    refine one_pattern_inj _ w0 w (List.mem_range.mp hw)
      (condProb_pattern hok hvis hs h _ _ _ _ hnz ?_)
    unfold condProb
    rw [hex]
    exact ne_of_gt hpos

/-- **Equality, 'random'** (capitalisation visible): the password written for the coin flips
`bits` and the choice sequence `ch` has probability exactly `1/(size^L · 2^L · Dsep^(L-1))`. -/
theorem wl_prob_exact_random (hcap : r.capitalize = "random") (bits : List Nat)
    (hbits : bits ∈ strings (List.range 2) r.length.toNat)
    (ch : List (Nat × Word)) (hlen : ch.length = r.length.toNat)
    (hg : Good wl.words.length (sepStrings cfg cr) r.length.toNat 0 ch) :
    E (WLRecipe.generate cfg title r)
        (retTokens (C04.assemble title wl.words (capsOfBits bits) 0 ch))
      = 1 / ((wl.words.length : ℚ) ^ r.length.toNat * (2 : ℚ) ^ r.length.toNat *
          Dsep cfg cr ^ (r.length.toNat - 1)) := by
  have hex := choices_assemble_exact hok hs h (capsOfBits bits)
    r.length.toNat r.length.toNat 0 (by omega) ch hlen hg
  have hpos : (0 : ℚ) <
      1 / ((wl.words.length : ℚ) ^ r.length.toNat * Dsep cfg cr ^ (r.length.toNat - 1)) :=
    div_pos one_pos (mul_pos (pow_pos (by exact_mod_cast size_pos hne) _)
      (pow_pos h.entropyD_pos _))
  rw [generate_prob_eq cfg title r wl cr hl hne hL hs h, C04.capChoice_eq_random r _ hcap, E_bind]
  simp only [E_pure]
  rw [drawMany_E 2 (by omega)]
  have htwo : ((2 : ℕ) : ℚ) = 2 := by norm_num
  rw [htwo, mul_right_comm, ← div_div]
  congr 1
  refine Eq.trans (sum_eq_single_of_mem
    (fun b => condProb cfg title r wl.words r.length.toNat (capsOfBits b)
      (C04.assemble title wl.words (capsOfBits bits) 0 ch))
    bits _ (strings_nodup List.nodup_range _) hbits ?_) hex
  · intro b hbm hne0
    by_contra hnz
    apply hne0
    refine random_pattern_inj _ b bits hbm hbits
      (condProb_pattern hok hvis hs h _ _ _ _ hnz ?_)
    unfold condProb
    rw [hex]
    exact ne_of_gt hpos

end Combined

/-! ## The documented presets satisfy the premises -/
section Presets

/-- A recipe without required sets or required classes rejects no candidate. -/
theorem passes_of_no_required (tbl : ClassTable) (cr : CharRecipe) (hr : cr.requireSets = [])
    (hq : cr.require = 0) (cand : List Nat) : cr.passes tbl cand = true := by
  simp [CharRecipe.passes, CharRecipe.requiredSets, CharRecipe.declaredRequired, hr, hq]

/-- The class table restricted to the classes the presets use (digits, symbols, ambiguous), with
the shipped retry budget `MaxTrials = 200`, `MaxFailRate = 10^-9`. -/
def presetCfg : Cfg :=
  { tbl := [(4, [48, 49, 50, 51, 52, 53, 54, 55, 56, 57]), (8, [33, 64, 46, 45, 95, 42]),
            (16, [48, 79, 49, 73, 108, 53, 83])],
    maxTrials := 200, frNum := 1, frDen := 1000000000 }

/-- A separator recipe as the presets build it: a length, allowed classes, excluded classes,
everything else empty. -/
def presetSep (len : Int) (allow exclude : Nat) : CharRecipe :=
  { length := len, allow := allow, require := 0, exclude := exclude,
    allowChars := [], requireSets := [], excludeChars := [] }

theorem presetSep_ok (cfg : Cfg) (len : Int) (allow exclude : Nat) (hlen : 1 ≤ len)
    (ha : (presetSep len allow exclude).alphabet cfg.tbl ≠ [])
    (hacc : (presetSep len allow exclude).acceptable cfg = true) (hT : 0 < cfg.maxTrials) :
    SepOK cfg (presetSep len allow exclude) :=
  ⟨hlen, ha, hacc, hT, passes_of_no_required _ _ rfl rfl⟩

/-- **The documented presets satisfy the premises on the separator recipe**: `SFDigits1`,
`SFDigits2` (digits, length 1 and 2), `SFDigitsNoAmbiguous1/2` (digits without the ambiguous
`0 1 5`), `SFSymbols` (one symbol), `SFDigitsSymbols` (one digit or symbol). -/
theorem preset_instances :
    SepOK presetCfg (presetSep 1 4 0) ∧ SepOK presetCfg (presetSep 2 4 0) ∧
    SepOK presetCfg (presetSep 1 4 16) ∧ SepOK presetCfg (presetSep 2 4 16) ∧
    SepOK presetCfg (presetSep 1 8 0) ∧ SepOK presetCfg (presetSep 1 12 0) :=
  ⟨presetSep_ok _ 1 4 0 (by decide) (by decide) (by decide) (by decide),
   presetSep_ok _ 2 4 0 (by decide) (by decide) (by decide) (by decide),
   presetSep_ok _ 1 4 16 (by decide) (by decide) (by decide) (by decide),
   presetSep_ok _ 2 4 16 (by decide) (by decide) (by decide) (by decide),
   presetSep_ok _ 1 8 0 (by decide) (by decide) (by decide) (by decide),
   presetSep_ok _ 1 12 0 (by decide) (by decide) (by decide) (by decide)⟩

/-- Their `Dsep`: 10, 100, 7, 49, 6, 16. -/
theorem preset_entropyD :
    (presetSep 1 4 0).entropyD presetCfg = 10 ∧ (presetSep 2 4 0).entropyD presetCfg = 100 ∧
    (presetSep 1 4 16).entropyD presetCfg = 7 ∧ (presetSep 2 4 16).entropyD presetCfg = 49 ∧
    (presetSep 1 8 0).entropyD presetCfg = 6 ∧ (presetSep 1 12 0).entropyD presetCfg = 16 := by
  decide

/-- The same for the configuration regenerated from the code: the full class table
`charTypeByFlag` and the shipped `MaxTrials` / `MaxFailRate` (C13.shippedCfg). -/
theorem preset_instances_shipped :
    let cfg := C13.shippedCfg Generated.classTable
    (SepOK cfg (presetSep 1 4 0) ∧ SepOK cfg (presetSep 2 4 0) ∧
     SepOK cfg (presetSep 1 4 16) ∧ SepOK cfg (presetSep 2 4 16) ∧
     SepOK cfg (presetSep 1 8 0) ∧ SepOK cfg (presetSep 1 12 0)) ∧
    ((presetSep 1 4 0).entropyD cfg = 10 ∧ (presetSep 2 4 0).entropyD cfg = 100 ∧
     (presetSep 1 4 16).entropyD cfg = 7 ∧ (presetSep 2 4 16).entropyD cfg = 49 ∧
     (presetSep 1 8 0).entropyD cfg = 6 ∧ (presetSep 1 12 0).entropyD cfg = 16) :=
  ⟨⟨presetSep_ok _ 1 4 0 (by decide) (by decide) (by decide) (by decide),
    presetSep_ok _ 2 4 0 (by decide) (by decide) (by decide) (by decide),
    presetSep_ok _ 1 4 16 (by decide) (by decide) (by decide) (by decide),
    presetSep_ok _ 2 4 16 (by decide) (by decide) (by decide) (by decide),
    presetSep_ok _ 1 8 0 (by decide) (by decide) (by decide) (by decide),
    presetSep_ok _ 1 12 0 (by decide) (by decide) (by decide) (by decide)⟩, by decide⟩

end Presets

/-! ## The statements with the premises on the separator recipe spelled out -/
section Explicit

/-- `sepProb_recipe`, premises spelled out: every separator the function can return is one of the
`Dsep` strings of length `Length ≥ 1` over the separator recipe's alphabet, each with
probability exactly `1/Dsep`. -/
theorem sepProb_recipe_explicit (cfg : Cfg) (r : WLRecipe) (cr : CharRecipe)
    (hs : r.sep = .recipe cr) (hcL : 1 ≤ cr.length) (hcA : cr.alphabet cfg.tbl ≠ [])
    (hacc : cr.acceptable cfg = true) (hT : 0 < cfg.maxTrials)
    (hreq : ∀ cand, cr.passes cfg.tbl cand = true) (s : Word) :
    C04.sepProb cfg r s =
      (if s ∈ strings (cr.alphabet cfg.tbl) cr.length.toNat
        then 1 / ((cr.entropyD cfg : Int) : ℚ) else 0) ∧
    (s ∈ strings (cr.alphabet cfg.tbl) cr.length.toNat → s ≠ []) ∧
    ((cr.entropyD cfg : Int) : ℚ) = ((cr.alphabet cfg.tbl).length : ℚ) ^ cr.length.toNat :=
  have h : SepOK cfg cr := ⟨hcL, hcA, hacc, hT, hreq⟩
  ⟨sepProb_recipe cfg r cr hs h s, fun hm => h.ne_nil_of_mem hm, h.entropyD_eq⟩

/-- `wl_maxprob_recipe_sep_nocapbonus`, premises spelled out. -/
theorem wl_maxprob_recipe_sep_nocapbonus_explicit (cfg : Cfg) (title : Word → Word) (r : WLRecipe)
    (wl : WordList) (cr : CharRecipe) (hl : r.list = some wl) (hne : wl.words ≠ [])
    (hL : 1 ≤ r.length) (hs : r.sep = .recipe cr) (hcL : 1 ≤ cr.length)
    (hcA : cr.alphabet cfg.tbl ≠ []) (hacc : cr.acceptable cfg = true) (hT : 0 < cfg.maxTrials)
    (hreq : ∀ cand, cr.passes cfg.tbl cand = true) (hok : ListOK title wl.words)
    (τ : List (Token Nat)) :
    E (WLRecipe.generate cfg title r) (retTokens τ) ≤
      1 / ((wl.words.length : ℚ) ^ r.length.toNat *
        ((cr.entropyD cfg : Int) : ℚ) ^ (r.length.toNat - 1)) :=
  wl_maxprob_recipe_sep_nocapbonus cfg title r wl cr hl hne hL hs ⟨hcL, hcA, hacc, hT, hreq⟩ hok τ

/-- `wl_maxprob_recipe_sep`, premises spelled out: no password is likelier than `1/D`,
`D = size^L · capFactor · Dsep^(L-1)` the integer whose log2 the recipe reports. -/
theorem wl_maxprob_recipe_sep_explicit (cfg : Cfg) (title : Word → Word) (r : WLRecipe)
    (wl : WordList) (cr : CharRecipe) (hl : r.list = some wl) (hne : wl.words ≠ [])
    (hL : 1 ≤ r.length) (hs : r.sep = .recipe cr) (hcL : 1 ≤ cr.length)
    (hcA : cr.alphabet cfg.tbl ≠ []) (hacc : cr.acceptable cfg = true) (hT : 0 < cfg.maxTrials)
    (hreq : ∀ cand, cr.passes cfg.tbl cand = true) (hok : ListOK title wl.words)
    (hvis : WLRecipe.capFactor r r.length.toNat ≠ 1 →
      ∀ w₁ ∈ wl.words, ∀ w₂ ∈ wl.words, title w₁ ≠ w₂)
    (τ : List (Token Nat)) :
    E (WLRecipe.generate cfg title r) (retTokens τ) ≤
      1 / (((((wl.words.length : Nat) : Int) ^ r.length.toNat *
              WLRecipe.capFactor r r.length.toNat *
              (cr.entropyD cfg) ^ (r.length.toNat - 1) : Int)) : ℚ) :=
  wl_maxprob_recipe_sep cfg title r wl cr hl hne hL hs ⟨hcL, hcA, hacc, hT, hreq⟩ hok hvis τ

end Explicit

/-! ## Composition with C08 and C10: the bound for a list as `NewWordList` builds it -/
section Composition

/-- **C06b end to end.** Take any input list, any visiting order of the map that reaches every
word, and an idempotent `title`; let `wl` be what `NewWordList` keeps (C10). With a
requirement-free separator recipe, title-casing injective on the kept words and no word empty or
emptied by title-casing, every token sequence is returned with probability at most `1/D`,
`D = size^L · capFactor · Dsep^(L-1)` being what `Entropy()` reports — the capitalisation bonus
being claimed only when every kept word changes under title-casing (C08), which together with the
normalisation invariant (C10) makes capitalised words distinguishable from list words. -/
theorem wl_maxprob_recipe_sep_of_newWordList (cfg : Cfg) (title : Word → Word)
    (hid : ∀ w, title (title w) = title w)
    (input order : List Word) (hcover : ∀ w ∈ input, w ∈ order) (wl : WordList) (d : Nat)
    (hnew : newWordListOrd title input order = some (wl, d))
    (r : WLRecipe) (hl : r.list = some wl) (hne : wl.words ≠ []) (hL : 1 ≤ r.length)
    (cr : CharRecipe) (hs : r.sep = .recipe cr) (h : SepOK cfg cr)
    (hnonempty : ∀ w ∈ wl.words, w ≠ [] ∧ title w ≠ [])
    (hinj : ∀ w₁ ∈ wl.words, ∀ w₂ ∈ wl.words, title w₁ = title w₂ → w₁ = w₂)
    (τ : List (Token Nat)) :
    E (WLRecipe.generate cfg title r) (retTokens τ) ≤
      1 / (((((wl.words.length : Nat) : Int) ^ r.length.toNat *
              WLRecipe.capFactor r r.length.toNat *
              (cr.entropyD cfg) ^ (r.length.toNat - 1) : Int)) : ℚ) := by
  have hok : ListOK title wl.words :=
    ⟨C10.kept_nodup title input order wl d hnew, hnonempty, hinj⟩
  apply wl_maxprob_recipe_sep cfg title r wl cr hl hne hL hs h hok
  intro hcf
  have hall : WLRecipe.allCap r = true := by
    cases hA : WLRecipe.allCap r with
    | true => rfl
    | false => exfalso; apply hcf; simp [WLRecipe.capFactor, hA]
  have hun : wl.unCap = 0 := by
    simp only [WLRecipe.allCap, hl] at hall
    simpa using hall
  have hchg : ∀ w ∈ wl.words, title w ≠ w := (C08.allCap_iff title input order wl d hnew).mp hun
  intro w₁ h₁ w₂ h₂ heq
  by_cases hw : w₁ = w₂
  · subst hw; exact hchg w₁ h₁ heq
  · have hk₁ := (C10.kept_spec title hid input order hcover wl d hnew w₁).mp h₁
    have hk₂ := (C10.kept_spec title hid input order hcover wl d hnew w₂).mp h₂
    exact hk₂.2 ⟨w₁, hk₁.1, hw, heq⟩

end Composition

/-! ## Non-vacuity

The list, title function of C06's example (`ab`, `c`, `de`; upper-case a leading `a`–`z`), three
words, scheme 'random', separator `SFDigits1` (one digit): all premises hold,
`D = 3^3 · 2^3 · 10^2 = 21600`, no password is likelier than `1/21600`, and `Ab7c3de` has
probability exactly `1/21600`. -/
section Example

def exR : WLRecipe :=
  { list := some { words := exWords, unCap := 0 }, length := 3, sepFunc := some (.recipe (presetSep 1 4 0)),
    capitalize := "random" }

example (τ : List (Token Nat)) :
    E (WLRecipe.generate presetCfg exTitle exR) (retTokens τ) ≤ 1 / 21600 := by
  have := wl_maxprob_recipe_sep presetCfg exTitle exR { words := exWords, unCap := 0 }
    (presetSep 1 4 0) rfl (by decide) (by decide) rfl preset_instances.1 ex_listOK
    (fun _ => ex_visible.2) τ
  have hD : ((exWords.length : Nat) : Int) ^ exR.length.toNat *
      WLRecipe.capFactor exR exR.length.toNat *
      ((presetSep 1 4 0).entropyD presetCfg) ^ (exR.length.toNat - 1) = 21600 := by decide
  simp only [] at this
  rw [hD] at this
  have e : (((21600 : Int)) : ℚ) = 21600 := by norm_num
  rw [e] at this
  exact this

/-- `Ab7c3de` is returned with probability exactly `1/21600`. -/
example :
    E (WLRecipe.generate presetCfg exTitle exR)
      (retTokens [{ value := [65, 98], ttype := atomType }, { value := [55], ttype := sepType },
                  { value := [99], ttype := atomType }, { value := [51], ttype := sepType },
                  { value := [100, 101], ttype := atomType }]) = 1 / 21600 := by
  have := wl_prob_exact_random presetCfg exTitle exR { words := exWords, unCap := 0 }
    (presetSep 1 4 0) rfl (by decide) (by decide) rfl preset_instances.1 ex_listOK ex_visible.2 rfl
    [1, 0, 0] (by decide) [(0, [55]), (1, [51]), (2, [])] (by decide)
    ⟨by decide, by decide, by decide, by decide, by decide, by decide, trivial⟩
  have hτ : C04.assemble exTitle exWords (capsOfBits [1, 0, 0]) 0 [(0, [55]), (1, [51]), (2, [])] =
      [{ value := [65, 98], ttype := atomType }, { value := [55], ttype := sepType },
       { value := [99], ttype := atomType }, { value := [51], ttype := sepType },
       { value := [100, 101], ttype := atomType }] := by decide
  simp only [] at this
  rw [hτ] at this
  rw [this]
  have h3 : exR.length.toNat = 3 := by decide
  have hs : exWords.length = 3 := by decide
  have hd : Dsep presetCfg (presetSep 1 4 0) = 10 := by
    have : (presetSep 1 4 0).entropyD presetCfg = 10 := by decide
    unfold Dsep; rw [this]; norm_num
  rw [h3, hs, hd]
  norm_num

end Example

end Spg.C06b
