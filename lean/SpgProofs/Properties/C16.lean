/-
  C16 — Built-in classes, defaults, separator presets, shipped lists are as documented.

  Every theorem here is about `Spg.Generated.*`, which is REGENERATED from /repo on every run
  (from the compiled package through its exported API and the `verif` class-table hook, and
  from testdata/*.txt read from disk): an edited class string, default, budget, preset recipe or
  list entry changes the data and the kernel re-checks these statements against it.
  All by kernel evaluation (`decide`), no `native_decide`.
-/
import Spg.Generated.Classes
import Spg.Generated.AgileWords
import Spg.Generated.AgileSyllables
import Spg.Model.WordGen
import Spg.Generated.Facts
import SpgProofs.Lemmas.FactPreds
import SpgProofs.Lemmas.C16Lists
namespace Spg.C16
open Spg Spg.Generated

/-! ### Character classes and flags -/

/-- The documented classes: A-Z, a-z, 0-9, the six symbols `!@.-_*`, the seven ambiguous
characters `0O1Il5S`, keyed by five distinct single-bit flags. -/
def documentedClasses : List (Nat × List Nat) :=
  [(1, "ABCDEFGHIJKLMNOPQRSTUVWXYZ".toList.map Char.toNat),
   (2, "abcdefghijklmnopqrstuvwxyz".toList.map Char.toNat),
   (4, "0123456789".toList.map Char.toNat),
   (8, "!@.-_*".toList.map Char.toNat),
   (16, "0O1Il5S".toList.map Char.toNat)]

theorem classes_ok : classTable = documentedClasses := by decide

theorem flags_ok :
    flagUppers = 1 ∧ flagLowers = 2 ∧ flagDigits = 4 ∧ flagSymbols = 8 ∧ flagAmbiguous = 16 ∧
    flagNone = 0 ∧ flagLetters = flagUppers ||| flagLowers ∧
    flagAll = flagLetters ||| flagDigits ||| flagSymbols := by decide

def recipeAllowing (f : Nat) : CharRecipe :=
  { length := 1, allow := f, require := 0, exclude := 0, allowChars := [], requireSets := [], excludeChars := [] }

/-- `Alphabet()` of the real package, for each named flag word, is what the model computes from
the class table: the exported API and the model agree on what a flag word means, and `Letters`,
`All` are the documented unions. -/
theorem alphabets_ok :
    alphabetOf = [
      ("Uppers", (recipeAllowing flagUppers).alphabet classTable),
      ("Lowers", (recipeAllowing flagLowers).alphabet classTable),
      ("Digits", (recipeAllowing flagDigits).alphabet classTable),
      ("Symbols", (recipeAllowing flagSymbols).alphabet classTable),
      ("Ambiguous", (recipeAllowing flagAmbiguous).alphabet classTable),
      ("None", []),
      ("Letters", norm ((recipeAllowing flagUppers).alphabet classTable ++ (recipeAllowing flagLowers).alphabet classTable)),
      ("All", norm ((recipeAllowing flagLetters).alphabet classTable ++ (recipeAllowing flagDigits).alphabet classTable ++
                    (recipeAllowing flagSymbols).alphabet classTable))] := by
  decide

/-! ### Constructor defaults and the retry budget -/

/-- `NewCharRecipe(n)`: everything allowed minus the ambiguous characters, nothing else set. -/
theorem newCharRecipe_ok : newCharRecipe7 = (7, flagLetters ||| flagDigits ||| flagSymbols, 0, flagAmbiguous, [], 0, []) := by
  decide

/-- `NewWLRecipe(n, wl)`: no capitalisation, no separator, no separator function. -/
theorem newWLRecipe_ok : newWLRecipe7 = (7, [], 0, "none") := by decide

theorem capSchemes_ok :
    capSchemes = [("CSNone", "none"), ("CSFirst", "first"), ("CSAll", "all"), ("CSRandom", "random"), ("CSOne", "one")] := by
  decide

theorem kinds_ok : indexKinds = [0, 1, 2, 3] ∧ tokenTypes = [0, 1] := by decide

/-- 200 attempts; a tolerated failure probability of 1e-9 (the float64 nearest to it). -/
theorem budget_ok :
    maxTrials = 200 ∧ maxFailRateNum = float1em9Num ∧ maxFailRateDen = float1em9Den ∧
    -- and that float64 is within one part in 10^15 of 1/10^9
    (maxFailRateNum * 1000000000 - maxFailRateDen).natAbs * 1000000000000000 ≤ maxFailRateDen := by
  decide

/-! ### The shipped lists (proved in `SpgProofs/Lemmas/C16Lists.lean` by kernel evaluation over the regenerated data) -/

/-- The shipped word list is strictly sorted — so it has no duplicates — in source order. -/
theorem agileWords_sorted : C16Lists.sortedB agileWordsChunks.flatten = true := C16Lists.agileWords_sorted

theorem agileSyllables_sorted : C16Lists.sortedB agileSyllablesChunks.flatten = true := C16Lists.agileSyllables_sorted

theorem agileWords_nodup : agileWordsChunks.flatten.Nodup := C16Lists.agileWords_nodup

theorem agileSyllables_nodup : agileSyllablesChunks.flatten.Nodup := C16Lists.agileSyllables_nodup

/-- Every entry of both lists is a non-empty lower-case word a-z (and was encodable at all). -/
theorem lists_lower :
    agileWordsChunks.flatten.all C16Lists.wellFormed = true ∧ agileWordsBad = [] ∧
    agileSyllablesChunks.flatten.all C16Lists.wellFormed = true ∧ agileSyllablesBad = [] := C16Lists.lists_lower

/-- **The embedded lists are identical to their source data files**, entry for entry, in order. -/
theorem lists_match_testdata :
    agileWordsChunks = agWordlistTxtChunks ∧ agileWordsCount = agWordlistTxtCount ∧ agWordlistTxtBad = [] ∧
    agileSyllablesChunks = agSyllablesTxtChunks ∧ agileSyllablesCount = agSyllablesTxtCount ∧ agSyllablesTxtBad = [] :=
  C16Lists.lists_match_testdata

/-- Nothing was lost in the encoding: the number of encoded entries is the number of entries. -/
theorem lists_counts :
    agileWordsChunks.flatten.length = agileWordsCount ∧ agileSyllablesChunks.flatten.length = agileSyllablesCount :=
  C16Lists.lists_counts

/-- The package-level state behind the built-ins: plain data (the two lists, the two class
tables, the two budget variables) that nothing assigns after initialisation, and the seven
presets. A further stateful package-level variable — a shared, mutable default recipe, a mutable
copy of a class behind a pointer — falsifies this; so does any assignment to a package-level
variable. -/
theorem builtin_state : FactPreds.packageStateOK = true ∧
    (Facts.sharedWrites.filter fun w => w.2.2 == "pkgvar") = [] := by decide

/-! ### Separator presets: what each documented recipe yields -/

def presetRecipe (l : Int) (allow excl : Nat) : CharRecipe :=
  { length := l, allow := allow, require := 0, exclude := excl, allowChars := [], requireSets := [], excludeChars := [] }

def shipped : Cfg := { tbl := classTable, maxTrials := maxTrials.toNat, frNum := maxFailRateNum.toNat, frDen := maxFailRateDen }

/-- The alphabets the presets draw from: the ten digits; the seven unambiguous digits 2346789;
the six symbols; the sixteen digits-or-symbols. -/
theorem preset_alphabets :
    (presetRecipe 1 flagDigits 0).alphabet classTable = "0123456789".toList.map Char.toNat ∧
    (presetRecipe 1 flagDigits flagAmbiguous).alphabet classTable = "2346789".toList.map Char.toNat ∧
    (presetRecipe 1 flagSymbols 0).alphabet classTable = "!*-.@_".toList.map Char.toNat ∧
    (presetRecipe 1 (flagSymbols ||| flagDigits) 0).alphabet classTable = "!*-.0123456789@_".toList.map Char.toNat := by
  decide

/-- The matching entropies, as the integer `D` with entropy `log2 D`: 10, 100, 7, 49, 6, 16 — one
or two independent uniform characters (uniformity of the draws themselves is C01/C02). None of
them has requirements, so none can fail, and each is accepted by the pre-flight. -/
theorem preset_entropy :
    (presetRecipe 1 flagDigits 0).entropyD shipped = 10 ∧
    (presetRecipe 2 flagDigits 0).entropyD shipped = 100 ∧
    (presetRecipe 1 flagDigits flagAmbiguous).entropyD shipped = 7 ∧
    (presetRecipe 2 flagDigits flagAmbiguous).entropyD shipped = 49 ∧
    (presetRecipe 1 flagSymbols 0).entropyD shipped = 6 ∧
    (presetRecipe 1 (flagSymbols ||| flagDigits) 0).entropyD shipped = 16 ∧
    (presetRecipe 1 flagDigits 0).acceptable shipped = true ∧
    (presetRecipe 2 flagDigits flagAmbiguous).acceptable shipped = true ∧
    (presetRecipe 1 (flagSymbols ||| flagDigits) 0).acceptable shipped = true := by
  decide

end Spg.C16
