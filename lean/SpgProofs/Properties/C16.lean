/-
  C16 — Built-in classes, defaults, separator presets, shipped lists are as documented.

  Every theorem here is about `Spg.Generated.*`, which is REGENERATED from /repo on every run
  (from the compiled package through its exported API and the `verif` class-table hook, and
  from testdata/*.txt read from disk): an edited class string, default, budget, preset recipe or
  list entry changes the data and the kernel re-checks these statements against it.
  All by kernel evaluation (`decide`), no `native_decide`.
-/
import Spg.Generated.Classes
import Spg.Generated.AgileWords
import Spg.Generated.AgileSyllables
import Spg.Model.WordGen
namespace Spg.C16
open Spg Spg.Generated

/-! ### Character classes and flags -/

/-- The documented classes: A-Z, a-z, 0-9, the six symbols `!@.-_*`, the seven ambiguous
characters `0O1Il5S`, keyed by five distinct single-bit flags. -/
def documentedClasses : List (Nat × List Nat) :=
  [(1, "ABCDEFGHIJKLMNOPQRSTUVWXYZ".toList.map Char.toNat),
   (2, "abcdefghijklmnopqrstuvwxyz".toList.map Char.toNat),
   (4, "0123456789".toList.map Char.toNat),
   (8, "!@.-_*".toList.map Char.toNat),
   (16, "0O1Il5S".toList.map Char.toNat)]

theorem classes_ok : classTable = documentedClasses := by decide

theorem flags_ok :
    flagUppers = 1 ∧ flagLowers = 2 ∧ flagDigits = 4 ∧ flagSymbols = 8 ∧ flagAmbiguous = 16 ∧
    flagNone = 0 ∧ flagLetters = flagUppers ||| flagLowers ∧
    flagAll = flagLetters ||| flagDigits ||| flagSymbols := by decide

def recipeAllowing (f : Nat) : CharRecipe :=
  { length := 1, allow := f, require := 0, exclude := 0, allowChars := [], requireSets := [], excludeChars := [] }

/-- `Alphabet()` of the real package, for each named flag word, is what the model computes from
the class table: the exported API and the model agree on what a flag word means, and `Letters`,
`All` are the documented unions. -/
theorem alphabets_ok :
    alphabetOf = [
      ("Uppers", (recipeAllowing flagUppers).alphabet classTable),
      ("Lowers", (recipeAllowing flagLowers).alphabet classTable),
      ("Digits", (recipeAllowing flagDigits).alphabet classTable),
      ("Symbols", (recipeAllowing flagSymbols).alphabet classTable),
      ("Ambiguous", (recipeAllowing flagAmbiguous).alphabet classTable),
      ("None", []),
      ("Letters", norm ((recipeAllowing flagUppers).alphabet classTable ++ (recipeAllowing flagLowers).alphabet classTable)),
      ("All", norm ((recipeAllowing flagLetters).alphabet classTable ++ (recipeAllowing flagDigits).alphabet classTable ++
                    (recipeAllowing flagSymbols).alphabet classTable))] := by
  decide

/-! ### Constructor defaults and the retry budget -/

/-- `NewCharRecipe(n)`: everything allowed minus the ambiguous characters, nothing else set. -/
theorem newCharRecipe_ok : newCharRecipe7 = (7, flagLetters ||| flagDigits ||| flagSymbols, 0, flagAmbiguous, [], 0, []) := by
  decide

/-- `NewWLRecipe(n, wl)`: no capitalisation, no separator, no separator function. -/
theorem newWLRecipe_ok : newWLRecipe7 = (7, [], 0, "none") := by decide

theorem capSchemes_ok :
    capSchemes = [("CSNone", "none"), ("CSFirst", "first"), ("CSAll", "all"), ("CSRandom", "random"), ("CSOne", "one")] := by
  decide

theorem kinds_ok : indexKinds = [0, 1, 2, 3] ∧ tokenTypes = [0, 1] := by decide

/-- 200 attempts; a tolerated failure probability of 1e-9 (the float64 nearest to it). -/
theorem budget_ok :
    maxTrials = 200 ∧ maxFailRateNum = float1em9Num ∧ maxFailRateDen = float1em9Den ∧
    -- and that float64 is within one part in 10^15 of 1/10^9
    (maxFailRateNum * 1000000000 - maxFailRateDen).natAbs * 1000000000000000 ≤ maxFailRateDen := by
  decide

/-! ### The shipped lists -/

/-- Strictly increasing (hence duplicate-free). -/
def sortedB : List Nat → Bool
  | a :: b :: rest => a < b && sortedB (b :: rest)
  | _ => true

theorem sortedB_pairwise : ∀ (l : List Nat), sortedB l = true → l.Pairwise (· < ·)
  | [], _ => List.Pairwise.nil
  | [_], _ => by simp
  | a :: b :: rest, h => by
    simp only [sortedB, Bool.and_eq_true, decide_eq_true_eq] at h
    have ih := sortedB_pairwise (b :: rest) h.2
    refine List.pairwise_cons.mpr ⟨?_, ih⟩
    intro c hc
    rcases List.mem_cons.mp hc with rfl | hc
    · exact h.1
    · exact Nat.lt_trans h.1 ((List.pairwise_cons.mp ih).1 c hc)

/-- Digits of `v` in base 27 from the least significant: zeros (padding) may only come before
the first non-zero digit is seen; after `k` digits nothing may remain. -/
def wfAux : Nat → Nat → Bool → Bool
  | 0, v, seen => v == 0 && seen
  | k + 1, v, seen =>
    if v % 27 == 0 then !seen && wfAux k (v / 27) false else wfAux k (v / 27) true

/-- An encoded entry is a word of 1 to 8 letters a-z: its eight base-27 digits are a non-empty
run of digits 1..26 (a = 1 … z = 26), left-aligned, followed by zeros only. -/
def wellFormed (v : Nat) : Bool := wfAux 8 v false

/-- For instance "aback" (1,2,1,3,11 then three zeros) is well formed; a gap, an empty entry and
an over-long entry are not. -/
example : wellFormed ((((((1 * 27 + 2) * 27 + 1) * 27 + 3) * 27 + 11) * 27 + 0) * 27 * 27) = true ∧
    wellFormed ((1 * 27 + 0) * 27 + 1) = false ∧ wellFormed 0 = false ∧ wellFormed (27 ^ 8) = false := by
  decide

set_option maxRecDepth 100000 in
/-- The shipped word list is strictly sorted — so it has no duplicates — in source order. -/
theorem agileWords_sorted : sortedB agileWordsChunks.flatten = true := by decide +kernel

set_option maxRecDepth 100000 in
theorem agileSyllables_sorted : sortedB agileSyllablesChunks.flatten = true := by decide +kernel

theorem agileWords_nodup : agileWordsChunks.flatten.Nodup :=
  (sortedB_pairwise _ agileWords_sorted).imp (fun h => Nat.ne_of_lt h)

theorem agileSyllables_nodup : agileSyllablesChunks.flatten.Nodup :=
  (sortedB_pairwise _ agileSyllables_sorted).imp (fun h => Nat.ne_of_lt h)

set_option maxRecDepth 100000 in
/-- Every entry of both lists is a non-empty lower-case word a-z (and was encodable at all). -/
theorem lists_lower :
    agileWordsChunks.flatten.all wellFormed = true ∧ agileWordsBad = [] ∧
    agileSyllablesChunks.flatten.all wellFormed = true ∧ agileSyllablesBad = [] := by
  decide +kernel

set_option maxRecDepth 100000 in
/-- **The embedded lists are identical to their source data files**, entry for entry, in order. -/
theorem lists_match_testdata :
    agileWordsChunks = agWordlistTxtChunks ∧ agileWordsCount = agWordlistTxtCount ∧ agWordlistTxtBad = [] ∧
    agileSyllablesChunks = agSyllablesTxtChunks ∧ agileSyllablesCount = agSyllablesTxtCount ∧ agSyllablesTxtBad = [] := by
  decide +kernel

set_option maxRecDepth 100000 in
/-- Nothing was lost in the encoding: the number of encoded entries is the number of entries. -/
theorem lists_counts :
    agileWordsChunks.flatten.length = agileWordsCount ∧ agileSyllablesChunks.flatten.length = agileSyllablesCount := by
  decide +kernel

/-! ### Separator presets: what each documented recipe yields -/

def presetRecipe (l : Int) (allow excl : Nat) : CharRecipe :=
  { length := l, allow := allow, require := 0, exclude := excl, allowChars := [], requireSets := [], excludeChars := [] }

def shipped : Cfg := { tbl := classTable, maxTrials := maxTrials.toNat, frNum := maxFailRateNum.toNat, frDen := maxFailRateDen }

/-- The alphabets the presets draw from: the ten digits; the seven unambiguous digits 2346789;
the six symbols; the sixteen digits-or-symbols. -/
theorem preset_alphabets :
    (presetRecipe 1 flagDigits 0).alphabet classTable = "0123456789".toList.map Char.toNat ∧
    (presetRecipe 1 flagDigits flagAmbiguous).alphabet classTable = "2346789".toList.map Char.toNat ∧
    (presetRecipe 1 flagSymbols 0).alphabet classTable = "!*-.@_".toList.map Char.toNat ∧
    (presetRecipe 1 (flagSymbols ||| flagDigits) 0).alphabet classTable = "!*-.0123456789@_".toList.map Char.toNat := by
  decide

/-- The matching entropies, as the integer `D` with entropy `log2 D`: 10, 100, 7, 49, 6, 16 — one
or two independent uniform characters (uniformity of the draws themselves is C01/C02). None of
them has requirements, so none can fail, and each is accepted by the pre-flight. -/
theorem preset_entropy :
    (presetRecipe 1 flagDigits 0).entropyD shipped = 10 ∧
    (presetRecipe 2 flagDigits 0).entropyD shipped = 100 ∧
    (presetRecipe 1 flagDigits flagAmbiguous).entropyD shipped = 7 ∧
    (presetRecipe 2 flagDigits flagAmbiguous).entropyD shipped = 49 ∧
    (presetRecipe 1 flagSymbols 0).entropyD shipped = 6 ∧
    (presetRecipe 1 (flagSymbols ||| flagDigits) 0).entropyD shipped = 16 ∧
    (presetRecipe 1 flagDigits 0).acceptable shipped = true ∧
    (presetRecipe 2 flagDigits flagAmbiguous).acceptable shipped = true ∧
    (presetRecipe 1 (flagSymbols ||| flagDigits) 0).acceptable shipped = true := by
  decide

end Spg.C16
