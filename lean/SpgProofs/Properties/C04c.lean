/-
  C04 (continued) — "each separator is a fresh independent draw from its separator function":
  the joint law of two gaps.

  `sep_marginal` (C04b) gives each gap the separator function's own law. Independence between
  gaps is a statement about pairs: for two inner positions `k < k'` the separators after them are
  `(s, t)` with probability `sepProb s · sepProb t` — for every separator setting the model can
  express (constant, a recipe-built function with its retries and failures, a caller-written
  function), every list and every capitalisation scheme. A generator that fetched one separator
  and reused it (seeded change C04m) has `P(s, t) = 0` for `s ≠ t`. Likewise a word and a
  separator: `P(word k = j ∧ sep k' = s) = 1/size · sepProb s`.
-/
import SpgProofs.Properties.C04b
namespace Spg.C04
open Spg Rand WLRecipe

variable (cfg : Cfg) (r : WLRecipe)

/-- **Two gaps are independent**: the separators after inner positions `k < k'` are `s` and `t`
with probability `sepProb s · sepProb t`. -/
theorem sep_pair_independent (size L : Nat) (hs : 0 < size) (s t : Word) :
    ∀ (n i k k' : Nat), k < k' → k' < n → i + k' + 1 < L →
      E (choices cfg r size L i n)
        (fun ch => if (ch[k]?).map Prod.snd = some s ∧ (ch[k']?).map Prod.snd = some t then 1 else 0) =
        sepProb cfg r s * sepProb cfg r t
  | 0, _, _, _, _, h, _ => by omega
  | n + 1, i, 0, k' + 1, _, h, hl => by
    rw [E_choices_succ]
    have : (fun c : Nat × Word => E (choices cfg r size L (i + 1) n) fun rest =>
        if ((c :: rest)[0]?).map Prod.snd = some s ∧ ((c :: rest)[k' + 1]?).map Prod.snd = some t then (1 : ℚ) else 0) =
        fun c => (sepProb cfg r t) * (if c.2 = s then 1 else 0) := by
      funext c
      simp only [List.getElem?_cons_zero, List.getElem?_cons_succ, Option.map_some, Option.some.injEq]
      by_cases hc : c.2 = s
      · simp only [hc, true_and, if_true, mul_one]
        exact sep_marginal cfg r size L hs t n (i + 1) k' (by omega) (by omega)
      · simp only [hc, false_and, if_false, mul_zero]
        exact E_zero _
    rw [this, E_const_mul, posChoice_sep cfg r size L i hs (by omega) s, mul_comm]
  | n + 1, i, k + 1, k' + 1, hk, h, hl => by
    rw [E_choices_succ]
    have : (fun c : Nat × Word => E (choices cfg r size L (i + 1) n) fun rest =>
        if ((c :: rest)[k + 1]?).map Prod.snd = some s ∧ ((c :: rest)[k' + 1]?).map Prod.snd = some t then (1 : ℚ) else 0) =
        fun _ => sepProb cfg r s * sepProb cfg r t := by
      funext c
      simp only [List.getElem?_cons_succ]
      exact sep_pair_independent size L hs s t n (i + 1) k k' (by omega) (by omega) (by omega)
    rw [this]
    exact E_const _ _ (proper_posChoice cfg r size L i hs)

/-- **A word and a later separator are independent**: `P(word k = j ∧ separator k' = s)` is
`1/size · sepProb s` for `k < k'`. -/
theorem word_sep_independent (size L : Nat) (hs : 0 < size) (j : Nat) (hj : j < size) (s : Word) :
    ∀ (n i k k' : Nat), k < k' → k' < n → i + k' + 1 < L →
      E (choices cfg r size L i n)
        (fun ch => if (ch[k]?).map Prod.fst = some j ∧ (ch[k']?).map Prod.snd = some s then 1 else 0) =
        1 / (size : ℚ) * sepProb cfg r s
  | 0, _, _, _, _, h, _ => by omega
  | n + 1, i, 0, k' + 1, _, h, hl => by
    rw [E_choices_succ]
    have : (fun c : Nat × Word => E (choices cfg r size L (i + 1) n) fun rest =>
        if ((c :: rest)[0]?).map Prod.fst = some j ∧ ((c :: rest)[k' + 1]?).map Prod.snd = some s then (1 : ℚ) else 0) =
        fun c => (sepProb cfg r s) * (if c.1 = j then 1 else 0) := by
      funext c
      simp only [List.getElem?_cons_zero, List.getElem?_cons_succ, Option.map_some, Option.some.injEq]
      by_cases hc : c.1 = j
      · simp only [hc, true_and, if_true, mul_one]
        exact sep_marginal cfg r size L hs s n (i + 1) k' (by omega) (by omega)
      · simp only [hc, false_and, if_false, mul_zero]
        exact E_zero _
    rw [this, E_const_mul, posChoice_word cfg r size L i j hj, mul_comm]
  | n + 1, i, k + 1, k' + 1, hk, h, hl => by
    rw [E_choices_succ]
    have : (fun c : Nat × Word => E (choices cfg r size L (i + 1) n) fun rest =>
        if ((c :: rest)[k + 1]?).map Prod.fst = some j ∧ ((c :: rest)[k' + 1]?).map Prod.snd = some s then (1 : ℚ) else 0) =
        fun _ => 1 / (size : ℚ) * sepProb cfg r s := by
      funext c
      simp only [List.getElem?_cons_succ]
      exact word_sep_independent size L hs j hj s n (i + 1) k k' (by omega) (by omega) (by omega)
    rw [this]
    exact E_const _ _ (proper_posChoice cfg r size L i hs)

/-- Non-vacuity: a caller-written separator with three alternatives, five positions: gaps 1 and
3 are inner positions and the hypotheses are met. -/
example :
    let r : WLRecipe := { list := none, length := 5, sepFunc := some (.custom [45] [[46], [95]] 8), capitalize := "none" }
    E (choices { tbl := [], maxTrials := 200, frNum := 1, frDen := 1000000000 } r 3 5 0 5)
        (fun ch => if (ch[1]?).map Prod.snd = some [45] ∧ (ch[3]?).map Prod.snd = some [46] then 1 else 0) =
      sepProb { tbl := [], maxTrials := 200, frNum := 1, frDen := 1000000000 } r [45] *
      sepProb { tbl := [], maxTrials := 200, frNum := 1, frDen := 1000000000 } r [46] := by
  intro r
  exact sep_pair_independent _ r 3 5 (by omega) [45] [46] 5 0 1 3 (by omega) (by omega) (by omega)

/-- …and the right-hand side is not trivially zero: each of the three alternatives of that
separator function has probability 1/3, so the pair above has probability 1/9 — while a
generator that reused one separator for every gap would give the pair (`-`, `.`) probability 0. -/
example :
    let cfg : Cfg := { tbl := [], maxTrials := 200, frNum := 1, frDen := 1000000000 }
    let r : WLRecipe := { list := none, length := 5, sepFunc := some (.custom [45] [[46], [95]] 8), capitalize := "none" }
    sepProb cfg r [45] = 1 / 3 ∧ sepProb cfg r [46] = 1 / 3 := by
  intro cfg r
  have h : r.sep.call cfg = .draw 3 fun i => .pure (([45] :: [[46], [95]] : List Word).getD i [], 8) := rfl
  constructor <;>
  · simp only [sepProb, h, E_draw, E_pure]
    decide +kernel

end Spg.C04
