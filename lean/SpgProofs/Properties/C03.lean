/-
  C03 — Every character password satisfies its recipe; exclusion always wins.

  Stated for every recipe — the class flag words are universally quantified naturals over an
  arbitrary class table, so all 2^15 flag combinations (and the unused bits) are covered, as
  are arbitrary custom strings — and, through `Rand.All`/`run_All`, for every random stream.
-/
import SpgProofs.Lemmas.CharSets
import SpgProofs.Lemmas.Rand
namespace Spg.C03
open Spg CharRecipe

variable (cfg : Cfg) (r : CharRecipe)

/-- Every index drawn is in range and there are exactly `L` of them. -/
theorem drawMany_spec (b : Nat) : ∀ (L : Nat),
    Rand.All (fun idxs => idxs.length = L ∧ ∀ i ∈ idxs, i < b) (Rand.drawMany b L)
  | 0 => by simp [Rand.drawMany, Rand.All]
  | L + 1 => by
    intro i hi
    apply Rand.All_bind _ _ (drawMany_spec b L)
    rintro rest ⟨hl, hr⟩
    simp only [Rand.All, List.length_cons, hl, List.mem_cons, true_and]
    rintro j (rfl | hj)
    · exact hi
    · exact hr j hj

/-- A candidate has exactly `L` characters, all from the alphabet it is drawn over. -/
theorem candidate_spec (alpha : List Nat) (L : Nat) :
    Rand.All (fun cand => cand.length = L ∧ ∀ c ∈ cand, c ∈ alpha) (candidate alpha L) := by
  unfold candidate
  apply Rand.All_bind _ _ (drawMany_spec alpha.length L)
  rintro idxs ⟨hl, hr⟩
  simp only [Rand.All, List.length_map, hl, List.mem_map, true_and]
  rintro c ⟨i, hi, rfl⟩
  have := hr i hi
  rw [List.getD_eq_getElem?_getD, List.getElem?_eq_getElem this]
  exact List.getElem_mem this

theorem tryLoop_spec (alpha : List Nat) (L : Nat) : ∀ (t : Nat),
    Rand.All (fun res => ∀ cs, res = Res.ok cs →
        cs.length = L ∧ (∀ c ∈ cs, c ∈ alpha) ∧ r.passes cfg.tbl cs = true)
      (tryLoop cfg r alpha L t)
  | 0 => by simp [tryLoop, Rand.All]
  | t + 1 => by
    unfold tryLoop
    apply Rand.All_bind _ _ (candidate_spec alpha L)
    rintro cand ⟨hl, hm⟩
    by_cases hp : r.passes cfg.tbl cand = true
    · simp only [hp, if_true, Rand.All]
      intro cs hcs; injection hcs with hcs; subst hcs; exact ⟨hl, hm, hp⟩
    · simp only [hp, Bool.false_eq_true, if_false]
      exact tryLoop_spec alpha L t

/-- **Soundness of the character generator on every stream**: whatever is returned has exactly
`Length` characters, all from the alphabet, and passes the requirement filter. -/
theorem genChars_sound :
    Rand.All (fun res => ∀ cs, res = Res.ok cs →
        (cs.length : Int) = r.length ∧ (∀ c ∈ cs, c ∈ r.alphabet cfg.tbl) ∧ r.passes cfg.tbl cs = true)
      (genChars cfg r) := by
  unfold genChars
  split
  · simp [Rand.All]
  · rename_i hL
    simp only
    split
    · simp [Rand.All]
    · split
      · simp [Rand.All]
      · apply Rand.All_mono _ _ (tryLoop_spec cfg r _ _ _)
        intro res h cs hcs
        obtain ⟨h1, h2, h3⟩ := h cs hcs
        refine ⟨?_, h2, h3⟩
        rw [h1]; omega

/-- The characters that are allowed or required, as declared. -/
def allowedOrRequired (c : Nat) : Prop :=
  c ∈ r.declaredAllowed cfg.tbl ∨ ∃ d ∈ r.declaredRequired cfg.tbl, c ∈ d

/-- **C03, on every random stream.** A returned password has exactly `Length` tokens, each a
single-character atom; every character is allowed or required and NOT excluded (whether the
exclusion came from a class flag or a custom string); and every declared required set that
still has a non-excluded member is represented. -/
theorem generate_sound :
    Rand.All (fun res => ∀ p, res = Res.ok p →
        (p.tokens.length : Int) = r.length ∧
        (∀ t ∈ p.tokens, t.ttype = atomType ∧ t.value.length = 1) ∧
        (∀ c ∈ Tokens.concat p.tokens, allowedOrRequired cfg r c ∧ c ∉ r.excluded cfg.tbl) ∧
        (∀ d ∈ r.declaredRequired cfg.tbl, (∃ c ∈ d, c ∉ r.excluded cfg.tbl) →
           ∃ c ∈ Tokens.concat p.tokens, c ∈ d))
      (generate cfg r) := by
  unfold generate
  apply Rand.All_bind _ _ (genChars_sound cfg r)
  intro res h
  cases res with
  | err e => simp [Rand.All]
  | ok cs =>
    obtain ⟨h1, h2, h3⟩ := h cs rfl
    simp only [Rand.All]
    intro p hp; injection hp with hp; subst hp
    have hcat : Tokens.concat (cs.map fun c => ({ value := [c], ttype := atomType } : Token Nat)) = cs := by
      simp [Tokens.concat, List.flatMap_map]
    refine ⟨by simpa using h1, ?_, ?_, ?_⟩
    · intro t ht
      obtain ⟨c, _, rfl⟩ := List.mem_map.mp ht
      exact ⟨rfl, rfl⟩
    · intro c hc
      rw [hcat] at hc
      exact (mem_alphabet cfg.tbl r).mp (h2 c hc)
    · rintro d hd ⟨c0, hc0, hx0⟩
      rw [hcat]
      have hs : norm (sdiff d (r.excluded cfg.tbl)) ∈ r.requiredSets cfg.tbl :=
        (mem_requiredSets cfg.tbl r).mpr ⟨d, hd, rfl⟩
      rcases (passes_iff cfg.tbl r cs).mp h3 _ hs with hnil | ⟨c, hc, hcs⟩
      · have : c0 ∈ norm (sdiff d (r.excluded cfg.tbl)) := by
          rw [mem_norm, mem_sdiff]; exact ⟨hc0, hx0⟩
        rw [hnil] at this; cases this
      · rw [mem_norm, mem_sdiff] at hcs
        exact ⟨c, hc, hcs.1⟩

/-- The same, phrased for a concrete run on a concrete tape of raw words. -/
theorem generate_sound_run (tape rest : List Nat) (p : Password)
    (h : (generate cfg r).run tape = .done (.ok p) rest) :
    (p.tokens.length : Int) = r.length ∧
    (∀ t ∈ p.tokens, t.ttype = atomType ∧ t.value.length = 1) ∧
    (∀ c ∈ Tokens.concat p.tokens, allowedOrRequired cfg r c ∧ c ∉ r.excluded cfg.tbl) ∧
    (∀ d ∈ r.declaredRequired cfg.tbl, (∃ c ∈ d, c ∉ r.excluded cfg.tbl) →
       ∃ c ∈ Tokens.concat p.tokens, c ∈ d) :=
  Rand.run_All _ tape _ rest (generate_sound cfg r) h p rfl

/-- **Exclusion always wins**: an excluded character is not in the alphabet, hence (above) in
no password — whether it is also allowed, required, or both. -/
theorem excluded_never (c : Nat) (h : c ∈ r.excluded cfg.tbl) : c ∉ r.alphabet cfg.tbl :=
  fun hc => ((mem_alphabet cfg.tbl r).mp hc).2 h

/-- **`Alphabet()`** is strictly increasing — sorted, no repeats — and contains exactly the
characters that are allowed or required and not excluded. -/
theorem alphabet_spec :
    (r.alphabet cfg.tbl).Pairwise (· < ·) ∧
    ∀ c, c ∈ r.alphabet cfg.tbl ↔ (allowedOrRequired cfg r c ∧ c ∉ r.excluded cfg.tbl) :=
  ⟨alphabet_sorted cfg.tbl r, fun _ => mem_alphabet cfg.tbl r⟩

/-- Every character of the alphabet is one that a candidate can contain: it is `alpha[i]` for an
index `i` the draw can return. -/
theorem alphabet_complete (c : Nat) (h : c ∈ r.alphabet cfg.tbl) :
    ∃ i, i < (r.alphabet cfg.tbl).length ∧ (r.alphabet cfg.tbl).getD i 0 = c := by
  obtain ⟨i, hi, rfl⟩ := List.getElem_of_mem h
  exact ⟨i, hi, by rw [List.getD_eq_getElem?_getD, List.getElem?_eq_getElem hi]; rfl⟩

/-! ### Non-vacuity -/

/-- A recipe with overlapping class flags, custom strings, a multi-byte character and an
exclusion that bites into a required class: a run returns a password, so the hypotheses of
`generate_sound_run` are met by a real execution. -/
example :
    let cfg : Cfg := { tbl := [(1, [65, 66]), (4, [48, 49, 50])], maxTrials := 5, frNum := 1, frDen := 2 }
    let r : CharRecipe := { length := 3, allow := 1, require := 4, exclude := 0,
                            allowChars := [65, 233], requireSets := [[233, 53]], excludeChars := [49] }
    r.alphabet cfg.tbl = [48, 50, 53, 65, 66, 233] ∧
    (match (generate cfg r).run [0, 3, 5] with
      | .done (.ok p) _ => Tokens.concat p.tokens | _ => []) = [48, 65, 233] := by
  decide

end Spg.C03
