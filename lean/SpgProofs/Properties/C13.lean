/-
  C13 — Generate fails only when the recipe cannot be honoured: an error, never a panic.

  * `genChars_cases`: the character generator is, exactly, one of: the length error, the
    empty-alphabet error, the refusal of the pre-flight test, or the retry loop — and the
    retry loop returns a password or the "exhausted" error only (`tryLoop_outcomes`);
    an error result carries no password (by the type `Res`).
  * `genChars_depth`: at most `MaxTrials · Length` bounded draws on any stream: never more than
    the permitted number of attempts.
  * `generate_noZero`, `run_noZero`: no draw is ever made over zero alternatives, so the only
    way a run can end without a result is a failed read of the random source (C09).
  * `acceptable_iff` / `accept_of_tenth`: the pre-flight test is the exact inequality
    `(1 - c/M)^T ≤ rate`; with the shipped budget (read from the regenerated module) a recipe
    whose single-attempt success chance is at least 1/10 is never refused. That `c/M` is the
    exact fraction of unconstrained candidates satisfying the requirements is C07.
  * `wl_generate_cases`: the wordlist generator errs exactly for a missing or empty list or a
    non-positive length, and otherwise returns a password on every stream.
-/
import SpgProofs.Lemmas.Rand
import SpgProofs.Lemmas.CharSets
import Spg.Model.WordGen
import Spg.Generated.Classes
import SpgProofs.Properties.C07
namespace Spg.C13
open Spg CharRecipe

variable (cfg : Cfg) (r : CharRecipe)

/-- **Error iff**: the four ways `Generate` can go, exactly. -/
theorem genChars_cases :
    (r.length < 1 → genChars cfg r = .pure (.err .length)) ∧
    (1 ≤ r.length → (r.alphabet cfg.tbl) = [] → genChars cfg r = .pure (.err .noChars)) ∧
    (1 ≤ r.length → (r.alphabet cfg.tbl) ≠ [] → acceptable cfg r = false →
        genChars cfg r = .pure (.err .failRate)) ∧
    (1 ≤ r.length → (r.alphabet cfg.tbl) ≠ [] → acceptable cfg r = true →
        genChars cfg r = tryLoop cfg r (r.alphabet cfg.tbl) r.length.toNat cfg.maxTrials) := by
  unfold genChars
  refine ⟨?_, ?_, ?_, ?_⟩
  · intro h; simp [h]
  · intro h ha; rw [if_neg (by omega)]; simp [ha]
  · intro h ha hacc
    rw [if_neg (by omega)]
    have : (r.alphabet cfg.tbl).isEmpty = false := by cases hh : r.alphabet cfg.tbl <;> simp_all
    simp [this, hacc]
  · intro h ha hacc
    rw [if_neg (by omega)]
    have : (r.alphabet cfg.tbl).isEmpty = false := by cases hh : r.alphabet cfg.tbl <;> simp_all
    simp [this, hacc]

/-- The retry loop returns a candidate that passes the filter, or — only after all permitted
attempts — the "exhausted" error. -/
theorem tryLoop_outcomes (alpha : List Nat) (L : Nat) : ∀ (t : Nat),
    Rand.All (fun res => (∃ cs, res = Res.ok cs ∧ r.passes cfg.tbl cs = true) ∨ res = Res.err .exhausted)
      (tryLoop cfg r alpha L t)
  | 0 => by simp [tryLoop, Rand.All]
  | t + 1 => by
    unfold tryLoop
    apply Rand.All_bind_true
    intro cand
    by_cases hp : r.passes cfg.tbl cand = true
    · simp [hp, Rand.All]
    · simp only [hp, Bool.false_eq_true, if_false]; exact tryLoop_outcomes alpha L t

/-- `p` makes at most `d` bounded draws on any stream. -/
def DepthLe {α : Type} : Nat → Rand α → Prop
  | _, .pure _ => True
  | 0, .draw _ _ => False
  | d + 1, .draw n k => ∀ i, i < n → DepthLe d (k i)

theorem DepthLe_mono {α : Type} : ∀ (d e : Nat) (p : Rand α), d ≤ e → DepthLe d p → DepthLe e p
  | _, _, .pure _, _, _ => by simp [DepthLe]
  | 0, _, .draw _ _, _, h => by simp [DepthLe] at h
  | d + 1, 0, .draw _ _, hle, _ => by omega
  | d + 1, e + 1, .draw n k, hle, h => fun i hi => DepthLe_mono d e (k i) (by omega) (h i hi)

theorem DepthLe_bind {α β : Type} (f : α → Rand β) (e : Nat) (hf : ∀ a, DepthLe e (f a)) :
    ∀ (d : Nat) (p : Rand α), DepthLe d p → DepthLe (d + e) (p.bind f)
  | d, .pure a, _ => DepthLe_mono e (d + e) (f a) (by omega) (hf a)
  | 0, .draw _ _, h => by simp [DepthLe] at h
  | d + 1, .draw n k, h => by
    have : d + 1 + e = (d + e) + 1 := by omega
    rw [this]
    exact fun i hi => DepthLe_bind f e hf d (k i) (h i hi)

theorem drawMany_depth (b : Nat) : ∀ (L : Nat), DepthLe L (Rand.drawMany b L)
  | 0 => by simp [Rand.drawMany, DepthLe]
  | L + 1 => by
    intro i _
    have := DepthLe_bind (fun rest => Rand.pure (i :: rest)) 0 (fun _ => by simp [DepthLe]) L _ (drawMany_depth b L)
    simpa using this

theorem tryLoop_depth (alpha : List Nat) (L : Nat) : ∀ (t : Nat), DepthLe (t * L) (tryLoop cfg r alpha L t)
  | 0 => by simp [tryLoop, DepthLe]
  | t + 1 => by
    unfold tryLoop
    have hc : DepthLe L (candidate alpha L) := by
      unfold candidate
      have := DepthLe_bind (fun idxs => Rand.pure (idxs.map fun i => alpha.getD i 0)) 0
        (fun _ => by simp [DepthLe]) L _ (drawMany_depth alpha.length L)
      simpa using this
    have := DepthLe_bind (fun cand => if r.passes cfg.tbl cand = true then Rand.pure (Res.ok cand)
        else tryLoop cfg r alpha L t) (t * L)
      (fun cand => by
        by_cases hp : r.passes cfg.tbl cand = true
        · simp [hp, DepthLe]
        · simp only [hp, Bool.false_eq_true, if_false]; exact tryLoop_depth alpha L t) L _ hc
    have he : L + t * L = (t + 1) * L := by rw [Nat.add_mul]; omega
    rw [he] at this
    exact this

/-- **Never more than the permitted number of attempts**: on every stream `Generate` makes at
most `MaxTrials · Length` bounded draws. -/
theorem genChars_depth : DepthLe (cfg.maxTrials * r.length.toNat) (genChars cfg r) := by
  unfold genChars
  split
  · simp [DepthLe]
  · simp only
    split
    · simp [DepthLe]
    · split
      · simp [DepthLe]
      · exact tryLoop_depth cfg r _ _ _

/-! ### No draw over zero alternatives: no panic other than a failed read -/

/-- Every bounded draw of the computation has at least one alternative. -/
def NoZero {α : Type} : Rand α → Prop
  | .pure _ => True
  | .draw n k => 0 < n ∧ ∀ i, i < n → NoZero (k i)

theorem NoZero_bind {α β : Type} (f : α → Rand β) (hf : ∀ a, NoZero (f a)) :
    ∀ (p : Rand α), NoZero p → NoZero (p.bind f)
  | .pure a, _ => hf a
  | .draw _ k, h => ⟨h.1, fun i hi => NoZero_bind f hf (k i) (h.2 i hi)⟩

/-- A computation without zero-bounded draws never hits `randomUint32n(0)`'s panic. -/
theorem run_noZero {α : Type} : ∀ (p : Rand α) (t : List Nat), NoZero p → (∀ a rest, p.run t ≠ .done a rest) →
    (match p.run t with | .zero => False | _ => True)
  | .pure a, t, _, h => by exact absurd rfl (h a t)
  | .draw n k, t, hz, h => by
    simp only [Rand.run]
    cases hd : drawTape n t with
    | ok i rest =>
      simp only
      have hi : i < n := by
        have := Rand.run_All (P := fun j => j < n) (Rand.next n) t i rest (fun j hj => hj)
          (by simp [Rand.next, Rand.run, hd])
        exact this
      exact run_noZero (k i) rest (hz.2 i hi) (fun a r hr => h a r (by simp [Rand.run, hd, hr]))
    | fault => trivial
    | zero =>
      unfold drawTape at hd
      rw [if_neg (by have := hz.1; omega)] at hd
      have : ∀ (t : List Nat), drawWords n t ≠ .zero := by
        intro t; induction t with
        | nil => simp [drawWords]
        | cons v t ih => simp only [drawWords]; cases step n v <;> simp [ih]
      exact absurd hd (this t)

theorem drawMany_noZero (b : Nat) (hb : 0 < b) : ∀ (L : Nat), NoZero (Rand.drawMany b L)
  | 0 => by simp [Rand.drawMany, NoZero]
  | L + 1 => ⟨hb, fun _ _ => NoZero_bind _ (fun _ => by simp [NoZero]) _ (drawMany_noZero b hb L)⟩

theorem tryLoop_noZero (alpha : List Nat) (ha : alpha ≠ []) (L : Nat) : ∀ (t : Nat), NoZero (tryLoop cfg r alpha L t)
  | 0 => by simp [tryLoop, NoZero]
  | t + 1 => by
    unfold tryLoop candidate
    have hb : 0 < alpha.length := by cases alpha <;> simp_all
    apply NoZero_bind
    · intro cand
      by_cases hp : r.passes cfg.tbl cand = true
      · simp [hp, NoZero]
      · simp only [hp, Bool.false_eq_true, if_false]; exact tryLoop_noZero alpha ha L t
    · exact NoZero_bind _ (fun _ => by simp [NoZero]) _ (drawMany_noZero _ hb L)

/-- The character generator never draws over zero alternatives, for any recipe at all
(zero-valued and partially initialised ones included). -/
theorem genChars_noZero : NoZero (genChars cfg r) := by
  unfold genChars
  split
  · simp [NoZero]
  · simp only
    split
    · simp [NoZero]
    · rename_i hne
      split
      · simp [NoZero]
      · apply tryLoop_noZero
        intro h; simp [h] at hne

/-! ### The pre-flight test -/

/-- The pre-flight test is the exact inequality `(M - c)^T · den ≤ num · M^T` with `c > 0`,
i.e. `(1 - c/M)^T ≤ num/den`. -/
theorem acceptable_iff :
    acceptable cfg r = true ↔
      (0 < entropyD cfg r ∧ (total cfg r - entropyD cfg r) ^ cfg.maxTrials * (cfg.frDen : Int) ≤
        (cfg.frNum : Int) * (total cfg r) ^ cfg.maxTrials) := by
  simp [acceptable]

/-- **`SuccessProbability()` is the exact fraction of unconstrained candidates that satisfy the
requirements**: the pre-flight's `c / M` has `c` = the number of strings over the alphabet that
pass the filter (C07) and `M` = the number of all strings of that length over the alphabet. -/
theorem successProb_exact :
    entropyD cfg r = (((strings (r.alphabet cfg.tbl) r.length.toNat).filter fun s => r.passes cfg.tbl s).length : Int) ∧
    total cfg r = ((strings (r.alphabet cfg.tbl) r.length.toNat).length : Int) := by
  refine ⟨C07.entropyD_eq_card cfg r, ?_⟩
  rw [strings_length]; simp [total, size]

/-- Hence the fraction is at most one: the hypothesis `c ≤ M` of `accept_of_tenth` always holds. -/
theorem entropyD_le_total : entropyD cfg r ≤ total cfg r := by
  obtain ⟨h1, h2⟩ := successProb_exact cfg r
  rw [h1, h2]
  exact_mod_cast List.length_filter_le _ _

theorem int_pow_le_pow_left {a b : Int} (ha : 0 ≤ a) (hab : a ≤ b) : ∀ (n : Nat), a ^ n ≤ b ^ n
  | 0 => by simp
  | n + 1 => by
    rw [Int.pow_succ, Int.pow_succ]
    exact Int.mul_le_mul (int_pow_le_pow_left ha hab n) hab ha (Int.le_trans (Int.pow_nonneg ha) (int_pow_le_pow_left ha hab n))

/-- The shipped retry budget, read from the regenerated module. -/
def shippedCfg (tbl : ClassTable) : Cfg :=
  { tbl := tbl, maxTrials := Generated.maxTrials.toNat, frNum := Generated.maxFailRateNum.toNat,
    frDen := Generated.maxFailRateDen }

/-- With the shipped budget, nine tenths to the power of the number of attempts is below the
tolerated failure rate (a fact about the regenerated constants, checked by the kernel). -/
theorem budget_fact :
    (9 : Int) ^ (shippedCfg []).maxTrials * ((shippedCfg []).frDen : Int) ≤
      ((shippedCfg []).frNum : Int) * 10 ^ (shippedCfg []).maxTrials := by
  decide

/-- **A recipe whose single-attempt success chance is at least 1/10 is never refused** with the
shipped budget. -/
theorem accept_of_tenth (tbl : ClassTable) (hpos : 0 < entropyD (shippedCfg tbl) r)
    (hle : entropyD (shippedCfg tbl) r ≤ total (shippedCfg tbl) r)
    (h10 : total (shippedCfg tbl) r ≤ 10 * entropyD (shippedCfg tbl) r) :
    acceptable (shippedCfg tbl) r = true := by
  rw [acceptable_iff]
  refine ⟨hpos, ?_⟩
  generalize entropyD (shippedCfg tbl) r = c at *
  generalize total (shippedCfg tbl) r = M at *
  have hT : (shippedCfg tbl).maxTrials = (shippedCfg []).maxTrials := rfl
  have hD : (shippedCfg tbl).frDen = (shippedCfg []).frDen := rfl
  have hN : (shippedCfg tbl).frNum = (shippedCfg []).frNum := rfl
  rw [hT, hD, hN]
  generalize hTe : (shippedCfg []).maxTrials = T at *
  have hK := budget_fact
  rw [hTe] at hK
  have hden : 0 ≤ ((shippedCfg []).frDen : Int) := Int.natCast_nonneg _
  generalize ((shippedCfg []).frDen : Int) = den at *
  generalize ((shippedCfg []).frNum : Int) = num at *
  have ha : 0 ≤ M - c := by omega
  have h1 : (10 * (M - c)) ^ T ≤ (9 * M) ^ T := int_pow_le_pow_left (by omega) (by omega) T
  rw [Int.mul_pow, Int.mul_pow] at h1
  have hM : 0 ≤ M ^ T := Int.pow_nonneg (by omega)
  have h10pos : (0 : Int) < 10 ^ T := Int.pow_pos (by omega)
  apply Int.le_of_mul_le_mul_right (a := 10 ^ T) _ h10pos
  calc (M - c) ^ T * den * 10 ^ T = den * (10 ^ T * (M - c) ^ T) := by ac_rfl
    _ ≤ den * (9 ^ T * M ^ T) := Int.mul_le_mul_of_nonneg_left h1 hden
    _ = (9 ^ T * den) * M ^ T := by ac_rfl
    _ ≤ (num * 10 ^ T) * M ^ T := Int.mul_le_mul_of_nonneg_right hK hM
    _ = num * M ^ T * 10 ^ T := by ac_rfl

/-! ### Wordlist recipes -/

/-- **Wordlist error iff**: missing list, empty list, or non-positive length — and in every
other case a password is returned on every stream. -/
theorem wl_generate_cases (title : Word → Word) (w : WLRecipe) :
    (w.list = none → WLRecipe.generate cfg title w = .pure (.err .noList)) ∧
    (∀ wl, w.list = some wl → wl.words = [] → WLRecipe.generate cfg title w = .pure (.err .noList)) ∧
    (∀ wl, w.list = some wl → wl.words ≠ [] → w.length < 1 →
        WLRecipe.generate cfg title w = .pure (.err .length)) ∧
    (∀ wl, w.list = some wl → wl.words ≠ [] → 1 ≤ w.length →
        Rand.All (fun res => ∃ p, res = Res.ok p) (WLRecipe.generate cfg title w)) := by
  refine ⟨?_, ?_, ?_, ?_⟩
  · intro h; simp [WLRecipe.generate, h]
  · intro wl h he; simp [WLRecipe.generate, h, he]
  · intro wl h hne hl
    have : wl.words.isEmpty = false := by cases hh : wl.words <;> simp_all
    simp [WLRecipe.generate, h, this, hl]
  · intro wl h hne hl
    have : wl.words.isEmpty = false := by cases hh : wl.words <;> simp_all
    simp only [WLRecipe.generate, h, this, Bool.false_eq_true, if_false]
    rw [if_neg (by omega)]
    apply Rand.All_bind_true; intro caps
    apply Rand.All_bind_true; intro toks
    apply Rand.All_bind_true; intro d
    exact ⟨_, rfl⟩

/-- The separator function never draws over zero alternatives either. -/
theorem sepCall_noZero (s : Sep) : NoZero (s.call cfg) := by
  cases s with
  | char c => simp [Sep.call, NoZero]
  | const c => simp [Sep.call, NoZero]
  | recipe cr =>
    simp only [Sep.call]
    apply NoZero_bind
    · intro res; cases res <;> simp [NoZero]
    · exact genChars_noZero cfg cr
  | custom f o d => exact ⟨by omega, fun _ _ => by simp [NoZero]⟩

theorem body_noZero (title : Word → Word) (w : WLRecipe) (words : List Word) (hw : words ≠ [])
    (caps : Nat → Bool) (L : Nat) : ∀ (n i : Nat), NoZero (WLRecipe.body cfg title w words caps L i n)
  | 0, i => by simp [WLRecipe.body, NoZero]
  | n + 1, i => by
    unfold WLRecipe.body
    refine ⟨by cases words <;> simp_all, ?_⟩
    intro j _
    simp only
    split
    · apply NoZero_bind
      · rintro ⟨s, d⟩
        apply NoZero_bind
        · intro rest; simp [NoZero]
        · exact body_noZero title w words hw caps L n (i + 1)
      · exact sepCall_noZero cfg w.sep
    · apply NoZero_bind
      · intro rest; simp [NoZero]
      · exact body_noZero title w words hw caps L n (i + 1)

/-- **`WLRecipe.Generate` never panics on `randomUint32n(0)`**, for any recipe at all: missing
list, empty list, any length, any scheme string, any separator — every bounded draw it makes
(the position under 'one', the coins, the words, the separator's characters) has at least one
alternative. Together with `run_noZero`: the only way a run ends without a result is a failed
read of the random source. -/
theorem wl_generate_noZero (title : Word → Word) (w : WLRecipe) : NoZero (WLRecipe.generate cfg title w) := by
  unfold WLRecipe.generate
  cases hl : w.list with
  | none => simp [NoZero]
  | some wl =>
    simp only
    split
    · simp [NoZero]
    · rename_i hne
      split
      · simp [NoZero]
      · rename_i hL
        have hw : wl.words ≠ [] := by intro h; simp [h] at hne
        have hLpos : 0 < w.length.toNat := by omega
        apply NoZero_bind
        · intro caps
          apply NoZero_bind
          · intro toks
            apply NoZero_bind
            · intro d; simp [NoZero]
            · unfold WLRecipe.entropy
              split
              · simp [NoZero]
              · apply NoZero_bind
                · intro p; simp [NoZero]
                · exact sepCall_noZero cfg _
          · exact body_noZero cfg title w wl.words hw caps _ _ _
        · unfold WLRecipe.capChoice
          split
          · simp [NoZero]
          · split
            · exact ⟨hLpos, fun _ _ => by simp [NoZero]⟩
            · split
              · apply NoZero_bind
                · intro bits; simp [NoZero]
                · exact drawMany_noZero 2 (by omega) _
              · split <;> simp [NoZero]

/-! ### Non-vacuity and the repaired defects -/

/-- A zero-valued recipe and a recipe without a list give errors, not panics. -/
example :
    let cfg : Cfg := shippedCfg []
    (match (genChars cfg default).run [1, 2, 3] with | .done (.err .length) _ => true | _ => false) = true ∧
    (match (WLRecipe.generate cfg id { list := none, length := 3, sepChar := [], capitalize := "" }).run [1]
      with | .done (.err .noList) _ => true | _ => false) = true := by
  decide

/-- A recipe meeting the hypotheses of `accept_of_tenth` (8 letters-or-digits, a digit required:
about 0.75 of all candidates qualify). -/
example :
    let tbl : ClassTable := [(1, [65, 66, 67]), (4, [48, 49, 50])]
    let r : CharRecipe := { length := 4, allow := 1, require := 4, exclude := 0,
                            allowChars := [], requireSets := [], excludeChars := [] }
    0 < entropyD (shippedCfg tbl) r ∧ entropyD (shippedCfg tbl) r ≤ total (shippedCfg tbl) r ∧
      total (shippedCfg tbl) r ≤ 10 * entropyD (shippedCfg tbl) r := by
  decide

end Spg.C13
