/-
  C07b — C07 read in bits. C07 proves that the integer `D` whose base-2 logarithm a character
  recipe reports is the exact number of strings the recipe can return (`entropyD_eq_card`). Here
  the same statement for the real number of bits `bits D = Real.logb 2 D` (C06d): the exact
  entropy is `log2 #{valid strings}`, two recipes report the same bits iff they admit equally
  many strings, and admitting strictly more strings means strictly more bits. The rounding of
  that real number to `float32` is not modelled (the harness compares numerically).
-/
import SpgProofs.Properties.C06d

namespace Spg.C07b
open Spg C06 C06d

variable (cfg : Cfg) (r : CharRecipe)

/-- The set of strings the recipe can return, counted. -/
def card : Nat :=
  ((strings (r.alphabet cfg.tbl) r.length.toNat).filter fun s => r.passes cfg.tbl s).length

/-- **The exact entropy is `log2` of the number of valid strings.** -/
theorem bits_eq_log_card : bits (V cfg r) = Real.logb 2 (card cfg r : ℝ) := by
  unfold bits card
  rw [V_eq_card]
  push_cast
  rfl

/-- `logb 2` is injective and strictly monotone on positive counts. -/
theorem bits_lt_bits {D D' : ℚ} (hD : 0 < D) (h : D < D') : bits D < bits D' := by
  have hD' : (0 : ℝ) < (D : ℝ) := by exact_mod_cast hD
  have hlt : (D : ℝ) < (D' : ℝ) := by exact_mod_cast h
  exact Real.logb_lt_logb (by norm_num) hD' hlt

theorem bits_inj {D D' : ℚ} (hD : 0 < D) (hD' : 0 < D') (h : bits D = bits D') : D = D' := by
  rcases lt_trichotomy D D' with hlt | heq | hgt
  · exact absurd h (ne_of_lt (bits_lt_bits hD hlt))
  · exact heq
  · exact absurd h.symm (ne_of_lt (bits_lt_bits hD' hgt))

/-- Two acceptable recipes report the same exact bits iff they admit equally many strings. -/
theorem same_bits_iff_same_card (r' : CharRecipe) (hacc : r.acceptable cfg = true)
    (hacc' : r'.acceptable cfg = true) :
    bits (V cfg r) = bits (V cfg r') ↔ card cfg r = card cfg r' := by
  constructor
  · intro h
    have hV := bits_inj (V_pos cfg r hacc) (V_pos cfg r' hacc') h
    rw [V_eq_card, V_eq_card] at hV
    unfold card
    exact_mod_cast hV
  · intro h
    rw [bits_eq_log_card, bits_eq_log_card, h]

/-- Admitting strictly more strings means strictly more bits. -/
theorem more_strings_more_bits (r' : CharRecipe) (hacc : r.acceptable cfg = true)
    (h : card cfg r < card cfg r') : bits (V cfg r) < bits (V cfg r') := by
  apply bits_lt_bits (V_pos cfg r hacc)
  rw [V_eq_card, V_eq_card]
  unfold card at h
  exact_mod_cast h

end Spg.C07b
