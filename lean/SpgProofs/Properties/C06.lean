/-
  C06 — No password is likelier than 2^-Entropy; equality where generation is uniform; the
  Password carries the recipe's entropy.

  The model represents the entropy a recipe reports by the integer `D` with `Entropy = log2 D`,
  so "probability ≤ 2^-Entropy" reads "probability ≤ 1/D". Probabilities are exact rationals in
  the expectation semantics `Rand.E` / `Rand.prob` (every bounded draw uniform, draws
  independent — C01).

  What is proved, in plain words.

  Character recipes (a recipe that gets past the pre-flight checks; `V = entropyD` is the number
  of valid strings by C07, `M = N^L`, `q = (M-V)/M`, `T = MaxTrials`):
  * `char_prob_exact`: every valid string is returned with probability exactly `(1 - q^T)/V`;
  * `char_prob_gaveUp`, `char_prob_given_success`: the generator gives up with probability `q^T`,
    so `1 - q^T` is the probability of returning anything, and given success every valid string
    has probability exactly `1/V = 2^-Entropy` (the bound is met with equality up to the
    give-up probability, which the pre-flight test keeps below `MaxFailRate`);
  * `char_maxprob`: EVERY string, valid or not, has probability at most `1/V`;
  * `char_entropy_field`: on every random stream a returned Password has `entD = entropyD`.

  Wordlist recipes with a CONSTANT separator (`SeparatorFunc == nil` or a constant function),
  `size` words, `L` of them per password. Premises (`ListOK`): the list has no duplicates
  (C10), no word is or becomes empty under `title` (premise of C05), `title` is injective on the
  list.
  * `wl_entropy_const`, `wl_entropy_field`: `Entropy()` is `D = size^L · capFactor` without any
    draw, and every returned Password carries that `D`;
  * `assemble_words_injective`: for a fixed capitalisation the token sequence determines the
    tuple of word indices; `assemble_pair_injective`: if moreover no title-cased word equals a
    list word, it also determines which of the `L` positions were capitalised;
  * `choices_assemble_exact` / `choices_assemble_le`: given the capitalisation, each producible
    token sequence has probability exactly `1/size^L`, every other one probability 0;
  * `wl_maxprob_nocapbonus`: for every scheme, every token sequence has probability `≤ 1/size^L`;
    this is `≤ 1/D` whenever the recipe claims no capitalisation bonus;
  * `wl_maxprob_random`, `wl_maxprob_one`: if every title-cased word differs from every list
    word (in particular every word changes under `title`), then under 'random' (resp. 'one')
    every token sequence has probability `≤ 1/(size^L · 2^L)` (resp. `≤ 1/(size^L · L)`);
  * `wl_maxprob`: the three combined against the `D` the recipe reports: probability
    `≤ 1/(size^L · capFactor)`, the distinguishability premise being required only when
    `capFactor ≠ 1`;
  * equality: `wl_prob_exact_fixed` (schemes without a random choice: each of the `size^L`
    passwords has probability exactly `1/size^L`), `wl_prob_exact_one`, `wl_prob_exact_random`
    (each of the `size^L · L`, resp. `size^L · 2^L` passwords has probability exactly
    `1/(size^L · L)`, resp. `1/(size^L · 2^L)`).

  Known finding D9, kept as a theorem: `wl_maxprob_counterexample`. With a separator built from a
  recipe WITH requirements (`NewSFFunction`) the bound fails: a failed separator generation
  becomes an empty separator with "0 bits", and `Entropy()` uses a single sample of the separator
  function for all gaps. In the example the recipe reports `D = 20` with probability 5/9, yet one
  particular password is returned — together with that very claim — with probability
  `5/81 > 1/20` (and has probability `1/9` overall).

  What is left out.
  * Separator functions built from a recipe (`Sep.recipe`) are covered only by the
    counterexample. For a separator recipe without effective requirements generation cannot fail
    (C08.genChars_infallible) and one expects `1/(size^L · capFactor · D_sep^(L-1))`; that is
    not proved here.
  * The relation between `allCap` (`unCap = 0`, which switches the capitalisation bonus on) and
    the premise "`title w ≠ w` for every word" is the content of C08 (`allCap_iff`) for lists
    built by `NewWordList`; here the premise is stated directly on the list. That no kept word
    is the title form of another kept word is what the twin-removal pass of `NewWordList`
    establishes (C10) for idempotent `title`.
  * `title`-injectivity on the list is a genuine extra premise (two different lower-case words
    never have the same title form for the real `strings.Title`, but `title` is a parameter).
-/
import SpgProofs.Lemmas.ProbWL
import SpgProofs.Properties.C02
import SpgProofs.Properties.C04
import SpgProofs.Properties.C10
import SpgProofs.Properties.C07
import SpgProofs.Properties.C08
import SpgProofs.Properties.C13
namespace Spg.C06
open Spg Rand

/-! ## Character recipes -/
section Char
open CharRecipe
variable (cfg : Cfg) (r : CharRecipe)

/-- The event "`Generate` returned exactly the characters `s`". -/
def returns (s : List Nat) : Res (List Nat) → Bool
  | .ok cs => cs == s
  | .err _ => false

/-- `V`: the integer whose log2 the recipe reports as its entropy, as a rational. By C07 it is
the number of valid strings (`V_eq_card`). -/
def V : ℚ := ((r.entropyD cfg : Int) : ℚ)

/-- `M = N^L`: the number of unconstrained candidates. -/
def M : ℚ := ((r.total cfg : Int) : ℚ)

/-- `q = (M - V)/M`: the probability that one candidate is rejected. -/
def q : ℚ := (M cfg r - V cfg r) / M cfg r

theorem V_eq_card :
    V cfg r = (((strings (r.alphabet cfg.tbl) r.length.toNat).filter
      fun s => r.passes cfg.tbl s).length : ℚ) := by
  unfold V
  rw [C07.entropyD_eq_card]
  push_cast
  rfl

theorem M_eq : M cfg r = ((r.alphabet cfg.tbl).length : ℚ) ^ r.length.toNat := by
  unfold M CharRecipe.total CharRecipe.size
  push_cast
  rfl

theorem V_pos (hacc : r.acceptable cfg = true) : 0 < V cfg r := by
  unfold V
  exact_mod_cast ((C13.acceptable_iff cfg r).mp hacc).1

theorem V_le_M : V cfg r ≤ M cfg r := by
  unfold V M
  exact_mod_cast C13.entropyD_le_total cfg r

theorem q_nonneg (hacc : r.acceptable cfg = true) : 0 ≤ q cfg r := by
  unfold q
  have h1 := V_pos cfg r hacc
  have h2 := V_le_M cfg r
  apply div_nonneg <;> linarith

/-- **Exact probability of each valid string**: `(1 - q^T) / V` — the same for all of them; `V`
is the number the entropy is the logarithm of, `1 - q^T` the probability that the retry loop
does not give up. -/
theorem char_prob_exact (hL : 1 ≤ r.length) (ha : r.alphabet cfg.tbl ≠ [])
    (hacc : r.acceptable cfg = true) (s : List Nat)
    (hs : s ∈ strings (r.alphabet cfg.tbl) r.length.toNat) (hp : r.passes cfg.tbl s = true) :
    Rand.prob (genChars cfg r) (returns s) = (1 - q cfg r ^ cfg.maxTrials) / V cfg r := by
  have h02 := C02.genChars_prob_valid cfg r hL ha hacc s hs hp
  rw [← V_eq_card, ← M_eq] at h02
  refine Eq.trans (congrArg (Rand.prob (genChars cfg r)) ?_) (h02.trans ?_)
  · funext res; cases res <;> rfl
  have hV := V_pos cfg r hacc
  have hM : 0 < M cfg r := lt_of_lt_of_le hV (V_le_M cfg r)
  have hg := geom_sum_closed (q cfg r) cfg.maxTrials
  have h1q : 1 - q cfg r = V cfg r / M cfg r := by
    unfold q; field_simp; ring
  rw [h1q] at hg
  change ((List.range cfg.maxTrials).map fun t => q cfg r ^ t).sum / M cfg r = _
  rw [← hg]
  field_simp

/-- **No output is likelier than `2^-Entropy`**: every string `s`, valid or not, is returned
with probability at most `1 / V`. -/
theorem char_maxprob (hL : 1 ≤ r.length) (ha : r.alphabet cfg.tbl ≠ [])
    (hacc : r.acceptable cfg = true) (s : List Nat) :
    Rand.prob (genChars cfg r) (returns s) ≤ 1 / V cfg r := by
  have hV := V_pos cfg r hacc
  by_cases hv : s ∈ strings (r.alphabet cfg.tbl) r.length.toNat ∧ r.passes cfg.tbl s = true
  · rw [char_prob_exact cfg r hL ha hacc s hv.1 hv.2]
    apply div_le_div_of_nonneg_right _ (le_of_lt hV)
    have := pow_nonneg (q_nonneg cfg r hacc) cfg.maxTrials
    linarith
  · have hinv : s ∉ strings (r.alphabet cfg.tbl) r.length.toNat ∨ r.passes cfg.tbl s = false := by
      by_cases h1 : s ∈ strings (r.alphabet cfg.tbl) r.length.toNat
      · right
        cases hh : r.passes cfg.tbl s with
        | false => rfl
        | true => exact absurd ⟨h1, hh⟩ hv
      · left; exact h1
    have h02 := C02.genChars_prob_invalid cfg r hL ha hacc s hinv
    have : Rand.prob (genChars cfg r) (returns s) = 0 := by
      refine Eq.trans (congrArg (Rand.prob (genChars cfg r)) ?_) h02
      funext res; cases res <;> rfl
    rw [this]
    exact le_of_lt (div_pos one_pos hV)

/-- The event "`Generate` gave up after `MaxTrials` rejected candidates". -/
def gaveUp : Res (List Nat) → Bool
  | .err .exhausted => true
  | _ => false

/-- The generator gives up with probability exactly `q^T` (C02, restated with `q`). -/
theorem char_prob_gaveUp (hL : 1 ≤ r.length) (ha : r.alphabet cfg.tbl ≠ [])
    (hacc : r.acceptable cfg = true) :
    Rand.prob (genChars cfg r) gaveUp = q cfg r ^ cfg.maxTrials := by
  have h02 := C02.genChars_prob_exhausted cfg r hL ha hacc
  rw [← V_eq_card, ← M_eq] at h02
  refine Eq.trans (congrArg (Rand.prob (genChars cfg r)) ?_) h02
  funext res
  cases res with
  | ok cs => rfl
  | err e => cases e <;> rfl

/-- The probability that the generator gives up is `q^T`, so `1 - q^T` is the probability of
returning a password at all, and **conditioned on success every valid string has probability
exactly `1/V = 2^-Entropy`**: `P(s) = (1/V) · P(success)`. -/
theorem char_prob_given_success (hL : 1 ≤ r.length) (ha : r.alphabet cfg.tbl ≠ [])
    (hacc : r.acceptable cfg = true) (s : List Nat)
    (hs : s ∈ strings (r.alphabet cfg.tbl) r.length.toNat) (hp : r.passes cfg.tbl s = true) :
    Rand.prob (genChars cfg r) (returns s) =
      (1 / V cfg r) * (1 - Rand.prob (genChars cfg r) gaveUp) := by
  rw [char_prob_exact cfg r hL ha hacc s hs hp, char_prob_gaveUp cfg r hL ha hacc]
  ring

/-- **The Password carries the recipe's entropy**, on every random stream. -/
theorem char_entropy_field :
    Rand.All (fun res => ∀ p, res = Res.ok p → p.entD = r.entropyD cfg) (generate cfg r) := by
  unfold generate
  apply Rand.All_bind_true
  intro res
  cases res with
  | err e => simp [Rand.All]
  | ok cs =>
    simp only [Rand.All]
    intro p hp
    injection hp with hp
    subst hp
    rfl

/-- Non-vacuity, on the example recipe of C02 (`N = 4`, `L = 2`, `V = 12`, `M = 16`, `q = 1/4`,
`T = 5`): the valid string `"0b"` has probability `(1 - (1/4)^5)/12 = 341/4096`, below
`1/12`. -/
example :
    Rand.prob (genChars C02.exCfg C02.exR) (returns [48, 98]) = 341 / 4096 ∧
    V C02.exCfg C02.exR = 12 := by
  have hV : V C02.exCfg C02.exR = 12 := by
    have : C02.exR.entropyD C02.exCfg = 12 := by decide
    unfold V; rw [this]; norm_num
  have hM : M C02.exCfg C02.exR = 16 := by
    have : C02.exR.total C02.exCfg = 16 := by decide
    unfold M; rw [this]; norm_num
  refine ⟨?_, hV⟩
  rw [char_prob_exact C02.exCfg C02.exR (by decide) (by decide) (by decide) [48, 98]
    (by decide) (by decide)]
  unfold q
  rw [hV, hM]
  have hT : C02.exCfg.maxTrials = 5 := rfl
  rw [hT]
  norm_num

end Char

/-! ## Wordlist recipes, constant separator -/
section WL

/-- The premises on the word list: no duplicates (C10), no word that is or becomes empty
(premise of C05), and title-casing does not merge two kept words. -/
structure ListOK (title : Word → Word) (words : List Word) : Prop where
  nodup : words.Nodup
  nonempty : ∀ w ∈ words, w ≠ [] ∧ title w ≠ []
  title_inj : ∀ w₁ ∈ words, ∀ w₂ ∈ words, title w₁ = title w₂ → w₁ = w₂

/-- The choices (word index, separator) made along the loop from position `i` when the word
indices are `js` and the separator is the constant `c` (nothing after the last word). This is
the tuple of `C04.words_uniform_const_sep`. -/
def constChoices (c : Word) (L i : Nat) (js : List Nat) : List (Nat × Word) :=
  js.zipIdx.map fun (j, k) => (j, if i + k + 1 < L then c else [])

theorem constChoices_nil (c : Word) (L i : Nat) : constChoices c L i [] = [] := rfl

theorem constChoices_cons (c : Word) (L i j : Nat) (rest : List Nat) :
    constChoices c L i (j :: rest) =
      (j, if i + 1 < L then c else []) :: constChoices c L (i + 1) rest := by
  unfold constChoices
  rw [List.zipIdx_cons, List.map_cons, List.zipIdx_succ, List.map_map]
  congr 1
  apply List.map_congr_left
  rintro ⟨a, b⟩ _
  show (a, if i + (b + 1) + 1 < L then c else []) = (a, if i + 1 + b + 1 < L then c else [])
  have : i + (b + 1) + 1 = i + 1 + b + 1 := by omega
  rw [this]

/-- The word written at position `i` when index `j` is drawn. -/
def wordAt (title : Word → Word) (words : List Word) (caps : Nat → Bool) (i j : Nat) : Word :=
  if caps i then title (words.getD j []) else words.getD j []

/-- The separator tokens written after position `i`. -/
def sepToks (c : Word) (L i : Nat) : List (Token Nat) :=
  if (if i + 1 < L then c else []).isEmpty then []
  else [{ value := (if i + 1 < L then c else []), ttype := sepType }]

theorem getD_mem {words : List Word} {j : Nat} (hj : j < words.length) :
    words.getD j [] ∈ words := by
  rw [List.getD_eq_getElem?_getD, List.getElem?_eq_getElem hj]
  exact List.getElem_mem hj

theorem getD_inj {words : List Word} (hnd : words.Nodup) {j j' : Nat} (hj : j < words.length)
    (hj' : j' < words.length) (h : words.getD j [] = words.getD j' []) : j = j' := by
  rw [List.getD_eq_getElem?_getD, List.getElem?_eq_getElem hj,
    List.getD_eq_getElem?_getD, List.getElem?_eq_getElem hj'] at h
  exact (List.getElem_inj hnd).mp h

variable {title : Word → Word} {words : List Word}

theorem wordAt_ne_nil (hok : ListOK title words) (caps : Nat → Bool) (i : Nat) {j : Nat}
    (hj : j < words.length) : wordAt title words caps i j ≠ [] := by
  unfold wordAt
  split
  · exact (hok.nonempty _ (getD_mem hj)).2
  · exact (hok.nonempty _ (getD_mem hj)).1

/-- One round of the loop on a constant-separator choice tuple: the (non-empty) word as an atom,
the separator tokens, the rest. -/
theorem assemble_constChoices_cons (hok : ListOK title words) (caps : Nat → Bool) (c : Word)
    (L i : Nat) {j : Nat} (hj : j < words.length) (rest : List Nat) :
    C04.assemble title words caps i (constChoices c L i (j :: rest)) =
      { value := wordAt title words caps i j, ttype := atomType } ::
        (sepToks c L i ++ C04.assemble title words caps (i + 1) (constChoices c L (i + 1) rest)) := by
  rw [constChoices_cons]
  have hw := wordAt_ne_nil hok caps i hj
  have he : (wordAt title words caps i j).isEmpty = false := by
    cases h : wordAt title words caps i j with
    | nil => exact absurd h hw
    | cons _ _ => rfl
  unfold wordAt at he
  simp only [C04.assemble, wordAt, sepToks, he]
  rfl

/-- If two rounds wrote the same tokens, they wrote the same word and the same remainder. -/
theorem round_eq {a a' : Token Nat} {S X X' : List (Token Nat)}
    (h : a :: (S ++ X) = a' :: (S ++ X')) : a = a' ∧ X = X' := by
  injection h with h1 h2
  exact ⟨h1, List.append_cancel_left h2⟩

/-- **The word indices are determined by the password** (fixed capitalisation, constant
separator): the map from index tuples to token sequences is injective. -/
theorem assemble_words_injective (hok : ListOK title words) (caps : Nat → Bool) (c : Word) (L : Nat) :
    ∀ (js js' : List Nat) (i : Nat), js.length = js'.length →
      (∀ j ∈ js, j < words.length) → (∀ j ∈ js', j < words.length) →
      C04.assemble title words caps i (constChoices c L i js) =
        C04.assemble title words caps i (constChoices c L i js') → js = js'
  | [], [], _, _, _, _, _ => rfl
  | [], _ :: _, _, h, _, _, _ => by simp at h
  | _ :: _, [], _, h, _, _, _ => by simp at h
  | j :: rest, j' :: rest', i, hlen, hb, hb', h => by
    have hj : j < words.length := hb j List.mem_cons_self
    have hj' : j' < words.length := hb' j' List.mem_cons_self
    rw [assemble_constChoices_cons hok caps c L i hj, assemble_constChoices_cons hok caps c L i hj'] at h
    obtain ⟨h1, h2⟩ := round_eq h
    have hw : wordAt title words caps i j = wordAt title words caps i j' := by
      injection h1
    have hjj : j = j' := by
      unfold wordAt at hw
      split at hw
      · exact getD_inj hok.nodup hj hj' (hok.title_inj _ (getD_mem hj) _ (getD_mem hj') hw)
      · exact getD_inj hok.nodup hj hj' hw
    have := assemble_words_injective hok caps c L rest rest' (i + 1) (by simpa using hlen)
      (fun x hx => hb x (List.mem_cons_of_mem _ hx)) (fun x hx => hb' x (List.mem_cons_of_mem _ hx)) h2
    rw [hjj, this]

/-- **When capitalisation is visible, the password determines the capitalised positions as well
as the word indices**: if every title-cased word differs from every word of the list, two runs
that wrote the same tokens used the same indices and agree on which positions were
capitalised. -/
theorem assemble_pair_injective (hok : ListOK title words)
    (hvis : ∀ w₁ ∈ words, ∀ w₂ ∈ words, title w₁ ≠ w₂) (caps caps' : Nat → Bool) (c : Word) (L : Nat) :
    ∀ (js js' : List Nat) (i : Nat), js.length = js'.length →
      (∀ j ∈ js, j < words.length) → (∀ j ∈ js', j < words.length) →
      C04.assemble title words caps i (constChoices c L i js) =
        C04.assemble title words caps' i (constChoices c L i js') →
      js = js' ∧ ∀ k, k < js.length → caps (i + k) = caps' (i + k)
  | [], [], _, _, _, _, _ => ⟨rfl, fun k hk => by simp at hk⟩
  | [], _ :: _, _, h, _, _, _ => by simp at h
  | _ :: _, [], _, h, _, _, _ => by simp at h
  | j :: rest, j' :: rest', i, hlen, hb, hb', h => by
    have hj : j < words.length := hb j List.mem_cons_self
    have hj' : j' < words.length := hb' j' List.mem_cons_self
    rw [assemble_constChoices_cons hok caps c L i hj, assemble_constChoices_cons hok caps' c L i hj'] at h
    obtain ⟨h1, h2⟩ := round_eq h
    have hw : wordAt title words caps i j = wordAt title words caps' i j' := by
      injection h1
    have hm := getD_mem hj
    have hm' := getD_mem hj'
    have hboth : j = j' ∧ caps i = caps' i := by
      unfold wordAt at hw
      cases hc : caps i <;> cases hc' : caps' i <;> simp only [hc, hc', if_true, if_false, Bool.false_eq_true] at hw
      · exact ⟨getD_inj hok.nodup hj hj' hw, rfl⟩
      · exact absurd hw.symm (hvis _ hm' _ hm)
      · exact absurd hw (hvis _ hm _ hm')
      · exact ⟨getD_inj hok.nodup hj hj' (hok.title_inj _ hm _ hm' hw), rfl⟩
    obtain ⟨hr, hcaps⟩ := assemble_pair_injective hok hvis caps caps' c L rest rest' (i + 1)
      (by simpa using hlen)
      (fun x hx => hb x (List.mem_cons_of_mem _ hx)) (fun x hx => hb' x (List.mem_cons_of_mem _ hx)) h2
    refine ⟨by rw [hboth.1, hr], ?_⟩
    intro k hk
    cases k with
    | zero => simpa using hboth.2
    | succ k =>
      have := hcaps k (by simpa using hk)
      have e : i + (k + 1) = i + 1 + k := by omega
      rw [e]; exact this

/-! ### Probabilities -/

variable (cfg : Cfg) (r : WLRecipe)

/-- The separator is a constant string: `SeparatorFunc == nil`, or a constant function. -/
def ConstSep (r : WLRecipe) (c : Word) : Prop := r.sep = .char c ∨ r.sep = .const c

theorem sepCall_const {c : Word} (h : ConstSep r c) : r.sep.call cfg = .pure (c, 1) := by
  rcases h with h | h <;> rw [h] <;> rfl

theorem sepProb_const {c : Word} (h : ConstSep r c) (s : Word) :
    C04.sepProb cfg r s = if s = c then 1 else 0 := by
  unfold C04.sepProb
  rw [sepCall_const cfg r h, E_pure]
  by_cases hs : s = c
  · subst hs; simp
  · have : ¬ c = s := fun h => hs h.symm
    simp [hs, this]

theorem constChoices_fst (c : Word) (L : Nat) : ∀ (js : List Nat) (i : Nat),
    (constChoices c L i js).map Prod.fst = js
  | [], _ => rfl
  | j :: rest, i => by
    rw [constChoices_cons, List.map_cons, constChoices_fst c L rest (i + 1)]

theorem constChoices_injective (c : Word) (L i : Nat) (js js' : List Nat)
    (h : constChoices c L i js = constChoices c L i js') : js = js' := by
  have := congrArg (List.map Prod.fst) h
  rwa [constChoices_fst, constChoices_fst] at this

/-- Support of the choices at one position. -/
theorem posChoice_support {c : Word} (h : ConstSep r c) (size L i : Nat) :
    All (fun x : Nat × Word => x.1 < size ∧ x.2 = if i + 1 < L then c else [])
      (C04.posChoice cfg r size L i) := by
  unfold C04.posChoice
  rw [sepCall_const cfg r h]
  by_cases hl : i + 1 < L
  · simp only [hl, if_true, next, Rand.bind, All]
    intro j hj
    exact ⟨hj, trivial⟩
  · simp only [hl, if_false, next, Rand.bind, All]
    intro j hj
    exact ⟨hj, trivial⟩

/-- **Support of the choice process**, constant separator: on every random stream the choices
are the tuple `constChoices c L i js` of some index tuple `js` within range. -/
theorem choices_support {c : Word} (h : ConstSep r c) (size L : Nat) : ∀ (n i : Nat),
    All (fun ch => ∃ js : List Nat, js.length = n ∧ (∀ j ∈ js, j < size) ∧ ch = constChoices c L i js)
      (C04.choices cfg r size L i n)
  | 0, i => by
    simp only [C04.choices, All]
    exact ⟨[], rfl, by simp, rfl⟩
  | n + 1, i => by
    unfold C04.choices
    apply All_bind _ _ (posChoice_support cfg r h size L i)
    rintro ⟨j, s⟩ ⟨hj, hs⟩
    apply All_bind _ _ (choices_support h size L n (i + 1))
    rintro rest ⟨js, hlen, hb, rfl⟩
    simp only [All]
    refine ⟨j :: js, by simp [hlen], ?_, ?_⟩
    · intro x hx
      rcases List.mem_cons.mp hx with rfl | hx
      · exact hj
      · exact hb x hx
    · rw [constChoices_cons]
      simp only at hs
      rw [hs]

variable {cfg r}

/-- **Each producible token sequence has conditional probability exactly `1/size^n`** given the
capitalisation: the tokens written for the index tuple `js0` are written for no other tuple. -/
theorem choices_assemble_exact (hok : ListOK title words) (hsize : 0 < words.length) {c : Word}
    (h : ConstSep r c) (caps : Nat → Bool) (L n i : Nat) (hL : i + n = L) (js0 : List Nat)
    (hlen : js0.length = n) (hb : ∀ j ∈ js0, j < words.length) :
    E (C04.choices cfg r words.length L i n)
        (fun ch => ind (C04.assemble title words caps i (constChoices c L i js0))
          (C04.assemble title words caps i ch)) = 1 / (words.length : ℚ) ^ n := by
  have h1 : E (C04.choices cfg r words.length L i n)
        (fun ch => ind (C04.assemble title words caps i (constChoices c L i js0))
          (C04.assemble title words caps i ch)) =
      E (C04.choices cfg r words.length L i n) (ind (constChoices c L i js0)) := by
    apply E_congr_All _ _ _ _ (choices_support cfg r h words.length L n i)
    rintro ch ⟨js, hl, hbj, rfl⟩
    by_cases hjs : js = js0
    · subst hjs; simp [ind]
    · have h2 : C04.assemble title words caps i (constChoices c L i js) ≠
          C04.assemble title words caps i (constChoices c L i js0) := fun he =>
        hjs (assemble_words_injective hok caps c L js js0 i (by rw [hl, hlen]) hbj hb he)
      have h3 : constChoices c L i js ≠ constChoices c L i js0 := fun he =>
        hjs (constChoices_injective c L i js js0 he)
      simp [ind, h2, h3]
  rw [h1]
  exact C04.words_uniform_const_sep cfg r words.length L hsize c (sepProb_const cfg r h) n i js0 hlen hb hL

/-- **Given the capitalisation, no token sequence is likelier than `1/size^n`.** -/
theorem choices_assemble_le (hok : ListOK title words) (hsize : 0 < words.length) {c : Word}
    (h : ConstSep r c) (caps : Nat → Bool) (L n i : Nat) (hL : i + n = L) (τ : List (Token Nat)) :
    E (C04.choices cfg r words.length L i n) (fun ch => ind τ (C04.assemble title words caps i ch))
      ≤ 1 / (words.length : ℚ) ^ n := by
  by_cases hex : ∃ js0 : List Nat, js0.length = n ∧ (∀ j ∈ js0, j < words.length) ∧
      C04.assemble title words caps i (constChoices c L i js0) = τ
  · obtain ⟨js0, hlen, hb, rfl⟩ := hex
    exact le_of_eq (choices_assemble_exact hok hsize h caps L n i hL js0 hlen hb)
  · have h0 : E (C04.choices cfg r words.length L i n)
        (fun ch => ind τ (C04.assemble title words caps i ch)) = 0 := by
      apply E_zero_of_All _ _ _ (choices_support cfg r h words.length L n i)
      rintro ch ⟨js, hl, hbj, rfl⟩
      have : C04.assemble title words caps i (constChoices c L i js) ≠ τ :=
        fun he => hex ⟨js, hl, hbj, he⟩
      simp [ind, this]
    rw [h0]
    exact div_nonneg zero_le_one (pow_nonneg (Nat.cast_nonneg _) _)

/-- If a token sequence has non-zero conditional probability, some index tuple produces it. -/
theorem exists_of_choices_ne_zero {c : Word} (h : ConstSep r c) (caps : Nat → Bool) (L n i : Nat)
    (τ : List (Token Nat))
    (hne : E (C04.choices cfg r words.length L i n)
      (fun ch => ind τ (C04.assemble title words caps i ch)) ≠ 0) :
    ∃ js : List Nat, js.length = n ∧ (∀ j ∈ js, j < words.length) ∧
      C04.assemble title words caps i (constChoices c L i js) = τ := by
  obtain ⟨ch, ⟨js, hl, hb, rfl⟩, hg⟩ :=
    exists_of_E_ne_zero _ _ (choices_support cfg r h words.length L n i) hne
  refine ⟨js, hl, hb, ?_⟩
  by_contra hx
  exact hg (by simp [ind, hx])

/-! ### The generator -/

/-- Pay-off 1 on the event "`Generate` returned a password with exactly the tokens `τ`"; its
expectation is the probability of that password. -/
def retTokens (τ : List (Token Nat)) : Res Password → ℚ
  | .ok p => if p.tokens = τ then 1 else 0
  | .err _ => 0

/-- The event itself, as a Boolean predicate. -/
def returnsTokens (τ : List (Token Nat)) : Res Password → Bool
  | .ok p => decide (p.tokens = τ)
  | .err _ => false

/-- `E · (retTokens τ)` is the probability (`Rand.prob`) of the event `returnsTokens τ`. -/
theorem prob_returnsTokens (p : Rand (Res Password)) (τ : List (Token Nat)) :
    Rand.prob p (returnsTokens τ) = E p (retTokens τ) := by
  unfold Rand.prob
  apply E_congr
  intro res
  cases res with
  | ok pw => simp [returnsTokens, retTokens]
  | err e => simp [returnsTokens, retTokens]

/-- Conditional probability of the token sequence `τ` given the capitalisation choice. -/
def condProb (cfg : Cfg) (title : Word → Word) (r : WLRecipe) (words : List Word) (L : Nat)
    (caps : Nat → Bool) (τ : List (Token Nat)) : ℚ :=
  E (C04.choices cfg r words.length L 0 L) (fun ch => ind τ (C04.assemble title words caps 0 ch))

/-- **Entropy of a constant-separator recipe**: `D = size^L · capFactor`, no draw is made
(C08). -/
theorem wl_entropy_const (cfg : Cfg) (r : WLRecipe) (wl : WordList) (hl : r.list = some wl)
    {c : Word} (h : ConstSep r c) :
    WLRecipe.entropy cfg r =
      .pure (((wl.words.length : Nat) : Int) ^ r.length.toNat * WLRecipe.capFactor r r.length.toNat) := by
  rw [C08.entropy_const_sep cfg r c h]
  have : WLRecipe.size r = wl.words.length := by simp [WLRecipe.size, hl]
  rw [this]

/-- **The Password carries the recipe's entropy**, on every random stream. -/
theorem wl_entropy_field (cfg : Cfg) (title : Word → Word) (r : WLRecipe) (wl : WordList)
    (hl : r.list = some wl) {c : Word} (h : ConstSep r c) :
    Rand.All (fun res => ∀ p, res = Res.ok p →
        p.entD = ((wl.words.length : Nat) : Int) ^ r.length.toNat * WLRecipe.capFactor r r.length.toNat)
      (WLRecipe.generate cfg title r) := by
  unfold WLRecipe.generate
  rw [hl]
  simp only
  split
  · simp [Rand.All]
  split
  · simp [Rand.All]
  apply All_bind_true
  intro caps
  apply All_bind_true
  intro toks
  rw [wl_entropy_const cfg r wl hl h]
  simp only [Rand.bind, Rand.All]
  intro p hp
  injection hp with hp
  subst hp
  rfl

/-- The probability of a password is the average, over the capitalisation choice, of its
conditional probability (C04's factorisation; the entropy sample draws nothing). -/
theorem generate_prob_eq (cfg : Cfg) (title : Word → Word) (r : WLRecipe) (wl : WordList)
    (hl : r.list = some wl) (hne : wl.words ≠ []) (hL : 1 ≤ r.length) {c : Word}
    (h : ConstSep r c) (τ : List (Token Nat)) :
    E (WLRecipe.generate cfg title r) (retTokens τ) =
      E (WLRecipe.capChoice r r.length.toNat)
        (fun caps => condProb cfg title r wl.words r.length.toNat caps τ) := by
  rw [C04.generate_factors cfg title r wl hl hne hL, wl_entropy_const cfg r wl hl h]
  rfl

theorem size_pos {l : List Word} (hne : l ≠ []) : 0 < l.length :=
  List.length_pos_iff.mpr hne

/-- **No password is likelier than `1/size^L`** — the min-entropy claim of a constant-separator
recipe that reports no capitalisation bonus (`capFactor = 1`: `D = size^L`). Holds for every
capitalisation scheme. -/
theorem wl_maxprob_nocapbonus (cfg : Cfg) (title : Word → Word) (r : WLRecipe) (wl : WordList)
    (hl : r.list = some wl) (hne : wl.words ≠ []) (hL : 1 ≤ r.length) {c : Word}
    (h : ConstSep r c) (hok : ListOK title wl.words) (τ : List (Token Nat)) :
    E (WLRecipe.generate cfg title r) (retTokens τ) ≤ 1 / (wl.words.length : ℚ) ^ r.length.toNat := by
  rw [generate_prob_eq cfg title r wl hl hne hL h τ]
  apply E_le_const
  · exact div_nonneg zero_le_one (pow_nonneg (Nat.cast_nonneg _) _)
  · intro caps
    exact choices_assemble_le hok (size_pos hne) h caps _ _ 0 (by omega) τ

/-! ### Recipes that claim a capitalisation bonus -/

/-- When capitalisation is visible, two capitalisation choices under which `τ` has non-zero
conditional probability select the same positions among the `L`. -/
theorem condProb_pattern (cfg : Cfg) (title : Word → Word) (r : WLRecipe) (words : List Word)
    (hok : ListOK title words) (hvis : ∀ w₁ ∈ words, ∀ w₂ ∈ words, title w₁ ≠ w₂) {c : Word}
    (h : ConstSep r c) (L : Nat) (caps caps' : Nat → Bool) (τ : List (Token Nat))
    (h1 : condProb cfg title r words L caps τ ≠ 0) (h2 : condProb cfg title r words L caps' τ ≠ 0) :
    C04.pattern L caps = C04.pattern L caps' := by
  obtain ⟨js, hl, hb, he⟩ := exists_of_choices_ne_zero h caps L L 0 τ h1
  obtain ⟨js', hl', hb', he'⟩ := exists_of_choices_ne_zero h caps' L L 0 τ h2
  obtain ⟨_, hcaps⟩ := assemble_pair_injective hok hvis caps caps' c L js js' 0 (by rw [hl, hl'])
    hb hb' (he.trans he'.symm)
  unfold C04.pattern
  apply List.map_congr_left
  intro k hk
  have := hcaps k (by rw [hl]; exact List.mem_range.mp hk)
  simpa using this

theorem condProb_le (cfg : Cfg) (title : Word → Word) (r : WLRecipe) (words : List Word)
    (hok : ListOK title words) (hne : words ≠ []) {c : Word} (h : ConstSep r c) (L : Nat)
    (caps : Nat → Bool) (τ : List (Token Nat)) :
    condProb cfg title r words L caps τ ≤ 1 / (words.length : ℚ) ^ L :=
  choices_assemble_le hok (size_pos hne) h caps L L 0 (by omega) τ

theorem one_pattern_inj (L w w' : Nat) (hw' : w' < L)
    (hp : C04.pattern L (fun i => i == w') = C04.pattern L (fun i => i == w)) : w' = w := by
  have := congrArg (fun l => l[w']?) hp
  simp [C04.pattern, hw'] at this
  exact this

theorem bits_inj : ∀ (bits bits' : List Nat), (∀ b ∈ bits, b < 2) → (∀ b ∈ bits', b < 2) →
    bits.map (· == 1) = bits'.map (· == 1) → bits = bits'
  | [], [], _, _, _ => rfl
  | [], _ :: _, _, _, h => by simp at h
  | _ :: _, [], _, _, h => by simp at h
  | b :: bs, b' :: bs', hb, hb', h => by
    simp only [List.map_cons, List.cons.injEq] at h
    have h1 : b < 2 := hb b List.mem_cons_self
    have h2 : b' < 2 := hb' b' List.mem_cons_self
    have hbb : b = b' := by
      have := h.1
      have e1 : b = 0 ∨ b = 1 := by omega
      have e2 : b' = 0 ∨ b' = 1 := by omega
      rcases e1 with rfl | rfl <;> rcases e2 with rfl | rfl <;> simp at this ⊢
    rw [hbb, bits_inj bs bs' (fun x hx => hb x (List.mem_cons_of_mem _ hx))
      (fun x hx => hb' x (List.mem_cons_of_mem _ hx)) h.2]

/-- The capitalisation choice made from the coin flips `bits`. -/
def capsOfBits (bits : List Nat) : Nat → Bool := fun i => bits.getD i 0 == 1

theorem random_pattern_inj (L : Nat) (bits bits' : List Nat)
    (hb : bits ∈ strings (List.range 2) L) (hb' : bits' ∈ strings (List.range 2) L)
    (hp : C04.pattern L (capsOfBits bits) = C04.pattern L (capsOfBits bits')) : bits = bits' := by
  obtain ⟨hl, hm⟩ := mem_strings.mp hb
  obtain ⟨hl', hm'⟩ := mem_strings.mp hb'
  unfold capsOfBits at hp
  rw [C04.bits_pattern L bits hl, C04.bits_pattern L bits' hl'] at hp
  exact bits_inj bits bits' (fun b hbm => List.mem_range.mp (hm b hbm))
    (fun b hbm => List.mem_range.mp (hm' b hbm)) hp

section Bonus
variable (cfg : Cfg) (title : Word → Word) (r : WLRecipe) (wl : WordList)
  (hl : r.list = some wl) (hne : wl.words ≠ []) (hL : 1 ≤ r.length) {c : Word} (h : ConstSep r c)
  (hok : ListOK title wl.words)
  (hvis : ∀ w₁ ∈ wl.words, ∀ w₂ ∈ wl.words, title w₁ ≠ w₂)
include hl hne hL h hok hvis

/-- **'one', capitalisation visible: no password is likelier than `1/(size^L · L)`.** -/
theorem wl_maxprob_one (hcap : r.capitalize = "one") (τ : List (Token Nat)) :
    E (WLRecipe.generate cfg title r) (retTokens τ)
      ≤ 1 / ((wl.words.length : ℚ) ^ r.length.toNat * (r.length.toNat : ℚ)) := by
  rw [generate_prob_eq cfg title r wl hl hne hL h τ, C04.capChoice_eq_one r _ hcap]
  simp only [E_draw, E_pure]
  rw [← div_div]
  apply div_le_div_of_nonneg_right _ (Nat.cast_nonneg _)
  apply sum_le_of_at_most_one
    (fun w => condProb cfg title r wl.words r.length.toNat (fun i => i == w) τ) _
    (div_nonneg zero_le_one (pow_nonneg (Nat.cast_nonneg _) _)) _ List.nodup_range
  · intro w _
    exact condProb_le cfg title r wl.words hok hne h _ _ τ
  · intro w hw w' _ h1 h2
    exact one_pattern_inj _ w' w (List.mem_range.mp hw)
      (condProb_pattern cfg title r wl.words hok hvis h _ _ _ τ h1 h2)

/-- **'random', capitalisation visible: no password is likelier than `1/(size^L · 2^L)`.** -/
theorem wl_maxprob_random (hcap : r.capitalize = "random") (τ : List (Token Nat)) :
    E (WLRecipe.generate cfg title r) (retTokens τ)
      ≤ 1 / ((wl.words.length : ℚ) ^ r.length.toNat * (2 : ℚ) ^ r.length.toNat) := by
  rw [generate_prob_eq cfg title r wl hl hne hL h τ, C04.capChoice_eq_random r _ hcap, E_bind]
  simp only [E_pure]
  rw [drawMany_E 2 (by omega)]
  have htwo : ((2 : ℕ) : ℚ) = 2 := by norm_num
  rw [htwo, ← div_div]
  apply div_le_div_of_nonneg_right _ (pow_nonneg (by norm_num) _)
  apply sum_le_of_at_most_one
    (fun bits => condProb cfg title r wl.words r.length.toNat (capsOfBits bits) τ) _
    (div_nonneg zero_le_one (pow_nonneg (Nat.cast_nonneg _) _)) _
    (strings_nodup List.nodup_range _)
  · intro bits _
    exact condProb_le cfg title r wl.words hok hne h _ _ τ
  · intro bits hb bits' hb' h1 h2
    exact random_pattern_inj _ bits bits' hb hb'
      (condProb_pattern cfg title r wl.words hok hvis h _ _ _ τ h1 h2)

end Bonus

/-! ### The bound against the reported entropy, and equality where generation is uniform -/

section Combined
variable (cfg : Cfg) (title : Word → Word) (r : WLRecipe) (wl : WordList)
  (hl : r.list = some wl) (hne : wl.words ≠ []) (hL : 1 ≤ r.length) {c : Word} (h : ConstSep r c)
  (hok : ListOK title wl.words)
include hl hne hL h hok

/-- **C06 for wordlist recipes with a constant separator**: no password is likelier than
`1/D = 2^-Entropy`, `D = size^L · capFactor` being what `Entropy()` reports and the Password
carries (`wl_entropy_const`, `wl_entropy_field`). The premise that title-cased words are
distinguishable from list words is needed only when a capitalisation bonus is claimed. -/
theorem wl_maxprob
    (hvis : WLRecipe.capFactor r r.length.toNat ≠ 1 →
      (∀ w ∈ wl.words, title w ≠ w) ∧ (∀ w₁ ∈ wl.words, ∀ w₂ ∈ wl.words, title w₁ ≠ w₂))
    (τ : List (Token Nat)) :
    E (WLRecipe.generate cfg title r) (retTokens τ) ≤
      1 / (((((wl.words.length : Nat) : Int) ^ r.length.toNat *
              WLRecipe.capFactor r r.length.toNat : Int)) : ℚ) := by
  have hspec := C08.capFactor_spec r r.length.toNat
  by_cases h1 : WLRecipe.allCap r = true ∧ r.capitalize = "random"
  · rw [if_pos h1] at hspec
    by_cases htriv : WLRecipe.capFactor r r.length.toNat = 1
    · rw [htriv]; push_cast; rw [mul_one]
      exact wl_maxprob_nocapbonus cfg title r wl hl hne hL h hok τ
    · rw [hspec]; push_cast
      exact wl_maxprob_random cfg title r wl hl hne hL h hok (hvis htriv).2 h1.2 τ
  · rw [if_neg h1] at hspec
    by_cases h2 : WLRecipe.allCap r = true ∧ r.capitalize = "one"
    · rw [if_pos h2] at hspec
      by_cases htriv : WLRecipe.capFactor r r.length.toNat = 1
      · rw [htriv]; push_cast; rw [mul_one]
        exact wl_maxprob_nocapbonus cfg title r wl hl hne hL h hok τ
      · rw [hspec]; push_cast
        exact wl_maxprob_one cfg title r wl hl hne hL h hok (hvis htriv).2 h2.2 τ
    · rw [if_neg h2] at hspec
      rw [hspec]; push_cast; rw [mul_one]
      exact wl_maxprob_nocapbonus cfg title r wl hl hne hL h hok τ

/-- **Equality, schemes without a random choice** ('none', 'first', 'all', anything else): the
capitalised positions `caps` are fixed, and the password written for each of the `size^L` index
tuples has probability exactly `1/size^L`. -/
theorem wl_prob_exact_fixed (h1 : r.capitalize ≠ "one") (h2 : r.capitalize ≠ "random") :
    ∃ caps, WLRecipe.capChoice r r.length.toNat = .pure caps ∧
      ∀ js : List Nat, js.length = r.length.toNat → (∀ j ∈ js, j < wl.words.length) →
        E (WLRecipe.generate cfg title r)
            (retTokens (C04.assemble title wl.words caps 0 (constChoices c r.length.toNat 0 js)))
          = 1 / (wl.words.length : ℚ) ^ r.length.toNat := by
  obtain ⟨caps, hcaps⟩ := C04.capChoice_const r r.length.toNat h1 h2
  refine ⟨caps, hcaps, ?_⟩
  intro js hlen hb
  rw [generate_prob_eq cfg title r wl hl hne hL h, hcaps, E_pure]
  exact choices_assemble_exact hok (size_pos hne) h caps _ _ 0 (by omega) js hlen hb

variable (hvis : ∀ w₁ ∈ wl.words, ∀ w₂ ∈ wl.words, title w₁ ≠ w₂)
include hvis

/-- **Equality, 'one'** (capitalisation visible): the password written for the capitalised
position `w0` and the index tuple `js` has probability exactly `1/(size^L · L)`. -/
theorem wl_prob_exact_one (hcap : r.capitalize = "one") (w0 : Nat) (hw0 : w0 < r.length.toNat)
    (js : List Nat) (hlen : js.length = r.length.toNat) (hb : ∀ j ∈ js, j < wl.words.length) :
    E (WLRecipe.generate cfg title r)
        (retTokens (C04.assemble title wl.words (fun i => i == w0) 0
          (constChoices c r.length.toNat 0 js)))
      = 1 / ((wl.words.length : ℚ) ^ r.length.toNat * (r.length.toNat : ℚ)) := by
  have hex := choices_assemble_exact (cfg := cfg) hok (size_pos hne) h (fun i => i == w0)
    r.length.toNat r.length.toNat 0 (by omega) js hlen hb
  have hpos : (0 : ℚ) < 1 / (wl.words.length : ℚ) ^ r.length.toNat :=
    div_pos one_pos (pow_pos (by exact_mod_cast size_pos hne) _)
  rw [generate_prob_eq cfg title r wl hl hne hL h, C04.capChoice_eq_one r _ hcap]
  simp only [E_draw, E_pure]
  rw [← div_div]
  congr 1
  rw [sum_eq_single_of_mem
    (fun w => condProb cfg title r wl.words r.length.toNat (fun i => i == w) _) w0 _
    List.nodup_range (List.mem_range.mpr hw0)]
  · exact hex
  · intro w hw hne0
    by_contra hnz
    apply hne0
    refine one_pattern_inj _ w0 w (List.mem_range.mp hw)
      (condProb_pattern cfg title r wl.words hok hvis h _ _ _ _ hnz ?_)
    unfold condProb
    rw [hex]
    exact ne_of_gt hpos

/-- **Equality, 'random'** (capitalisation visible): the password written for the coin flips
`bits` and the index tuple `js` has probability exactly `1/(size^L · 2^L)`. -/
theorem wl_prob_exact_random (hcap : r.capitalize = "random") (bits : List Nat)
    (hbits : bits ∈ strings (List.range 2) r.length.toNat)
    (js : List Nat) (hlen : js.length = r.length.toNat) (hb : ∀ j ∈ js, j < wl.words.length) :
    E (WLRecipe.generate cfg title r)
        (retTokens (C04.assemble title wl.words (capsOfBits bits) 0
          (constChoices c r.length.toNat 0 js)))
      = 1 / ((wl.words.length : ℚ) ^ r.length.toNat * (2 : ℚ) ^ r.length.toNat) := by
  have hex := choices_assemble_exact (cfg := cfg) hok (size_pos hne) h (capsOfBits bits)
    r.length.toNat r.length.toNat 0 (by omega) js hlen hb
  have hpos : (0 : ℚ) < 1 / (wl.words.length : ℚ) ^ r.length.toNat :=
    div_pos one_pos (pow_pos (by exact_mod_cast size_pos hne) _)
  rw [generate_prob_eq cfg title r wl hl hne hL h, C04.capChoice_eq_random r _ hcap, E_bind]
  simp only [E_pure]
  rw [drawMany_E 2 (by omega)]
  have htwo : ((2 : ℕ) : ℚ) = 2 := by norm_num
  rw [htwo, ← div_div]
  congr 1
  refine Eq.trans (sum_eq_single_of_mem
    (fun b => condProb cfg title r wl.words r.length.toNat (capsOfBits b)
      (C04.assemble title wl.words (capsOfBits bits) 0 (constChoices c r.length.toNat 0 js)))
    bits _ (strings_nodup List.nodup_range _) hbits ?_) hex
  · intro b hbm hne0
    by_contra hnz
    apply hne0
    refine random_pattern_inj _ b bits hbm hbits
      (condProb_pattern cfg title r wl.words hok hvis h _ _ _ _ hnz ?_)
    unfold condProb
    rw [hex]
    exact ne_of_gt hpos

end Combined

end WL

/-! ## Known finding D9: a separator recipe with requirements breaks the bound

`NewSFFunction(r)` turns a failed separator generation into the empty separator with "0 bits"
(`sfWrap`), and `WLRecipe.Entropy()` samples the separator function once and uses that one
sample for all `L-1` gaps. The example: two words `x`, `y`, `Length = 2`, no capitalisation;
the separator recipe draws 2 characters from `{a,b,c}`, requires an `a`, and has a single
attempt (`MaxTrials = 1`, `MaxFailRate = 1/2`): 5 of the 9 candidates are valid, so it is accepted
by the pre-flight test, reports `D_sep = 5`, and fails with probability `4/9 > 1/5`.
The password "xx" (both words `x`, the separator generation failed, so no separator token) has
probability `1/2 · 4/9 · 1/2 = 1/9`. With probability `5/9` the entropy sample succeeds and the
recipe reports `D = 2^2 · 5 = 20`, i.e. claims that no password is likelier than `1/20`. Even
the joint event "returned xx AND reported D = 20" has probability `1/9 · 5/9 = 5/81 > 1/20`.
The model mirrors the code; this is a documented finding, not something to repair here. -/
section Counterexample

/-- With nothing capitalised the loop does not look at `title`. -/
theorem body_nocaps_title (cfg : Cfg) (r : WLRecipe) (words : List Word) (L : Nat)
    (title title' : Word → Word) : ∀ (n i : Nat),
    WLRecipe.body cfg title r words (fun _ => false) L i n =
      WLRecipe.body cfg title' r words (fun _ => false) L i n
  | 0, _ => rfl
  | n + 1, i => by
    unfold WLRecipe.body
    simp only [Bool.false_eq_true, if_false]
    rw [body_nocaps_title cfg r words L title title' n (i + 1)]

def cexCfg : Cfg := { tbl := [], maxTrials := 1, frNum := 1, frDen := 2 }

/-- The separator recipe: 2 characters from `{a,b,c}`, an `a` required. -/
def cexSep : CharRecipe :=
  { length := 2, allow := 0, require := 0, exclude := 0,
    allowChars := [98, 99], requireSets := [[97]], excludeChars := [] }

/-- Words `x`, `y`; two words; separator from `cexSep`; no capitalisation. -/
def cexR : WLRecipe :=
  { list := some { words := [[120], [121]], unCap := 0 }, length := 2,
    sepFunc := some (.recipe cexSep), capitalize := "none" }

/-- The password "xx": the word `x` twice and no separator token. -/
def cexTok : List (Token Nat) :=
  [{ value := [120], ttype := atomType }, { value := [120], ttype := atomType }]

/-- Pay-off 1 on "returned a password with tokens `τ` that carries entropy `log2 D`". -/
def retWith (τ : List (Token Nat)) (D : Int) : Res Password → ℚ
  | .ok p => if p.tokens = τ ∧ p.entD = D then 1 else 0
  | .err _ => 0

/-- The separator recipe is legitimate: alphabet `{a,b,c}`, accepted by the pre-flight test,
`D_sep = 5` of `M = 9` candidates valid. All other premises of `wl_maxprob` hold for the list. -/
theorem cex_premises :
    cexSep.alphabet cexCfg.tbl = [97, 98, 99] ∧ cexSep.acceptable cexCfg = true ∧
    cexSep.entropyD cexCfg = 5 ∧ cexSep.total cexCfg = 9 ∧
    WLRecipe.capFactor cexR 2 = 1 := by
  decide

theorem cex_listOK (title : Word → Word) (h : ∀ w ∈ [[120], [121]], title w ≠ [])
    (hinj : title [120] ≠ title [121]) : ListOK title [[120], [121]] := by
  refine ⟨by decide, ?_, ?_⟩
  · intro w hw
    refine ⟨?_, h w hw⟩
    rcases List.mem_cons.mp hw with rfl | hw
    · decide
    · rcases List.mem_cons.mp hw with rfl | hw
      · decide
      · cases hw
  · intro w₁ h₁ w₂ h₂ ht
    simp only [List.mem_cons, List.not_mem_nil, or_false] at h₁ h₂
    rcases h₁ with rfl | rfl <;> rcases h₂ with rfl | rfl
    · rfl
    · exact absurd ht hinj
    · exact absurd ht.symm hinj
    · rfl

/-- A scheme that capitalises nothing makes the generator independent of `title`. -/
theorem generate_nocaps_title (cfg : Cfg) (r : WLRecipe) (title title' : Word → Word)
    (hc : ∀ L, WLRecipe.capChoice r L = .pure fun _ => false) :
    WLRecipe.generate cfg title r = WLRecipe.generate cfg title' r := by
  unfold WLRecipe.generate
  cases r.list with
  | none => rfl
  | some wl =>
    simp only
    split
    · rfl
    split
    · rfl
    rw [hc]
    simp only [Rand.bind]
    rw [body_nocaps_title cfg r wl.words _ title title']

theorem cex_generate_title (title : Word → Word) :
    WLRecipe.generate cexCfg title cexR = WLRecipe.generate cexCfg id cexR := by
  apply generate_nocaps_title
  intro L
  unfold WLRecipe.capChoice
  have e1 : (cexR.capitalize == "first") = false := by decide
  have e2 : (cexR.capitalize == "one") = false := by decide
  have e3 : (cexR.capitalize == "random") = false := by decide
  have e4 : (cexR.capitalize == "all") = false := by decide
  simp only [e1, e2, e3, e4, Bool.false_eq_true, if_false]

/-- What the recipe can report: `D = 20` (sample succeeded) or `D = 4` (sample failed). -/
theorem cex_entropy_values :
    Rand.All (fun d => d = 20 ∨ d = 4) (WLRecipe.entropy cexCfg cexR) := by
  rw [C08.entropy_recipe_sep cexCfg cexR cexSep rfl]
  apply Rand.All_bind _ _ (C08.sepCall_values cexCfg cexSep)
  rintro p (hp | hp)
  · left
    show _ = _
    rw [hp]
    decide
  · right
    show _ = _
    rw [hp]
    decide

/-- The entropy sample succeeds — and `D = 20` is reported — with probability `5/9`. -/
theorem cex_entropy_prob : E (WLRecipe.entropy cexCfg cexR) (ind 20) = 5 / 9 := by
  decide +kernel

/-- The password "xx" has probability `1/9`. -/
theorem cex_prob (title : Word → Word) :
    E (WLRecipe.generate cexCfg title cexR) (retTokens cexTok) = 1 / 9 := by
  rw [cex_generate_title]
  decide +kernel

/-- It is returned together with the claim `D = 20` with probability `5/81`. -/
theorem cex_joint_prob (title : Word → Word) :
    E (WLRecipe.generate cexCfg title cexR) (retWith cexTok 20) = 5 / 81 := by
  rw [cex_generate_title]
  decide +kernel

/-- **Counterexample to the min-entropy claim for separator recipes with requirements**: the
password "xx" is returned carrying `Entropy = log2 20` with probability strictly greater than
`1/20 = 2^-Entropy` (a fortiori its probability `1/9` exceeds `1/20`). -/
theorem wl_maxprob_counterexample (title : Word → Word) :
    (1 : ℚ) / 20 < E (WLRecipe.generate cexCfg title cexR) (retWith cexTok 20) ∧
    (1 : ℚ) / 20 < E (WLRecipe.generate cexCfg title cexR) (retTokens cexTok) := by
  rw [cex_joint_prob, cex_prob]
  constructor <;> norm_num

end Counterexample

/-! ## Non-vacuity

A concrete list (`ab`, `c`, `de`), a concrete title function (upper-case the first letter when it
is `a`–`z`), separator `-`, three words, scheme 'random': all premises of `wl_maxprob_nocapbonus`,
`wl_maxprob_random` and `wl_maxprob` hold; `D = 3^3 · 2^3 = 216`; and the password `Ab-c-de` has
probability exactly `1/216`. -/
section Example

def exTitle : Word → Word
  | [] => []
  | c :: cs => (if 97 ≤ c ∧ c ≤ 122 then c - 32 else c) :: cs

def exWords : List Word := [[97, 98], [99], [100, 101]]

def exR : WLRecipe :=
  { list := some { words := exWords, unCap := 0 }, length := 3, sepFunc := some (.const [45]),
    capitalize := "random" }

/-- The premises of `wl_maxprob_nocapbonus`. -/
example : exWords.Nodup ∧ (∀ w ∈ exWords, w ≠ [] ∧ exTitle w ≠ []) ∧
    (∀ w₁ ∈ exWords, ∀ w₂ ∈ exWords, exTitle w₁ = exTitle w₂ → w₁ = w₂) := by decide

theorem ex_listOK : ListOK exTitle exWords := ⟨by decide, by decide, by decide⟩

/-- The additional premises of the capitalisation-bonus bounds. -/
theorem ex_visible : (∀ w ∈ exWords, exTitle w ≠ w) ∧
    (∀ w₁ ∈ exWords, ∀ w₂ ∈ exWords, exTitle w₁ ≠ w₂) := by decide

example : exR.list = some { words := exWords, unCap := 0 } ∧ exWords ≠ [] ∧ 1 ≤ exR.length ∧
    ConstSep exR [45] ∧
    ((exWords.length : Nat) : Int) ^ exR.length.toNat * WLRecipe.capFactor exR exR.length.toNat = 216 :=
  ⟨rfl, by decide, by decide, Or.inr rfl, by decide⟩

/-- No password of the example recipe is likelier than `1/216`. -/
example (cfg : Cfg) (τ : List (Token Nat)) :
    E (WLRecipe.generate cfg exTitle exR) (retTokens τ) ≤ 1 / 216 := by
  have := wl_maxprob cfg exTitle exR { words := exWords, unCap := 0 } rfl (by decide) (by decide)
    (c := [45]) (Or.inr rfl) ex_listOK (fun _ => ex_visible) τ
  have hD : ((exWords.length : Nat) : Int) ^ exR.length.toNat *
      WLRecipe.capFactor exR exR.length.toNat = 216 := by decide
  simp only [] at this
  rw [hD] at this
  have e : (((216 : Int)) : ℚ) = 216 := by norm_num
  rw [e] at this
  exact this

/-- `Ab-c-de` is returned with probability exactly `1/216`. -/
example (cfg : Cfg) :
    E (WLRecipe.generate cfg exTitle exR)
      (retTokens [{ value := [65, 98], ttype := atomType }, { value := [45], ttype := sepType },
                  { value := [99], ttype := atomType }, { value := [45], ttype := sepType },
                  { value := [100, 101], ttype := atomType }]) = 1 / 216 := by
  have := wl_prob_exact_random cfg exTitle exR { words := exWords, unCap := 0 } rfl (by decide)
    (by decide) (c := [45]) (Or.inr rfl) ex_listOK ex_visible.2 rfl [1, 0, 0] (by decide)
    [0, 1, 2] (by decide) (by decide)
  have hτ : C04.assemble exTitle exWords (capsOfBits [1, 0, 0]) 0
      (constChoices [45] exR.length.toNat 0 [0, 1, 2]) =
      [{ value := [65, 98], ttype := atomType }, { value := [45], ttype := sepType },
       { value := [99], ttype := atomType }, { value := [45], ttype := sepType },
       { value := [100, 101], ttype := atomType }] := by decide
  simp only [] at this
  rw [hτ] at this
  rw [this]
  have h3 : exR.length.toNat = 3 := by decide
  have hs : exWords.length = 3 := by decide
  rw [h3, hs]
  norm_num

end Example

/-! ### Composition with C08 and C10: the bound for a list as `NewWordList` builds it -/
section Composition

/-- **C06 for wordlist recipes, end to end (constant separator).** Take any input list, any
visiting order of the map that reaches every word, and an idempotent `title`; let `wl` be what
`NewWordList` keeps (C10). Under the property's premise (title-casing is injective on the kept
words) and with no word empty or emptied by title-casing, every token sequence is returned with
probability at most `1/D`, where `D = size^L · capFactor` is exactly what `Entropy()` reports and
every returned Password carries — the capitalisation bonus being claimed only when every kept
word changes under title-casing (C08), which together with the normalisation invariant (C10) is
what makes capitalised words distinguishable from list words. -/
theorem wl_maxprob_of_newWordList (cfg : Cfg) (title : Word → Word) (hid : ∀ w, title (title w) = title w)
    (input order : List Word) (hcover : ∀ w ∈ input, w ∈ order) (wl : WordList) (d : Nat)
    (hnew : newWordListOrd title input order = some (wl, d))
    (r : WLRecipe) (hl : r.list = some wl) (hne : wl.words ≠ []) (hL : 1 ≤ r.length)
    (c : Word) (h : ConstSep r c)
    (hnonempty : ∀ w ∈ wl.words, w ≠ [] ∧ title w ≠ [])
    (hinj : ∀ w₁ ∈ wl.words, ∀ w₂ ∈ wl.words, title w₁ = title w₂ → w₁ = w₂)
    (τ : List (Token Nat)) :
    E (WLRecipe.generate cfg title r) (retTokens τ) ≤
      1 / (((((wl.words.length : Nat) : Int) ^ r.length.toNat *
              WLRecipe.capFactor r r.length.toNat : Int)) : ℚ) := by
  have hok : ListOK title wl.words :=
    ⟨C10.kept_nodup title input order wl d hnew, hnonempty, hinj⟩
  apply wl_maxprob cfg title r wl hl hne hL h hok
  intro hcf
  -- a bonus is claimed only when every kept word is capitalisable
  have hall : WLRecipe.allCap r = true := by
    cases hA : WLRecipe.allCap r with
    | true => rfl
    | false => exfalso; apply hcf; simp [WLRecipe.capFactor, hA]
  have hun : wl.unCap = 0 := by
    simp only [WLRecipe.allCap, hl] at hall
    simpa using hall
  have hchg : ∀ w ∈ wl.words, title w ≠ w := (C08.allCap_iff title input order wl d hnew).mp hun
  refine ⟨hchg, ?_⟩
  intro w₁ h₁ w₂ h₂ heq
  by_cases hw : w₁ = w₂
  · subst hw; exact hchg w₁ h₁ heq
  · -- w₂ would be the title-cased form of another listed word: NewWordList drops it
    have hk₁ := (C10.kept_spec title hid input order hcover wl d hnew w₁).mp h₁
    have hk₂ := (C10.kept_spec title hid input order hcover wl d hnew w₂).mp h₂
    exact hk₂.2 ⟨w₁, hk₁.1, hw, heq⟩

end Composition

end Spg.C06
