/-
  C11 (continued) — "in particular every password generated from words and separators of that
  size": the round trip composed with the generators themselves.

  `roundtrip` (C11.lean) is about arbitrary token sequences whose tokens are 1..255 characters
  long. Here the hypothesis is discharged for what `Generate` actually returns:

  * a character recipe: on every random stream a returned password is a non-empty sequence of
    single-character atoms, its index is the one byte `[0]`, and tokenizing `String()` with it
    gives the same tokens back (`char_generated_roundtrip`) — no hypothesis on the recipe;
  * a wordlist recipe: when every word of the list and its title-cased form are 1..255
    characters long and every separator the recipe's separator function can return is at most
    255 characters long (`SepBound`: the constant string, a separator recipe of Length ≤ 255, or
    every alternative of a caller-written function), every returned password round-trips
    (`wl_generated_roundtrip`). The hypothesis is the property's own ("words and separators of
    that size"); `wl_long_word_is_error` shows it is needed: with a word of 256 characters
    MakeIndices must refuse.
-/
import SpgProofs.Properties.C03
import SpgProofs.Properties.C05
import SpgProofs.Properties.C11
import SpgProofs.Lemmas.FactPreds
namespace Spg.C11b
open Spg Spg.Tokens

variable (cfg : Cfg)

/-- Two facts that hold on every stream hold together on every stream. -/
theorem All_and {α : Type} {P Q : α → Prop} : ∀ (p : Rand α), Rand.All P p → Rand.All Q p →
    Rand.All (fun a => P a ∧ Q a) p
  | .pure _, hp, hq => ⟨hp, hq⟩
  | .draw _ k, hp, hq => fun i hi => All_and (k i) (hp i hi) (hq i hi)

/-! ### Character recipes -/

/-- **Every password a character recipe returns round-trips**, with the one-byte index. -/
theorem char_generated_roundtrip (r : CharRecipe) :
    Rand.All (fun res => ∀ p, res = Res.ok p →
        makeIndices p.tokens = some [0] ∧
        Tokens.tokenize (concat p.tokens) [0] = some p.tokens)
      (CharRecipe.generate cfg r) := by
  by_cases hL : r.length < 1
  · -- the guard: no password at all
    have : CharRecipe.genChars cfg r = .pure (.err .length) := by
      unfold CharRecipe.genChars; simp [hL]
    unfold CharRecipe.generate
    rw [this]
    simp [Rand.bind, Rand.All]
  · apply Rand.All_mono _ _ (C03.generate_sound cfg r)
    intro res h p hp
    obtain ⟨hlen, htok, -, -⟩ := h p hp
    have hne : p.tokens ≠ [] := by
      intro hnil; rw [hnil] at hlen; simp at hlen; omega
    have hbound : ∀ t ∈ p.tokens, 1 ≤ t.value.length ∧ t.value.length ≤ 255 := by
      intro t ht; have := (htok t ht).2; omega
    obtain ⟨ix, hix, hrt⟩ := C11.roundtrip p.tokens hne hbound
    have hk := C11.kind_character p.tokens hne (fun t ht => (hbound t ht).1)
    have hix0 : makeIndices p.tokens = some [0] := by
      have hkind : kind p.tokens = 0 := hk.mpr htok
      have hemp : p.tokens.isEmpty = false := by cases hh : p.tokens <;> simp_all
      unfold makeIndices
      simp [hemp, hkind]
    rw [hix0] at hix
    injection hix with hix
    subst hix
    exact ⟨hix0, hrt⟩


/-! ### Wordlist recipes -/

/-- Every separator the separator function can return is at most 255 characters long. -/
def SepBound : Sep → Prop
  | .char s => s.length ≤ 255
  | .const s => s.length ≤ 255
  | .recipe cr => cr.length ≤ 255
  | .custom first others _ => first.length ≤ 255 ∧ ∀ o ∈ others, o.length ≤ 255

/-- One call of a bounded separator function returns a bounded separator, on every stream. -/
theorem sepCall_bounded (s : Sep) (hs : SepBound s) :
    Rand.All (fun (out : Word × Int) => out.1.length ≤ 255) (s.call cfg) := by
  cases s with
  | char s => simpa [Sep.call, Rand.All, SepBound] using hs
  | const s => simpa [Sep.call, Rand.All, SepBound] using hs
  | recipe cr =>
    unfold Sep.call
    apply Rand.All_bind _ _ (C03.genChars_sound cfg cr)
    intro res h
    cases res with
    | err e => simp [Rand.All]
    | ok cs =>
      obtain ⟨h1, -, -⟩ := h cs rfl
      simp only [Rand.All]
      have : cr.length ≤ 255 := hs
      omega
  | custom first others d =>
    obtain ⟨hf, ho⟩ := hs
    unfold Sep.call
    intro i hi
    simp only [Rand.All]
    cases i with
    | zero => simpa using hf
    | succ i =>
      have hi' : i < others.length := by omega
      have : (first :: others).getD (i + 1) [] = others[i] := by
        simp [List.getD_eq_getElem?_getD, List.getElem?_eq_getElem hi']
      rw [this]
      exact ho _ (List.getElem_mem hi')

variable (title : Word → Word) (r : WLRecipe)

/-- The words of the list, as they are and title-cased, are 1..255 characters long. -/
def WordsBound (words : List Word) : Prop :=
  ∀ w ∈ words, (1 ≤ w.length ∧ w.length ≤ 255) ∧ (1 ≤ (title w).length ∧ (title w).length ≤ 255)

/-- Every token the word/separator loop emits is 1..255 characters long, on every stream. -/
theorem body_bounded (words : List Word) (caps : Nat → Bool) (L : Nat)
    (hw : WordsBound title words) (hs : SepBound r.sep) :
    ∀ (n i : Nat), Rand.All (fun toks => ∀ t ∈ toks, 1 ≤ t.value.length ∧ t.value.length ≤ 255)
      (WLRecipe.body cfg title r words caps L i n)
  | 0, i => by simp [WLRecipe.body, Rand.All]
  | n + 1, i => by
    unfold WLRecipe.body
    intro j hj
    have hmem : words.getD j [] ∈ words := by
      rw [List.getD_eq_getElem?_getD, List.getElem?_eq_getElem hj]; exact List.getElem_mem hj
    have hword : 1 ≤ (if caps i = true then title (words.getD j []) else words.getD j []).length ∧
        (if caps i = true then title (words.getD j []) else words.getD j []).length ≤ 255 := by
      split
      · exact (hw _ hmem).2
      · exact (hw _ hmem).1
    have hatom : ∀ (w : Word), (1 ≤ w.length ∧ w.length ≤ 255) →
        ∀ t ∈ (if w.isEmpty = true then ([] : List (Token Nat))
        else [{ value := w, ttype := atomType }]), 1 ≤ t.value.length ∧ t.value.length ≤ 255 := by
      intro w hword t ht
      split at ht
      · cases ht
      · simp only [List.mem_singleton] at ht; subst ht; exact hword
    by_cases hl : i + 1 < L
    · simp only [hl, if_true]
      apply Rand.All_bind _ _ (sepCall_bounded cfg r.sep hs)
      rintro ⟨s, d⟩ hsl
      apply Rand.All_bind _ _ (body_bounded words caps L hw hs n (i + 1))
      intro rest hrest
      simp only [Rand.All]
      intro t ht
      simp only [List.mem_append] at ht
      rcases ht with (ht | ht) | ht
      · exact hatom _ hword t ht
      · split at ht
        · cases ht
        · rename_i hse
          simp only [List.mem_singleton] at ht; subst ht
          have : s ≠ [] := by intro h; subst h; simp at hse
          have : 1 ≤ s.length := by cases s <;> simp_all
          exact ⟨this, hsl⟩
      · exact hrest t ht
    · simp only [hl, if_false]
      apply Rand.All_bind _ _ (body_bounded words caps L hw hs n (i + 1))
      intro rest hrest
      simp only [Rand.All]
      intro t ht
      simp only [List.mem_append] at ht
      rcases ht with ht | ht
      · exact hatom _ hword t ht
      · exact hrest t ht

/-- **Every password a wordlist recipe returns round-trips**, given words and separators of
encodable size: `MakeIndices` succeeds and `Tokenize(String(), index)` gives exactly the
generated tokens back (values and types), whatever the capitalisation scheme and stream. -/
theorem wl_generated_roundtrip (wl : WordList) (hl : r.list = some wl)
    (hw : WordsBound title wl.words) (hs : SepBound r.sep) :
    Rand.All (fun res => ∀ p, res = Res.ok p →
        ∃ ix, makeIndices p.tokens = some ix ∧ Tokens.tokenize (concat p.tokens) ix = some p.tokens)
      (WLRecipe.generate cfg title r) := by
  have hne : ∀ w ∈ wl.words, w ≠ [] ∧ title w ≠ [] := by
    intro w hwm
    obtain ⟨⟨h1, -⟩, ⟨h2, -⟩⟩ := hw w hwm
    constructor
    · intro h; rw [h] at h1; simp at h1
    · intro h; rw [h] at h2; simp at h2
  unfold WLRecipe.generate
  simp only [hl]
  split
  · simp [Rand.All]
  · split
    · simp [Rand.All]
    · rename_i hLen
      apply Rand.All_bind_true
      intro caps
      have hboth : Rand.All (fun toks =>
          (∀ t ∈ toks, 1 ≤ t.value.length ∧ t.value.length ≤ 255) ∧
          C05.Shaped title wl.words caps r.length.toNat 0 r.length.toNat toks)
          (WLRecipe.body cfg title r wl.words caps r.length.toNat 0 r.length.toNat) :=
        All_and _ (body_bounded cfg title r wl.words caps r.length.toNat hw hs r.length.toNat 0)
          (C05.body_shaped cfg title r wl.words caps r.length.toNat hne r.length.toNat 0)
      apply Rand.All_bind _ _ hboth
      rintro toks ⟨hb, hshape⟩
      apply Rand.All_bind_true
      intro d
      simp only [Rand.All]
      intro p hp
      injection hp with hp
      subst hp
      have hne' : toks ≠ [] := by
        have hpos : 0 < r.length.toNat := by omega
        have key : ∀ (L n : Nat), 0 < n →
            C05.Shaped title wl.words caps L 0 n toks → toks ≠ [] := by
          intro L n hn h
          cases h with
          | done => omega
          | last => simp
          | sep => simp
          | nosep => simp
        exact key _ _ hpos hshape
      exact C11.roundtrip toks hne' hb

/-- The size hypothesis is needed: one word of 256 characters and `MakeIndices` must refuse
(so nothing lossy is ever produced). -/
theorem wl_long_word_is_error (toks : List (Token Nat))
    (h : ∃ t ∈ toks, 255 < t.value.length) : makeIndices toks = none :=
  C11.too_long_is_error toks h

/-- Non-vacuity: a two-word list with a digit-recipe separator meets the hypotheses. -/
example : WordsBound (fun w => w) [[97], [98, 99]] ∧
    SepBound (.recipe { length := 2, allow := 4, require := 0, exclude := 0,
                        allowChars := [], requireSets := [], excludeChars := [] }) := by
  refine ⟨?_, ?_⟩
  · intro w hw; simp at hw; rcases hw with rfl | rfl <;> simp
  · show (2 : Int) ≤ 255; omega

/-! ### Nothing shared between calls -/

/-- `MakeIndices` and `Tokenize` are functions of their arguments in the model; in the source (a
regenerated fact) no call leaves anything behind for a concurrent or later call: every assignment
is local to the call, every package-level variable is initialised data or a preset. A shared
scratch buffer for the exploded string or for the index under construction falsifies this. -/
theorem no_shared_scratch : FactPreds.writesAreLocal = true ∧ FactPreds.packageStateOK = true := by
  decide

end Spg.C11b
