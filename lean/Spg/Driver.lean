/-
  Line-protocol driver: one operation per input line, one canonical result line per operation.
  The Go harness runs the real code on the same lines (DESIGN.md §5.2). Core Lean only.
-/
import Spg.Model.Draw
import Spg.Model.CharSets
import Spg.Model.CharGen
import Spg.Model.Token
import Spg.Model.WordGen
import Spg.Model.Cli
import Spg.Generated.Classes
import Spg.Generated.AgileWords
import Spg.Generated.AgileSyllables
import Spg.Generated.Cli
import Std.Data.HashMap
import Spg.Model.Fields
import Spg.Model.Title
namespace Spg.Driver
open Spg

/-! ### Encodings: characters `65.66`, `_` empty string; lists `a,b`, `-` empty list. -/

def parseNats (sep : String) (s : String) : List Nat :=
  (s.splitOn sep).filterMap (·.toNat?)

def parseCps (s : String) : List Nat :=
  if s == "_" || s == "" then [] else parseNats "." s

def parseList (s : String) : List (List Nat) :=
  if s == "-" || s == "" then [] else (s.splitOn ",").map parseCps

def showCps (l : List Nat) : String :=
  if l.isEmpty then "_" else ".".intercalate (l.map toString)

def showList (l : List (List Nat)) : String :=
  if l.isEmpty then "-" else ",".intercalate (l.map showCps)

def hexVal (c : Char) : Nat :=
  if '0' ≤ c && c ≤ '9' then c.toNat - '0'.toNat
  else if 'a' ≤ c && c ≤ 'f' then c.toNat - 'a'.toNat + 10
  else if 'A' ≤ c && c ≤ 'F' then c.toNat - 'A'.toNat + 10
  else 0

def parseHexAux : List Char → List Nat
  | a :: b :: rest => (hexVal a * 16 + hexVal b) :: parseHexAux rest
  | _ => []

def parseHex (s : String) : List Nat :=
  if s == "_" then [] else parseHexAux s.toList

def hexDigit (n : Nat) : Char :=
  if n < 10 then Char.ofNat (48 + n) else Char.ofNat (87 + n)

def showHex (l : List Nat) : String :=
  if l.isEmpty then "_" else String.ofList (l.flatMap fun b => [hexDigit (b / 16), hexDigit (b % 16)])

def strOfCps (l : List Nat) : String := String.ofList (l.map Char.ofNat)

/-- `key=value` arguments of a line. -/
def argsOf (fields : List String) : List (String × String) :=
  fields.filterMap fun f =>
    match f.splitOn "=" with
    | k :: v :: rest => some (k, "=".intercalate (v :: rest))
    | _ => none

def arg (as : List (String × String)) (k : String) : String :=
  (as.lookup k).getD ""

def argNat (as : List (String × String)) (k : String) : Nat := (arg as k).toNat?.getD 0
def argInt (as : List (String × String)) (k : String) : Int := (arg as k).toInt?.getD 0

/-- A flag word: a number, or the name of a flag constant — then its *documented* value (the
implementation side of the comparison uses the package's own constant). -/
def flagWord (s : String) : Nat :=
  match s with
  | "Uppers" => 1 | "Lowers" => 2 | "Digits" => 4 | "Symbols" => 8 | "Ambiguous" => 16
  | "None" => 0 | "Letters" => 3 | "All" => 15
  | _ => s.toNat?.getD 0

/-- `L/allow/require/exclude/allowChars/requireSets/excludeChars`. -/
def parseRecipe (s : String) : CharRecipe :=
  match s.splitOn "/" with
  | [l, a, q, x, ac, rs, ec] =>
    { length := l.toInt?.getD 0, allow := flagWord a, require := flagWord q,
      exclude := flagWord x, allowChars := parseCps ac, requireSets := parseList rs,
      excludeChars := parseCps ec }
  | _ => default

def cfgOf (as : List (String × String)) : Cfg :=
  let fr := (arg as "fr").splitOn ":"
  let (n, d) := match fr with
    | [n, d] => (n.toNat?.getD 0, d.toNat?.getD 1)
    | _ => (Generated.maxFailRateNum.toNat, Generated.maxFailRateDen)
  { tbl := Generated.classTable,
    maxTrials := if (as.lookup "T").isSome then argNat as "T" else Generated.maxTrials.toNat,
    frNum := n, frDen := d }

def showErr : GenErr → String
  | .length => "length" | .noChars => "nochars" | .failRate => "failrate"
  | .exhausted => "exhausted" | .noList => "nolist"

def showTok (t : Token Nat) : String :=
  (if t.ttype == atomType then "A:" else if t.ttype == sepType then "S:" else s!"T{t.ttype}:") ++ showCps t.value

def showToks (ts : List (Token Nat)) : String :=
  if ts.isEmpty then "-" else ",".intercalate (ts.map showTok)

def showGen (tapeLen : Nat) (warn : Nat) : Rand.RunRes (Res Password) → String
  | .done (.ok p) rest => s!"ok toks={showToks p.tokens} used={tapeLen - rest.length} D={p.entD} warn={warn}"
  | .done (.err e) rest => s!"err kind={showErr e} used={tapeLen - rest.length} warn={warn}"
  | .fault => "panic fault"
  | .zero => "panic zero"

/-! ### Word lists by name -/

def decodeWord (v : Nat) : List Nat :=
  let ds := (List.range 8).map fun i => (v / 27 ^ (7 - i)) % 27
  (ds.filter (· != 0)).map (· + 96)

def namedList (name : String) : Option (List Word) :=
  if name == "@agilewords" then some (Generated.agileWordsChunks.flatten.map decodeWord)
  else if name == "@agilesyllables" then some (Generated.agileSyllablesChunks.flatten.map decodeWord)
  else none

/-- The built-in lists, normalised once per process (`Thunk`s memoise): the model's `newWordList`
is quadratic, and 18,325 words take seconds. -/
structure Env where
  words     : Thunk (Option (WordList × Nat))
  syllables : Thunk (Option (WordList × Nat))

/-- `strings.Title` on a word that is a single run of letters a-z: upper-case the first. -/
def asciiTitle : Word → Word
  | c :: cs => (if 97 ≤ c && c ≤ 122 then c - 32 else c) :: cs
  | [] => []

def titleOf (pairs : List (Word × Word)) (w : Word) : Word :=
  (pairs.lookup w).getD w

def mkEnv : Env where
  words := Thunk.mk fun _ => newWordList asciiTitle ((namedList "@agilewords").getD [])
  syllables := Thunk.mk fun _ => newWordList asciiTitle ((namedList "@agilesyllables").getD [])

/-- `NewWordList` of the words argument (built-in lists by name, through the memoised thunks). -/
def newListOf (env : Env) (as : List (String × String)) (ws : List Word) (title : Word → Word) :
    Option (WordList × Nat) :=
  if (arg as "words") == "@agilewords" then env.words.get
  else if (arg as "words") == "@agilesyllables" then env.syllables.get
  else newWordList title ws

/-- The word list argument and its title function. -/
def wordsAndTitle (as : List (String × String)) : List Word × (Word → Word) :=
  let ws := arg as "words"
  match namedList ws with
  | some l => (l, asciiTitle)
  | none =>
    let l := parseList ws
    (l, titleOf (l.zip (parseList (arg as "titles"))))

/-- Documented meaning of the separator presets (word_gen.go). -/
def presetSep (name : String) : Sep :=
  let d := Generated.flagDigits
  let s := Generated.flagSymbols
  let a := Generated.flagAmbiguous
  let mk (l : Int) (allow excl : Nat) : Sep :=
    .recipe { length := l, allow := allow, require := 0, exclude := excl,
              allowChars := [], requireSets := [], excludeChars := [] }
  if name == "none" then .const []
  else if name == "d1" then mk 1 d 0
  else if name == "d2" then mk 2 d 0
  else if name == "dna1" then mk 1 d a
  else if name == "dna2" then mk 2 d a
  else if name == "sym" then mk 1 s 0
  else if name == "ds" then mk 1 (s ||| d) 0
  else .const []

def parseSep (s : String) : Sep :=
  match s.splitOn ":" with
  | ["char", v] => .char (parseCps v)
  | ["const", v] => .const (parseCps v)
  | ["preset", v] => presetSep v
  | ["recipe", v] => .recipe (parseRecipe v)
  | ["custom", d, v] =>
    match parseList v with
    | [] => .custom [] [] (d.toInt?.getD 1)
    | f :: o => .custom f o (d.toInt?.getD 1)
  | _ => .char []

/-- How an operation's `sep=` sets the recipe's two separator fields: `char:` is `SeparatorChar`
with no function, everything else a function (with `sepchar=`, if given, in the other field). -/
def sepField (s : Sep) : Option Sep := match s with | .char _ => none | f => some f

def sepCharOf (s : Sep) (extra : Word) : Word := match s with | .char c => c | _ => extra

def parseToks (s : String) : List (Token (List Nat)) :=
  if s == "-" || s == "" then [] else
  (s.splitOn ",").map fun f =>
    match f.splitOn ":" with
    | [t, v] =>
      let bytes := parseHex v
      { value := explode (bytes.length + 1) bytes, ttype := t.toNat?.getD 0 }
    | _ => { value := [], ttype := 0 }

def showBToks (ts : List (Token (List Nat))) : String :=
  if ts.isEmpty then "-" else
  ",".intercalate (ts.map fun t => s!"{t.ttype}:{showHex t.value.flatten}")

def showRecipe (r : CharRecipe) : String :=
  s!"{r.length}/{r.allow}/{r.require}/{r.exclude}/{showCps r.allowChars}/{showList r.requireSets}/{showCps r.excludeChars}"

/-- Separator named by an opgen table entry (`"const:<text>"`, `"preset:<name>"`, `"nil"`). -/
def cliSep (s : String) : Sep :=
  if s.startsWith "const:" then .const ((s.drop 6).toString.toList.map Char.toNat)
  else if s == "preset:SFNone" then presetSep "none"
  else if s == "preset:SFDigits1" then presetSep "d1"
  else if s == "preset:SFDigits2" then presetSep "d2"
  else if s == "preset:SFDigitsNoAmbiguous1" then presetSep "dna1"
  else if s == "preset:SFDigitsNoAmbiguous2" then presetSep "dna2"
  else if s == "preset:SFSymbols" then presetSep "sym"
  else if s == "preset:SFDigitsSymbols" then presetSep "ds"
  else .char []

def showSep : Sep → String
  | .char s => s!"char:{showCps s}"
  | .const s => s!"const:{showCps s}"
  | .recipe r => s!"recipe:{showRecipe r}"
  | .custom f o d => s!"custom:{d}:{showList (f :: o)}"

/-- `cli argv=<list> [words=<list> titles=<list>]`: what the command line denotes, and what the
library model says about that recipe. -/
def cliLine (env : Env) (as : List (String × String)) : String :=
  let argv := (parseList (arg as "argv")).map strOfCps
  let t := Generated.cliTables
  let cfg := cfgOf []
  match Cli.action t argv with
  | .usage => s!"usage exit={t.exitUsage}"
  | .help => "help exit=0"
  | .chars r ent =>
    let alpha := r.alphabet cfg.tbl
    let okGen := decide (1 ≤ r.length) && !alpha.isEmpty && r.acceptable cfg
    s!"chars r={showRecipe r} ent={if ent then 1 else 0} gen={if okGen then 1 else 0} alpha={showCps alpha} req={showList (r.requiredSets cfg.tbl)} D={r.entropyD cfg} warnE={r.entropyWarnings cfg} failexit={t.exitCatchall}"
  | .words list L sep cap ent =>
    let built : Option (WordList × Nat) :=
      if list == "words" then env.words.get
      else if list == "syllables" then env.syllables.get
      else
        let (ws, title) := wordsAndTitle as
        -- `--file`: when the operation carries the file's text, the words are what the model of
        -- `strings.Fields` makes of it (the `words=`/`titles=` pair then only supplies strings.Title)
        let ws := if (as.lookup "filetext").isSome then Fields.fields (parseCps (arg as "filetext")) else ws
        newWordList title ws
    match built with
    | none => s!"fatal exit={t.exitCatchall}"
    | some (wl, dups) =>
      let r : WLRecipe := { list := some wl, length := L, sepFunc := some (cliSep sep), capitalize := cap }
      let okGen := decide (1 ≤ L)
      let d : Int := match (r.entropy cfg).run (List.replicate 8 0) with
        | .done d _ => d
        | _ => 0
      let kept := if list == "file" then showList wl.words else s!"@{list}"
      s!"words list={list} L={L} sep={showSep r.sep} cap={if cap.isEmpty then "_" else cap} ent={if ent then 1 else 0} gen={if okGen then 1 else 0} size={wl.words.length} kept={kept} dup={dups} allcap={if wl.unCap == 0 then 1 else 0} D={d} failexit={t.exitCatchall}"

/-- All index tuples with the given bounds, in lexicographic order. -/
def cellTuples : List Nat → List (List Nat)
  | [] => [[]]
  | b :: bs => (List.range b).flatMap fun i => (cellTuples bs).map (i :: ·)

/-- The complete cell of streams of a small wordlist recipe (constant separators): number of
streams, of distinct passwords, the largest multiplicity, and the entropy integer. -/
def wlCell (cfg : Cfg) (title : Word → Word) (r : WLRecipe) : String :=
  let L := r.length.toNat
  let size := r.size
  let capBounds : List Nat :=
    if r.capitalize == "one" then [L] else if r.capitalize == "random" then List.replicate L 2 else []
  let bounds := capBounds ++ List.replicate L size
  let total := bounds.foldl (· * ·) 1
  if total > 20000 then "cell-too-large" else
  let outcomes := (cellTuples bounds).map fun tape =>
    match (r.generate cfg title).run tape with
    | .done (.ok p) _ => some (showToks p.tokens, p.entD)
    | _ => none
  if outcomes.any (·.isNone) then "cell-generation-failed" else
  let counts : Std.HashMap String Nat := outcomes.foldl (fun m o =>
    match o with
    | some (k, _) => m.insert k (m.getD k 0 + 1)
    | none => m) {}
  let maxm := counts.fold (fun acc _ v => max acc v) 0
  let d : Int := match outcomes.head? with | some (some (_, d)) => d | _ => 0
  s!"streams={total} distinct={counts.size} maxmult={maxm} D={d}"

/-- Execute one line. -/
def exec (env : Env) (line : String) : String :=
  let fields := (line.trimAscii.toString.splitOn " ").filter (· != "")
  match fields with
  | [] => ""
  | op :: rest =>
    let as := argsOf rest
    if op == "draw" then
      let n := argNat as "n"
      let tape := parseCps (arg as "tape")
      let viaU : Option Nat := match tape with
        | v :: _ => (stepU n.toUInt32 v.toUInt32).map (·.toNat)
        | [] => none
      let viaN : Option Nat := match tape with
        | v :: _ => step n v
        | [] => none
      let agree := if n == 0 || n ≥ two32 then "na" else if viaU == viaN then "same" else "DIFFER"
      match drawTape n tape with
      | .ok k r => s!"ok k={k} used={tape.length - r.length} u32={agree}"
      | .fault => s!"panic fault u32={agree}"
      | .zero => "panic zero"
    else if op == "source" then
      -- n, plan = give:err,give:err… ; bytes = hex
      let n := argNat as "n"
      let plan : List Resp := ((arg as "plan").splitOn ",").filterMap fun f =>
        match f.splitOn ":" with
        | [g, e] => some { give := g.toNat?.getD 0, err := e == "1" }
        | _ => none
      let bytes := parseHex (arg as "bytes")
      let src : Source := { plan := plan, bytes := bytes }
      if n == 0 then "panic zero" else
      match drawSource n (bytes.length / 4 + 2) src with
      | (some k, s') => s!"ok k={k} bytesused={bytes.length - s'.bytes.length}"
      | (none, _) => "panic fault"
    else if op == "newcr" then
      -- the documented defaults of NewCharRecipe(L): everything allowed, the ambiguous excluded
      s!"L={argInt as "L"} allow={flagWord "All"} require=0 exclude={flagWord "Ambiguous"} ac=_ rs=0 ec=_"
    else if op == "newwl" then
      -- the documented defaults of NewWLRecipe(L, list): no separator, no function, no capitalisation
      s!"L={argInt as "L"} sepchar=_ sf=nil cap=none"
    else if op == "charinfo" then
      let cfg := cfgOf as
      let r := parseRecipe (arg as "r")
      let alpha := r.alphabet cfg.tbl
      let acc := if r.length < 1 || alpha.isEmpty then "na" else if r.acceptable cfg then "1" else "0"
      s!"alpha={showCps alpha} N={alpha.length} cnt={r.count cfg} M={r.total cfg} D={r.entropyD cfg} sp=ok acc={acc} warnE={r.entropyWarnings cfg} warnSP={r.successProbWarnings cfg}"
    else if op == "chargen" then
      let cfg := cfgOf as
      let r := parseRecipe (arg as "r")
      let tape := parseCps (arg as "tape")
      showGen tape.length (r.generateWarnings cfg) ((r.generate cfg).run tape)
    else if op == "wlnew" then
      let (ws, title) := wordsAndTitle as
      match newListOf env as ws title with
      | none => "err empty"
      | some (wl, dups) =>
        let shown := if (arg as "show") == "0" then s!"#{wl.words.length}" else showList wl.words
        s!"ok kept={shown} size={wl.words.length} allcap={if wl.unCap == 0 then 1 else 0} dup={dups}"
    else if op == "wlgen" || op == "wlent" then
      let cfg := cfgOf as
      let (ws, title) := wordsAndTitle as
      let list : Option WordList :=
        if (arg as "words") == "nil" then none
        else if (arg as "words") == "@zero" then some { words := [], unCap := 0 }   -- the zero value `WordList{}`
        else (newListOf env as ws title).map (·.1)
      let r : WLRecipe := { list := list, length := argInt as "L", sepChar := sepCharOf (parseSep (arg as "sep")) (parseCps (arg as "sepchar")), sepFunc := sepField (parseSep (arg as "sep")),
                            capitalize := strOfCps (parseCps (arg as "cap")) }
      let tape := parseCps (arg as "tape")
      if op == "wlgen" then
        showGen tape.length (r.generateWarnings cfg) ((r.generate cfg title).run tape)
      else
        match (r.entropy cfg).run tape with
        | .done d rest => s!"ok D={d} used={tape.length - rest.length} warn={r.sepWarnings cfg}"
        | .fault => "panic fault"
        | .zero => "panic zero"
    else if op == "wlent0" then
      -- Entropy() at lengths below 1, where the integer D of the model does not exist (the value is
      -- negative or not a number): judged by the harness against the property's formula itself
      "ok formula"
    else if op == "wlcell" then
      let cfg := cfgOf as
      let (ws, title) := wordsAndTitle as
      match (newListOf env as ws title).map (·.1) with
      | none => "err empty-list"
      | some wl =>
        let r : WLRecipe := { list := some wl, length := argInt as "L", sepChar := sepCharOf (parseSep (arg as "sep")) (parseCps (arg as "sepchar")), sepFunc := sepField (parseSep (arg as "sep")),
                              capitalize := strOfCps (parseCps (arg as "cap")) }
        wlCell cfg title r
    else if op == "title" then
      -- the transcription of strings.Title, claimed for ASCII words only
      let w := parseCps (arg as "w")
      if w.all (· < 128) then s!"t={showCps (Title.title w)} again={showCps (Title.title (Title.title w))}" else "non-ascii"
    else if op == "explode" then
      let bytes := parseHex (arg as "pw")
      let ch := explode (bytes.length + 1) bytes
      s!"chunks={if ch.isEmpty then "-" else ",".intercalate (ch.map showHex)}"
    else if op == "mkidx" then
      let ts := parseToks (arg as "toks")
      match Tokens.makeIndices ts with
      | some ix => s!"ok idx={showHex ix} kind={if ts.isEmpty then "na" else toString (Tokens.kind ts)}"
      | none => "err toolarge"
    else if op == "tokenize" then
      let bytes := parseHex (arg as "pw")
      let ch := explode (bytes.length + 1) bytes
      match TokenizeGo.tokenize ch (parseHex (arg as "idx")) with
      | .ok ts => s!"ok toks={showBToks ts}"
      | .err => "err"
      | .panic => "panic index-out-of-range"
    else if op == "cli" then
      cliLine env as
    else s!"bad-op {op}"

end Spg.Driver
