/-
  Model of util.go: randomUint32 / randomUint32n, and the free monad of bounded draws in
  which every generator of the model is written (DESIGN.md §4.1, §4.2, C01, C09).
  Core Lean only: this file is compiled into the native driver.
-/
namespace Spg

/-- `math.MaxUint32`. -/
def maxU32 : Nat := 4294967295

/-- Number of values of the raw 32-bit word. -/
def two32 : Nat := 4294967296

/-- One pass through the body of `randomUint32n(n)` for `n ≥ 1` on the raw word `v`:
`some k` is the value returned, `none` means "discard `v` and read another word".
Transcribes util.go: the power-of-two mask, `discard := MaxUint32 - MaxUint32 % n`,
`v >= discard` redraws, otherwise `v % n`. -/
def step (n v : Nat) : Option Nat :=
  if n &&& (n - 1) = 0 then some (v &&& (n - 1))
  else
    let discard := maxU32 - maxU32 % n
    if v ≥ discard then none else some (v % n)

/-- The same body on machine words, as the Go code computes it (`uint32` arithmetic). -/
def stepU (n v : UInt32) : Option UInt32 :=
  if n &&& (n - 1) = 0 then some (v &&& (n - 1))
  else
    let discard : UInt32 := 0xFFFFFFFF - 0xFFFFFFFF % n
    if v ≥ discard then none else some (v % n)

/-- Result of one call of `randomUint32n` on a tape of raw words. -/
inductive DrawRes where
  | ok (k : Nat) (rest : List Nat)
  /-- the source failed (or the tape ended) before a word was accepted: `panic("PRNG gen error…")` -/
  | fault
  /-- `randomUint32n(0)`: `panic("randomUint32n called with 0")`, before anything is read -/
  | zero
  deriving Repr, DecidableEq

/-- `randomUint32n(n)` on a tape of raw words: words are consumed until one is accepted. -/
def drawWords (n : Nat) : List Nat → DrawRes
  | [] => .fault
  | v :: t =>
    match step n v with
    | some k => .ok k t
    | none => drawWords n t

def drawTape (n : Nat) (tape : List Nat) : DrawRes :=
  if n = 0 then .zero else drawWords n tape

/-! ### Reading words from the byte source (`randomUint32`, `crypto/rand.Read` = `io.ReadFull`) -/

/-- Big-endian decoding of four bytes (`binary.BigEndian.Uint32`). -/
def wordOfBytes (b0 b1 b2 b3 : Nat) : Nat :=
  b0 * 16777216 + b1 * 65536 + b2 * 256 + b3

/-- One planned response of the underlying reader to a `Read(buf)` call: deliver at most
`give` bytes (never more than were asked for or than remain), and report an error if `err`. -/
structure Resp where
  give : Nat
  err  : Bool
  deriving Repr, DecidableEq

/-- State of the scripted source: the responses still planned, and the bytes not yet delivered.
When the plan is exhausted every `Read` delivers everything asked for; when the bytes are
exhausted the reader reports `io.EOF`. -/
structure Source where
  plan  : List Resp
  bytes : List Nat
  deriving Repr, DecidableEq

/-- `io.ReadFull(Reader, buf)` with `need` bytes still missing and `got` the bytes read so far
(in order). Returns the bytes if all arrived, `none` if an error came first, and the source
afterwards. `fuel` bounds the number of `Read` calls (a reader may legally return 0 bytes
without error; the plan is finite, and beyond the plan every call makes progress). -/
def readFull : Nat → Nat → List Nat → Source → Option (List Nat) × Source
  | 0, _, _, s => (none, s)
  | fuel + 1, need, got, s =>
    if need = 0 then (some got, s) else
    -- beyond the plan the reader delivers everything it is asked for
    let r : Resp := s.plan.headD { give := need, err := false }
    let k := min r.give need
    let d := s.bytes.take k
    let s' : Source := { plan := s.plan.tail, bytes := s.bytes.drop k }
    let got' := got ++ d
    let need' := need - d.length
    -- io.ReadAtLeast: a read that completes the buffer succeeds even if it also reports an error
    if need' = 0 then (some got', s')
    else if r.err then (none, s')
    else if d.length < k then (none, s')   -- the byte supply ran dry: io.EOF
    else readFull fuel need' got' s'

/-- `randomUint32()`: `some word`, or `none` when `rand.Read` returned an error (the Go code panics). -/
def readWord (s : Source) : Option Nat × Source :=
  match readFull (s.plan.length + 5) 4 [] s with
  | (some [b0, b1, b2, b3], s') => (some (wordOfBytes b0 b1 b2 b3), s')
  | (_, s') => (none, s')

/-- `randomUint32n(n)` on a byte source (`fuel` = maximal number of words read). -/
def drawSource (n : Nat) : Nat → Source → Option Nat × Source
  | 0, s => (none, s)
  | fuel + 1, s =>
    match readWord s with
    | (none, s') => (none, s')
    | (some v, s') =>
      match step n v with
      | some k => (some k, s')
      | none => drawSource n fuel s'

/-- All the words a source yields before its first failure, and whether it then fails with bytes
left over. -/
def wordsOfSource : Nat → Source → List Nat
  | 0, _ => []
  | fuel + 1, s =>
    match readWord s with
    | (none, _) => []
    | (some v, s') => v :: wordsOfSource fuel s'

/-! ### The free monad of bounded draws -/

/-- A randomised computation whose only primitive is `randomUint32n(n)`. -/
inductive Rand (α : Type) where
  | pure : α → Rand α
  | draw : (n : Nat) → (Nat → Rand α) → Rand α

namespace Rand

def bind {α β : Type} : Rand α → (α → Rand β) → Rand β
  | .pure a, f => f a
  | .draw n k, f => .draw n (fun i => (k i).bind f)

instance : Monad Rand where
  pure := Rand.pure
  bind := Rand.bind

/-- `randomUint32n(n)` as a computation. -/
def next (n : Nat) : Rand Nat := .draw n .pure

/-- Outcome of running a computation on a tape of raw words. -/
inductive RunRes (α : Type) where
  | done (a : α) (rest : List Nat)
  | fault
  | zero
  deriving Repr

/-- Execute on a tape of raw words, draws in program order. -/
def run {α : Type} : Rand α → List Nat → RunRes α
  | .pure a, t => .done a t
  | .draw n k, t =>
    match drawTape n t with
    | .ok i rest => (k i).run rest
    | .fault => .fault
    | .zero => .zero

/-- `n` successive draws over the same bound (`for i := 0; i < n; i++ { … randomUint32n(b) … }`). -/
def drawMany (b : Nat) : Nat → Rand (List Nat)
  | 0 => .pure []
  | n + 1 => .draw b fun i => (drawMany b n).bind fun rest => .pure (i :: rest)

/-- Every leaf of the computation satisfies `P`: a statement about all random streams. -/
def All {α : Type} (P : α → Prop) : Rand α → Prop
  | .pure a => P a
  | .draw n k => ∀ i, i < n → All P (k i)

end Rand
end Spg
