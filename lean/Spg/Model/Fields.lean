/-
  `strings.Fields` on valid UTF-8 text, as code points: split at every maximal run of characters
  that Go's `unicode.IsSpace` accepts; no empty fields. This is what opgen's `loadWordListFile` does
  to a word file before handing the words to `NewWordList`.
-/
namespace Spg.Fields

/-- Go's `unicode.IsSpace`: the Latin-1 spaces `\t \n \v \f \r`, space, U+0085, U+00A0, and the
other characters with the Unicode White_Space property. -/
def isSpace (c : Nat) : Bool :=
  (9 ≤ c && c ≤ 13) || c == 32 || c == 0x85 || c == 0xA0 || c == 0x1680 ||
  (0x2000 ≤ c && c ≤ 0x200A) || c == 0x2028 || c == 0x2029 || c == 0x202F || c == 0x205F || c == 0x3000

/-- The scan: `cur` is the field being read (reversed), `acc` the fields finished (reversed). -/
def go : List Nat → List Nat → List (List Nat) → List (List Nat)
  | [], cur, acc => (if cur.isEmpty then acc else cur.reverse :: acc).reverse
  | c :: rest, cur, acc =>
    if isSpace c then go rest [] (if cur.isEmpty then acc else cur.reverse :: acc)
    else go rest (c :: cur) acc

def fields (s : List Nat) : List (List Nat) := go s [] []

end Spg.Fields
