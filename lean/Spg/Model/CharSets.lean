/-
  Model of char_sets.go and of CharRecipe.buildCharacterList / Alphabet (char_gen.go).
  A character is its Unicode code point; a Go string of valid UTF-8 is a list of characters.
  A golang-set of one-character strings is a list taken up to order and repetition; the
  alphabet that Generate draws from and Alphabet() returns is the strictly increasing list
  `norm` (the `verif` build sorts the alphabet inside Generate, DESIGN.md §10).
-/
namespace Spg

/-- Insert into a strictly increasing list, keeping it strictly increasing. -/
def ins (x : Nat) : List Nat → List Nat
  | [] => [x]
  | y :: ys => if x < y then x :: y :: ys else if x = y then y :: ys else y :: ins x ys

/-- The strictly increasing list with the same members: a set of characters in canonical form. -/
def norm (l : List Nat) : List Nat := l.foldr ins []

/-- Members of `a` that are not in `b` (`set.Difference`). -/
def sdiff (a b : List Nat) : List Nat := a.filter fun c => !b.contains c

/-- The class table `charTypeByFlag`: flag bit ↦ characters. Regenerated from the code. -/
abbrev ClassTable := List (Nat × List Nat)

/-- Characters of all classes selected by a flag word (`for f, ct := range charTypeByFlag { if flags&f != 0 … }`). -/
def classChars (tbl : ClassTable) (flags : Nat) : List Nat :=
  (tbl.filter fun e => flags &&& e.1 != 0).flatMap (·.2)

/-- The public fields of `CharRecipe`. -/
structure CharRecipe where
  length       : Int
  allow        : Nat
  require      : Nat
  exclude      : Nat
  allowChars   : List Nat
  requireSets  : List (List Nat)
  excludeChars : List Nat
  deriving Repr, DecidableEq, Inhabited

namespace CharRecipe
variable (tbl : ClassTable) (r : CharRecipe)

/-- Everything excluded: `ExcludeChars` and the classes in `Exclude`. -/
def excluded : List Nat := r.excludeChars ++ classChars tbl r.exclude

/-- The required sets as declared: every non-empty custom string, then every class in `Require`. -/
def declaredRequired : List (List Nat) :=
  r.requireSets.filter (fun s => !s.isEmpty) ++
    ((tbl.filter fun e => r.require &&& e.1 != 0).map (·.2))

/-- `r.requiredSets` after buildCharacterList: each declared set minus the excluded characters
(possibly empty). -/
def requiredSets : List (List Nat) :=
  (declaredRequired tbl r).map fun s => norm (sdiff s (excluded tbl r))

/-- Union of the required sets. -/
def requiredUnion : List Nat := norm (requiredSets tbl r).flatten

/-- Everything allowed as declared: `AllowChars` and the classes in `Allow`. -/
def declaredAllowed : List Nat := r.allowChars ++ classChars tbl r.allow

/-- `r.allowedSet` after buildCharacterList: allowed, not excluded, and in no required set. -/
def allowedSet : List Nat :=
  norm (sdiff (sdiff (declaredAllowed tbl r) (excluded tbl r)) (requiredUnion tbl r))

/-- The alphabet: what `buildCharacterList` returns, in canonical (sorted) order.
This is also `Alphabet()`. -/
def alphabet : List Nat := norm (allowedSet tbl r ++ requiredUnion tbl r)

/-- `requireFilter`: the candidate has a character from every non-empty required set. -/
def passes (cand : List Nat) : Bool :=
  (requiredSets tbl r).all fun s => s.isEmpty || cand.any fun c => s.contains c

end CharRecipe
end Spg
