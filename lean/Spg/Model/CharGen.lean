/-
  Model of char_strength.go (the exact count behind Entropy / SuccessProbability) and of
  CharRecipe.Generate (char_gen.go).
-/
import Spg.Model.Draw
import Spg.Model.CharSets
import Spg.Model.Token
namespace Spg

/-- All sub-families of a list, by position (`required.PowerSet()` over set *pointers*:
two equal sets stay distinct). -/
def subfamilies {α : Type} : List α → List (List α)
  | [] => [[]]
  | x :: xs => subfamilies xs ++ (subfamilies xs).map (x :: ·)

/-- `n(allowed, required, length)` after the inclusion–exclusion repair: over all sub-families
`S` of the required sets, `(-1)^|S| · |U \ ⋃S|^length`. `big.Int.Exp` with a non-positive
exponent yields 1, as does `^ 0`. -/
def countIE (U : List Nat) (reqs : List (List Nat)) (L : Nat) : Int :=
  ((subfamilies reqs).map fun S =>
    (if S.length % 2 = 1 then (-1 : Int) else 1) * ((sdiff U S.flatten).length : Int) ^ L).sum

/-- Run-time configuration: the class table and the exported retry budget
(`MaxTrials`, `MaxFailRate = frNum / frDen`). -/
structure Cfg where
  tbl       : ClassTable
  maxTrials : Nat
  frNum     : Nat
  frDen     : Nat

namespace CharRecipe
variable (cfg : Cfg) (r : CharRecipe)

/-- Size of the alphabet. -/
def size : Nat := (r.alphabet cfg.tbl).length

/-- The required sets that still have a member (`req.size() > 0` in `CharRecipe.n`). -/
def effectiveRequired : List (List Nat) := (r.requiredSets cfg.tbl).filter fun s => !s.isEmpty

/-- `r.n()`: the exact number of strings of length `Length` over the alphabet with a character
from every effective required set. -/
def count : Int := countIE (r.alphabet cfg.tbl) (effectiveRequired cfg r) r.length.toNat

/-- Number of unconstrained candidates, `N^Length`. -/
def total : Int := ((size cfg r : Nat) : Int) ^ r.length.toNat

/-- The integer whose log2 `Entropy()` reports (for `Length ≥ 0`): the exact count when some
required set is non-empty, `N^Length` (the `entropySimple` path) otherwise. -/
def entropyD : Int :=
  if (r.requiredUnion cfg.tbl).isEmpty then total cfg r else count cfg r

/-- The pre-flight test `hasAcceptableFailRate`, exactly: the single-attempt success probability
`entropyD / total` is positive and `(1 - p)^MaxTrials ≤ MaxFailRate`. -/
def acceptable : Bool :=
  let c := entropyD cfg r
  let M := total cfg r
  decide (0 < c) && decide ((M - c) ^ cfg.maxTrials * (cfg.frDen : Int) ≤ (cfg.frNum : Int) * M ^ cfg.maxTrials)

end CharRecipe

/-- Why a generator returned an error. -/
inductive GenErr where
  | length      -- "don't ask for passwords of length %d"
  | noChars     -- "no characters to build pwd from"
  | failRate    -- "Chance of not generated a valid password (%v) is too high"
  | exhausted   -- "couldn't generate password complying with requirements after %v attempts"
  | noList      -- "wordlist generator must be set up before being used"
  deriving Repr, DecidableEq

/-- `(*Password, error)`. -/
inductive Res (α : Type) where
  | ok (a : α)
  | err (e : GenErr)
  deriving Repr

/-- A generated password: its tokens, and the integer `D` with `Entropy = log2 D`. -/
structure Password where
  tokens : List (Token Nat)
  entD   : Int
  deriving Repr

namespace CharRecipe
variable (cfg : Cfg) (r : CharRecipe)

/-- One candidate: `Length` draws over the alphabet. -/
def candidate (alpha : List Nat) (L : Nat) : Rand (List Nat) :=
  (Rand.drawMany alpha.length L).bind fun idxs => .pure (idxs.map fun i => alpha.getD i 0)

/-- The retry loop: up to `t` candidates, the first that passes the filter is returned. -/
def tryLoop (alpha : List Nat) (L : Nat) : Nat → Rand (Res (List Nat))
  | 0 => .pure (.err .exhausted)
  | t + 1 => (candidate alpha L).bind fun cand =>
      if r.passes cfg.tbl cand then .pure (.ok cand) else tryLoop alpha L t

/-- `CharRecipe.Generate()` as a computation over bounded draws, returning the characters. -/
def genChars : Rand (Res (List Nat)) :=
  if r.length < 1 then .pure (.err .length)
  else
    let alpha := r.alphabet cfg.tbl
    if alpha.isEmpty then .pure (.err .noChars)
    else if !(acceptable cfg r) then .pure (.err .failRate)
    else tryLoop cfg r alpha r.length.toNat cfg.maxTrials

/-- `CharRecipe.Generate()`: each character an atom token, entropy of the recipe attached. -/
def generate : Rand (Res Password) :=
  (genChars cfg r).bind fun
    | .ok cs => .pure (.ok { tokens := cs.map fun c => { value := [c], ttype := atomType },
                             entD := entropyD cfg r })
    | .err e => .pure (.err e)

/-! Diagnostics written by the library (stdout), as a function of the recipe alone. The only
one on these paths is `entropySimple`'s warning, printed when it is called with `nelem < 1`,
i.e. on the no-effective-requirement path with an empty alphabet. -/

/-- Number of `entropySimple` warnings printed by one call of `Entropy()`. -/
def entropyWarnings : Nat :=
  if (r.requiredUnion cfg.tbl).isEmpty && size cfg r == 0 then 1 else 0

/-- Warnings printed by `SuccessProbability()`: `r.Entropy()` and `rCopy.Entropy()`; the copy
has no requirements, so it warns whenever the alphabet is empty. -/
def successProbWarnings : Nat :=
  entropyWarnings cfg r + (if size cfg r == 0 then 1 else 0)

/-- Warnings printed by `Generate()`: none for a bad length; otherwise `Entropy()` once, and
nothing more (the pre-flight is only reached with a non-empty alphabet). -/
def generateWarnings : Nat :=
  if r.length < 1 then 0 else entropyWarnings cfg r

end CharRecipe
end Spg
