/-
  Model of `strings.Title` on the ASCII fragment (the function is deprecated in Go but is what
  word_gen.go calls). Go's definition:

      prev := ' '
      Map(func(r rune) rune {
          if isSeparator(prev) { prev = r; return unicode.ToTitle(r) }
          prev = r; return r }, s)

  with `isSeparator` false exactly for ASCII letters, digits and the underscore among the ASCII
  runes. For ASCII `unicode.ToTitle` is "upper-case a–z". Note that `prev` is the ORIGINAL rune,
  not the mapped one. Code points ≥ 128 are outside the fragment: the functions below are total
  on them (never separators, never changed) so that algebraic laws hold for every word, but
  agreement with Go is claimed — and checked by the `title` operations of the harness — only for
  words of ASCII code points.
-/
import Spg.Model.WordGen
namespace Spg.Title

/-- `isSeparator` on ASCII: everything except letters, digits and the underscore. -/
def isSep (c : Nat) : Bool :=
  if c ≥ 128 then false
  else if (48 ≤ c ∧ c ≤ 57) ∨ (97 ≤ c ∧ c ≤ 122) ∨ (65 ≤ c ∧ c ≤ 90) ∨ c = 95 then false
  else true

/-- `unicode.ToTitle` on ASCII. -/
def up (c : Nat) : Nat := if 97 ≤ c ∧ c ≤ 122 then c - 32 else c

/-- The `Map` loop, `prev` threaded through. -/
def go (prev : Nat) : Word → Word
  | [] => []
  | c :: cs => (if isSep prev then up c else c) :: go c cs

/-- `strings.Title` (ASCII fragment). -/
def title (w : Word) : Word := go 32 w

end Spg.Title
