/-
  Model of word_gen.go: NewWordList, WLRecipe.Generate, WLRecipe.Entropy, separator functions.
  A word is a list of characters. `strings.Title` is a parameter `title` (DESIGN.md §4.5).
  Go's map iteration order in the twin-removal pass is the explicit argument `order`.
-/
import Spg.Model.CharGen
namespace Spg

abbrev Word := List Nat

/-- First occurrences, in order (the keys of the `unique` map). -/
def dedupW : List Word → List Word
  | [] => []
  | w :: ws => w :: (dedupW ws).filter (· != w)

/-- The twin-removal pass of `NewWordList`, visiting the keys in `order` (any order the map
iteration may choose). `cur` is the map; a key deleted before it is reached is skipped
(`if unique[w]`), and a reached word `w` deletes `title w` when that is present and differs. -/
def removeTwins (title : Word → Word) : List Word → List Word → List Word
  | [], cur => cur
  | w :: rest, cur =>
    if cur.contains w then
      let c := title w
      if cur.contains c && c != w then removeTwins title rest (cur.filter (· != c))
      else removeTwins title rest cur
    else removeTwins title rest cur

/-- Insertion of a word into a list sorted by `compareOfLessAndEq`-free lexicographic order on
code points (equal to Go's byte order on valid UTF-8). -/
def wordLt : Word → Word → Bool
  | [], [] => false
  | [], _ :: _ => true
  | _ :: _, [] => false
  | a :: as, b :: bs => if a < b then true else if b < a then false else wordLt as bs

def insW (x : Word) : List Word → List Word
  | [] => [x]
  | y :: ys => if wordLt x y then x :: y :: ys else if x == y then y :: ys else y :: insW x ys

/-- Sorted, duplicate-free (`verifCanonical`). -/
def sortW (l : List Word) : List Word := l.foldr insW []

/-- `*WordList`. -/
structure WordList where
  words : List Word
  unCap : Nat
  deriving Repr, DecidableEq

/-- `NewWordList(list)`; `none` is the error for an empty input. `order` is the order in which
the second pass visits the distinct words. The third value is the number of duplicates
reported in the notice (0 = no notice). -/
def newWordListOrd (title : Word → Word) (input order : List Word) : Option (WordList × Nat) :=
  if input.isEmpty then none else
  let kept := removeTwins title order (dedupW input)
  let words := sortW kept
  some ({ words := words, unCap := (words.filter fun w => title w == w).length },
        input.length - words.length)

/-- With the map visited in first-occurrence order. -/
def newWordList (title : Word → Word) (input : List Word) : Option (WordList × Nat) :=
  newWordListOrd title input (dedupW input)

/-- A separator function the model can express. -/
inductive Sep where
  /-- `SeparatorFunc == nil`: the constant `SeparatorChar`, entropy 0 -/
  | char (s : Word)
  /-- a constant closure `func() { return s, 0 }` (e.g. `SFNone`, opgen's separators) -/
  | const (s : Word)
  /-- `NewSFFunction(r)` -/
  | recipe (r : CharRecipe)
  /-- a caller-written function: one bounded draw over `first :: others` picks the separator
  (the empty string may be among them), and a fixed entropy `log2 d` is reported -/
  | custom (first : Word) (others : List Word) (d : Int)
  deriving Repr

/-- The public fields of `WLRecipe` plus its list. -/
structure WLRecipe where
  list       : Option WordList
  length     : Int
  /-- `SeparatorChar`: the constant separator, used only when no function is set. -/
  sepChar    : Word := []
  /-- `SeparatorFunc` (`none` = nil). -/
  sepFunc    : Option Sep := none
  capitalize : String
  deriving Repr

/-- The separator `Generate` and `Entropy()` both go by: `SeparatorFunc` when it is set ("If nil
just use SeparatorChar"), the constant `SeparatorChar` otherwise. -/
def WLRecipe.sep (r : WLRecipe) : Sep :=
  match r.sepFunc with
  | some f => f
  | none => .char r.sepChar

/-- One call of the separator function: the separator and the integer `D` with
`entropy = log2 D` (`sfWrap` maps a failed generation to `("", 0)`, i.e. `D = 1`). -/
def Sep.call (cfg : Cfg) : Sep → Rand (Word × Int)
  | .char s => .pure (s, 1)
  | .const s => .pure (s, 1)
  | .recipe r => (r.genChars cfg).bind fun
      | .ok cs => .pure (cs, r.entropyD cfg)
      | .err _ => .pure ([], 1)
  | .custom first others d => .draw (others.length + 1) fun i => .pure ((first :: others).getD i [], d)

namespace WLRecipe
variable (cfg : Cfg) (title : Word → Word) (r : WLRecipe)

def size : Nat := match r.list with | none => 0 | some wl => wl.words.length

/-- The capitalisation choice: which positions get title-cased. -/
def capChoice (L : Nat) : Rand (Nat → Bool) :=
  if r.capitalize == "first" then .pure fun i => i == 0
  else if r.capitalize == "one" then .draw L fun w => .pure fun i => i == w
  else if r.capitalize == "random" then
    (Rand.drawMany 2 L).bind fun bits => .pure fun i => bits.getD i 0 == 1
  else if r.capitalize == "all" then .pure fun i => decide (i < L)
  else .pure fun _ => false

/-- The word/separator loop from position `i`, with `n` positions still to go. -/
def body (words : List Word) (caps : Nat → Bool) (L : Nat) : Nat → Nat → Rand (List (Token Nat))
  | _, 0 => .pure []
  | i, n + 1 =>
    .draw words.length fun j =>
      let w0 := words.getD j []
      let w := if caps i then title w0 else w0
      let atom : List (Token Nat) := if w.isEmpty then [] else [{ value := w, ttype := atomType }]
      if i + 1 < L then
        (r.sep.call cfg).bind fun (s, _) =>
          let st : List (Token Nat) := if s.isEmpty then [] else [{ value := s, ttype := sepType }]
          (body words caps L (i + 1) n).bind fun rest => .pure (atom ++ st ++ rest)
      else
        (body words caps L (i + 1) n).bind fun rest => .pure (atom ++ rest)

/-- Does every word of the list change under title-casing (`isAllCapitalizable`)? -/
def allCap : Bool := match r.list with | none => true | some wl => wl.unCap == 0

/-- The capitalisation factor of the entropy: `2^L` / `L` / 1. -/
def capFactor (L : Nat) : Int :=
  if allCap r then
    if r.capitalize == "random" then (2 : Int) ^ L
    else if r.capitalize == "one" then (L : Int)
    else 1
  else 1

/-- `WLRecipe.Entropy()`: calls the separator function once (when there is one) and combines.
The result is the integer `D` with `Entropy = log2 D = L·log2 size + cap + (L-1)·sepEntropy`. -/
def entropy : Rand Int :=
  let L := r.length.toNat
  let base : Int := ((size r : Nat) : Int) ^ L * capFactor r L
  match r.sep with
  | .char _ => .pure base
  | s => (s.call cfg).bind fun (_, d) => .pure (base * d ^ (L - 1))

/-- `WLRecipe.Generate()`. -/
def generate : Rand (Res Password) :=
  match r.list with
  | none => .pure (.err .noList)
  | some wl =>
    if wl.words.isEmpty then .pure (.err .noList)
    else if r.length < 1 then .pure (.err .length)
    else
      let L := r.length.toNat
      (capChoice r L).bind fun caps =>
      (body cfg title r wl.words caps L 0 L).bind fun toks =>
      (entropy cfg r).bind fun d =>
      .pure (.ok { tokens := toks, entD := d })

/-- `entropySimple` warnings printed by one call of the separator function. -/
def sepWarnings : Nat :=
  match r.sep with
  | .recipe cr => cr.generateWarnings cfg
  | _ => 0

/-- Warnings printed by `Generate()`: one batch per separator call (`L-1` gaps plus the entropy sample). -/
def generateWarnings : Nat :=
  if size r == 0 || r.length < 1 then 0 else r.length.toNat * sepWarnings cfg r

end WLRecipe
end Spg
