/-
  Model of token.go and password.go. A token value is a list of *characters* in the sense of
  `strings.Split(s, "")` (one chunk per UTF-8 sequence, each invalid byte its own chunk); the
  chunk type `α` is arbitrary, so nothing below depends on UTF-8 details. `explode` models the
  chunking itself on bytes and is validated against Go separately.
-/
namespace Spg

/-- `Token{value, tType}`; the type is the raw byte (`SeparatorType = 0`, `AtomType = 1`). -/
structure Token (α : Type) where
  value : List α
  ttype : Nat
  deriving Repr, DecidableEq

def atomType : Nat := 1
def sepType : Nat := 0

namespace Tokens
variable {α : Type}

/-- `isAllOfType(AtomType)`: the set of types present is exactly `{Atom}` (false for no tokens). -/
def isAllAtoms (ts : List (Token α)) : Bool :=
  !ts.isEmpty && ts.all fun t => t.ttype == atomType

/-- `maxTokenLen`, in characters. -/
def maxLen (ts : List (Token α)) : Nat := ts.foldl (fun m t => max m t.value.length) 0

/-- Position `i` carries an atom when `i` is even and a separator when `i` is odd. -/
def altFrom : Nat → List (Token α) → Bool
  | _, [] => true
  | i, t :: ts => (if i % 2 = 0 then t.ttype == atomType else t.ttype == sepType) && altFrom (i + 1) ts

/-- `isAlternatingTokens`: odd length, exactly the two types Atom and Separator present,
atoms at even and separators at odd positions. -/
def isAlternating (ts : List (Token α)) : Bool :=
  ts.length % 2 == 1 &&
  ts.any (fun t => t.ttype == atomType) && ts.any (fun t => t.ttype == sepType) &&
  ts.all (fun t => t.ttype == atomType || t.ttype == sepType) &&
  altFrom 0 ts

/-- `Tokens.Kind()`: 0 character, 1 variable atoms, 2 alternating, 3 full. -/
def kind (ts : List (Token α)) : Nat :=
  if isAllAtoms ts && maxLen ts == 1 then 0
  else if isAllAtoms ts then 1
  else if isAlternating ts then 2
  else 3

/-- `MakeIndices()`: `none` is the error "token too large". No tokens give the empty (nil) index. -/
def makeIndices (ts : List (Token α)) : Option (List Nat) :=
  if ts.isEmpty then some [] else
  match kind ts with
  | 0 => some [0]
  | 1 => if ts.all (fun t => t.value.length ≤ 255) then some (1 :: ts.map (·.value.length)) else none
  | 2 => if ts.all (fun t => t.value.length ≤ 255) then some (2 :: ts.map (·.value.length)) else none
  | _ =>
    if ts.all (fun t => t.value.length ≤ 255) then
      some (3 :: ts.flatMap fun t => [t.value.length, t.ttype])
    else none

/-- Cut consecutive slices of the given lengths; `none` = "password too short for indices".
`typeOf i` gives the type of the `i`-th token. -/
def slices (typeOf : Nat → Nat) : Nat → List Nat → List α → Option (List (Token α))
  | _, [], _ => some []
  | i, l :: ls, chars =>
    if l > chars.length then none else
    match slices typeOf (i + 1) ls (chars.drop l) with
    | none => none
    | some ts => some ({ value := chars.take l, ttype := typeOf i } :: ts)

/-- Slices for a full index: pairs (length, type). -/
def slicesFull : List Nat → List α → Option (List (Token α))
  | l :: t :: rest, chars =>
    if l > chars.length then none else
    match slicesFull rest (chars.drop l) with
    | none => none
    | some ts => some ({ value := chars.take l, ttype := t } :: ts)
  | _, _ => some []

/-- `Tokenize(pw, ti, entropy)` on the characters of `pw`; `none` is an error return.
(The entropy is copied through unchanged and is not part of this function.) -/
def tokenize (chars : List α) (ti : List Nat) : Option (List (Token α)) :=
  match ti with
  | [] => none
  | 0 :: _ => some (chars.map fun c => { value := [c], ttype := atomType })
  | 1 :: ls => slices (fun _ => atomType) 0 ls chars
  | 2 :: ls => slices (fun i => if i % 2 = 1 then sepType else atomType) 0 ls chars
  | 3 :: ls => if ls.length % 2 ≠ 0 then none else slicesFull ls chars
  | _ :: _ => none

/-- `Password.String()` as characters. -/
def concat (ts : List (Token α)) : List α := ts.flatMap (·.value)

/-- `ofType`: `Atoms()` and `Separators()`. -/
def ofType (t : Nat) (ts : List (Token α)) : List (List α) :=
  (ts.filter fun x => x.ttype == t).map (·.value)

end Tokens

/-! ### `strings.Split(s, "")` on raw bytes -/

/-- Is `b` a UTF-8 continuation byte within `[lo, hi]`? -/
def inRange (b lo hi : Nat) : Bool := lo ≤ b && b ≤ hi

/-- Width of the UTF-8 sequence at the head of the byte list as Go's `utf8.DecodeRuneInString`
sees it; an invalid or truncated sequence has width 1. -/
def runeWidth : List Nat → Nat
  | [] => 0
  | b0 :: rest =>
    if b0 < 0x80 then 1
    else if b0 < 0xC2 then 1
    else if b0 < 0xE0 then
      match rest with
      | b1 :: _ => if inRange b1 0x80 0xBF then 2 else 1
      | _ => 1
    else if b0 < 0xF0 then
      match rest with
      | b1 :: b2 :: _ =>
        let lo := if b0 = 0xE0 then 0xA0 else 0x80
        let hi := if b0 = 0xED then 0x9F else 0xBF
        if inRange b1 lo hi && inRange b2 0x80 0xBF then 3 else 1
      | _ => 1
    else if b0 < 0xF5 then
      match rest with
      | b1 :: b2 :: b3 :: _ =>
        let lo := if b0 = 0xF0 then 0x90 else 0x80
        let hi := if b0 = 0xF4 then 0x8F else 0xBF
        if inRange b1 lo hi && inRange b2 0x80 0xBF && inRange b3 0x80 0xBF then 4 else 1
      | _ => 1
    else 1

/-- `strings.Split(s, "")`: one chunk per character, each invalid byte its own chunk. -/
def explode : Nat → List Nat → List (List Nat)
  | 0, _ => []
  | _, [] => []
  | fuel + 1, b :: bs =>
    let w := runeWidth (b :: bs)
    (b :: bs).take w :: explode fuel ((b :: bs).drop w)

end Spg

/-! ### `Tokenize` transcribed with Go's run-time checks made explicit

The functions above are the specification. The ones below follow token.go statement by
statement, and every indexing or slicing operation that Go checks at run time is an explicit
`panic` outcome here, so that "Tokenize never panics" is a theorem about this transcription
(C12) rather than an artefact of totalised definitions. The driver executes this version. -/
namespace Spg

/-- Outcome of the transcribed `Tokenize`. -/
inductive TokRes (α : Type) where
  | ok (ts : List (Token α))
  | err
  | panic
  deriving Repr, DecidableEq

namespace TokenizeGo
variable {α : Type}

/-- Go slice expression `chars[a:b]`: run-time panic unless `a ≤ b ≤ len(chars)`. -/
def slice (chars : List α) (a b : Nat) : Option (List α) :=
  if a ≤ b ∧ b ≤ chars.length then some ((chars.drop a).take (b - a)) else none

/-- Go indexed store `tokens[i] = t` into a slice of length `n`, represented by the list of
stores made so far (in index order): panics unless `i < n`. -/
def store (n i : Nat) : Bool := decide (i < n)

/-- `for i, tl := range ti[1:] { … }` of the VarAtoms and Alternating cases. `n = len(ti)-1`
is the length of the `tokens` slice. -/
def loopVar (chars : List α) (typeOf : Nat → Nat) (n : Nat) : Nat → Nat → List Nat → TokRes α
  | _, _, [] => .ok []
  | i, prevPos, tl :: rest =>
    let newPos := prevPos + tl
    if newPos > chars.length then .err
    else
      match slice chars prevPos newPos with
      | none => .panic
      | some v =>
        if !store n i then .panic
        else
          match loopVar chars typeOf n (i + 1) newPos rest with
          | .ok ts => .ok ({ value := v, ttype := typeOf i } :: ts)
          | .err => .err
          | .panic => .panic

/-- `for i := 1; i < len(ti); i += 2 { tl := ti[i]; tt := ti[i+1]; … tokens[i/2] = … }` of the
Full case; `fuel` bounds the iterations, `n = len(ti)/2` is the length of `tokens`. -/
def loopFull (chars : List α) (ti : List Nat) (n : Nat) : Nat → Nat → Nat → TokRes α
  | 0, _, _ => .ok []
  | fuel + 1, i, prevPos =>
    if i < ti.length then
      match ti[i]?, ti[i + 1]? with
      | some tl, some tt =>
        let newPos := prevPos + tl
        if newPos > chars.length then .err
        else
          match slice chars prevPos newPos with
          | none => .panic
          | some v =>
            if !store n (i / 2) then .panic
            else
              match loopFull chars ti n fuel (i + 2) newPos with
              | .ok ts => .ok ({ value := v, ttype := tt } :: ts)
              | .err => .err
              | .panic => .panic
      | _, _ => .panic          -- index out of range
    else .ok []

/-- `Tokenize(pw, ti, entropy)` on the characters of `pw`, as the code executes it. -/
def tokenize (chars : List α) (ti : List Nat) : TokRes α :=
  match ti with
  | [] => .err
  | k :: rest =>
    if k = 0 then .ok (chars.map fun c => { value := [c], ttype := atomType })
    else if k = 1 then loopVar chars (fun _ => atomType) rest.length 0 0 rest
    else if k = 2 then loopVar chars (fun i => if i % 2 = 1 then sepType else atomType) rest.length 0 0 rest
    else if k = 3 then
      if (k :: rest).length % 2 ≠ 1 then .err
      else loopFull chars (k :: rest) ((k :: rest).length / 2) (k :: rest).length 1 0
    else .err

end TokenizeGo
end Spg
