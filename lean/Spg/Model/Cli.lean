/-
  Model of cmd/opgen: Go `flag` parsing for the two sub-commands, the three word tables and the
  defaults (regenerated from the source into `Spg.Generated.Cli`), and the mapping from a command
  line to the library recipe it denotes (DESIGN.md C17).
-/
import Spg.Model.WordGen
namespace Spg.Cli
open Spg

inductive FlagKind where
  | int | str | bool
  deriving Repr, DecidableEq

/-- The tables and defaults of opgen, as data. -/
structure Tables where
  /-- class word ↦ flag value (`ccMap`) -/
  ccMap      : List (String × Nat)
  /-- separator word ↦ separator (`separatorMap`): `"const:<text>"` or `"preset:<name>"` -/
  sepMap     : List (String × String)
  /-- capitalisation word ↦ scheme string (`capitalizeMap`) -/
  capMap     : List (String × String)
  /-- flag definitions of `opgen characters`: name, kind, default (as text) -/
  charFlags  : List (String × FlagKind × String)
  /-- flag definitions of `opgen words` -/
  wordFlags  : List (String × FlagKind × String)
  defAllow   : List String
  defRequire : List String
  defExclude : List String
  exitCatchall : Nat
  exitUsage    : Nat
  deriving Repr, DecidableEq

/-- Result of parsing one flag set (`flag.ExitOnError`). -/
inductive Parsed where
  | ok (vals : List (String × String))
  | help      -- `-h` / `-help`: usage on stderr, exit 0
  | bad       -- undefined flag, bad syntax, missing or unparsable value: exit 2
  deriving Repr

/-! String handling is done on character lists with plain structural recursion, so that the
kernel can evaluate the parser (`decide`) and the driver runs the very same definitions. -/

def parseBool (s : String) : Option Bool :=
  if s ∈ ["1", "t", "T", "TRUE", "true", "True"] then some true
  else if s ∈ ["0", "f", "F", "FALSE", "false", "False"] then some false
  else none

def digitsVal : List Char → Nat → Option Nat
  | [], acc => some acc
  | c :: cs, acc => if '0' ≤ c ∧ c ≤ '9' then digitsVal cs (acc * 10 + (c.toNat - 48)) else none

/-- Decimal integers only (the harness generates nothing else): optional `-`, at least one digit. -/
def parseInt (s : String) : Option Int :=
  match s.toList with
  | [] => none
  | '-' :: [] => none
  | '-' :: cs => (digitsVal cs 0).map fun n => -(n : Int)
  | cs => (digitsVal cs 0).map fun n => (n : Int)

/-- Split at the first occurrence of `sep`: the part before, and (if `sep` occurs) the part after. -/
def splitFirst (sep : Char) : List Char → List Char × Option (List Char)
  | [] => ([], none)
  | c :: cs =>
    if c = sep then ([], some cs)
    else
      let (a, b) := splitFirst sep cs
      (c :: a, b)

/-- Split at every occurrence of `sep` (`strings.Split`). -/
def splitAll (sep : Char) : List Char → List (List Char)
  | [] => [[]]
  | c :: cs =>
    match splitAll sep cs with
    | [] => [[c]]
    | w :: ws => if c = sep then [] :: w :: ws else (c :: w) :: ws

/-- Split `name[=value]` at the first `=`. -/
def splitEq (s : List Char) : String × Option String :=
  let (n, v) := splitFirst '=' s
  (String.ofList n, v.map String.ofList)

def setVal (vals : List (String × String)) (k v : String) : List (String × String) :=
  (k, v) :: vals.filter (·.1 != k)

/-- `FlagSet.Parse`: flags until the first non-flag argument or `--`. -/
def parseFlags (defs : List (String × FlagKind × String)) :
    Nat → List String → List (String × String) → Parsed
  | 0, _, vals => .ok vals
  | _, [], vals => .ok vals
  | fuel + 1, a :: rest, vals =>
    match a.toList with
    | '-' :: c :: cs =>
      -- `--` alone terminates the flags; otherwise one or two dashes introduce a flag
      let body : List Char := if c = '-' then cs else c :: cs
      if c = '-' ∧ cs = [] then .ok vals
      else
        match body with
        | [] => .bad
        | '-' :: _ => .bad
        | '=' :: _ => .bad
        | _ =>
          let (name, value) := splitEq body
          match defs.lookup name with
          | none => if name == "help" || name == "h" then .help else .bad
          | some (.bool, _) =>
            match value with
            | none => parseFlags defs fuel rest (setVal vals name "true")
            | some v =>
              match parseBool v with
              | some b => parseFlags defs fuel rest (setVal vals name (if b then "true" else "false"))
              | none => .bad
          | some (kind, _) =>
            let next : Option (String × List String) :=
              match value with
              | some v => some (v, rest)
              | none => match rest with
                | v :: rest' => some (v, rest')
                | [] => none
            match next with
            | none => .bad
            | some (v, rest') =>
              if kind == .int && (parseInt v).isNone then .bad
              else parseFlags defs fuel rest' (setVal vals name v)
    | _ => .ok vals        -- not a flag (shorter than two characters, or no leading dash)

def getVal (defs : List (String × FlagKind × String)) (vals : List (String × String)) (k : String) : String :=
  match vals.lookup k with
  | some v => v
  | none => match defs.lookup k with
    | some (_, d) => d
    | none => ""

/-- `parseCharacterClasses`: strip spaces, split at commas, OR the known words; empty ⇒ defaults. -/
def parseClasses (t : Tables) (value : String) (defaults : List String) : Nat :=
  let classes := if value != "" then (splitAll ',' (value.toList.filter (· != ' '))).map String.ofList else defaults
  classes.foldl (fun acc c => match t.ccMap.lookup c with | some f => acc ||| f | none => acc) 0

/-- What a command line denotes. -/
inductive Action where
  | usage                          -- exit `exitUsage`; only the usage text may appear on stdout
  | help                           -- exit 0; nothing on stdout
  | chars (r : CharRecipe) (entropy : Bool)
  /-- list selector (`"words"`, `"syllables"`, `"file"`), length, separator, scheme -/
  | words (list : String) (length : Int) (sep : String) (cap : String) (entropy : Bool)
  deriving Repr

/-- The separator text of `separatorMap[value]` (`""` when the word is unknown: a nil function). -/
def sepOf (t : Tables) (w : String) : String := (t.sepMap.lookup w).getD "nil"

def capOf (t : Tables) (w : String) : String := (t.capMap.lookup w).getD ""

/-- `main`: argv without the program name. -/
def action (t : Tables) (argv : List String) : Action :=
  match argv with
  | [] => .usage
  | a0 :: rest =>
    -- `flag.Parse()` on the empty global flag set sees argv first
    let global : Parsed := parseFlags [] 1 [a0] []
    match global with
    | .help => .help
    | .bad => .usage
    | .ok _ =>
      if a0 == "characters" then
        match parseFlags t.charFlags (rest.length + 1) rest [] with
        | .help => .help
        | .bad => .usage
        | .ok vals =>
          let g := getVal t.charFlags vals
          .chars { length := (parseInt (g "length")).getD 0,
                   allow := parseClasses t (g "allow") t.defAllow,
                   require := parseClasses t (g "require") t.defRequire,
                   exclude := parseClasses t (g "exclude") t.defExclude,
                   allowChars := [], requireSets := [], excludeChars := [] }
                 (g "entropy" == "true")
      else if a0 == "words" then
        match parseFlags t.wordFlags (rest.length + 1) rest [] with
        | .help => .help
        | .bad => .usage
        | .ok vals =>
          let g := getVal t.wordFlags vals
          let list := if g "file" != "" then "file" else g "list"
          if list != "file" && list != "words" && list != "syllables" then .usage
          else .words list ((parseInt (g "size")).getD 0) (sepOf t (g "separator"))
                      (capOf t (g "capitalize")) (g "entropy" == "true")
      else .usage

end Spg.Cli
