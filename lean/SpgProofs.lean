import SpgProofs.Properties.C01
import SpgProofs.Properties.C03
import SpgProofs.Properties.C08
import SpgProofs.Properties.C10
import SpgProofs.Properties.C11
import SpgProofs.Properties.C12
