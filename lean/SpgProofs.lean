import SpgProofs.Properties.C01
