import Spg.Driver

/-- Read operations from stdin, one per line; write one result line per operation. -/
partial def loop (env : Spg.Driver.Env) (hin hout : IO.FS.Stream) : IO Unit := do
  let line ← hin.getLine
  if line.isEmpty then return ()
  hout.putStrLn (Spg.Driver.exec env line)
  loop env hin hout

def main : IO Unit := do
  let hin ← IO.getStdin
  let hout ← IO.getStdout
  loop Spg.Driver.mkEnv hin hout
  hout.flush
