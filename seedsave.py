#!/usr/bin/env python3
"""seedsave.py <name> <outdir> <property> <demo run regex> <needs> <caught-by summary>"""
import json, os, shutil, sys
name, out, prop, run, needs, caught = sys.argv[1:7]
d = os.path.join('/verif/seeded', name)
os.makedirs(d, exist_ok=True)
for f in ('patch.diff', 'demo_test.go', 'notes.md'):
    if os.path.exists(os.path.join(out, f)):
        shutil.copy(os.path.join(out, f), os.path.join(d, f))
meta = {
    "property": prop,
    "source": "written by an independent sub-agent given only the property text and a scratch worktree",
    "needs_to_manifest": needs,
    "confirmed": {
        "how": "./seedverify.sh (scratch worktree of /repo HEAD): patch applies; go build with and without -tags verif; existing test suite passes 3 times with the change; demonstration fails with the change and passes without it",
        "demo_cmd": "cp demo_test.go <repo root> && go test -vet=off -count=1 -run '%s' ." % run,
    },
    "checks_run": "git -C /repo apply patch.diff; ./check <id>; git -C /repo checkout -- .   (see seedrun.sh)",
    "result": caught,
}
json.dump(meta, open(os.path.join(d, 'meta.json'), 'w'), indent=1)
print("saved", d)
