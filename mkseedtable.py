#!/usr/bin/env python3
"""Regenerates the seeded-changes table of DESIGN.md (§13.8) from seeded/*/meta.json."""
import json, os, re
rows = []
for d in sorted(os.listdir('/verif/seeded')):
    m = json.load(open(f'/verif/seeded/{d}/meta.json'))
    rows.append((d, m['property'], m['needs_to_manifest'], m['result']))
tbl = "| seeded change | property | needs, to manifest | result |\n|---|---|---|---|\n"
for d, p, n, r in rows:
    tbl += "| `%s` | %s | %s | %s |\n" % (d, p, n.replace('|', '\\|'), r.replace('|', '\\|'))
s = open('/verif/DESIGN.md').read()
if '<!-- SEEDED-TABLE-BEGIN -->' in s:
    s = re.sub(r'<!-- SEEDED-TABLE-BEGIN -->.*?<!-- SEEDED-TABLE-END -->', '<!-- SEEDED-TABLE-BEGIN -->\n' + tbl.replace('\\', '\\\\') + '<!-- SEEDED-TABLE-END -->', s, flags=re.S)
else:
    a = s.index('| seeded change | property |')
    b = s.index('\n\n', a)
    s = s[:a] + '<!-- SEEDED-TABLE-BEGIN -->\n' + tbl + '<!-- SEEDED-TABLE-END -->' + s[b:]
open('/verif/DESIGN.md', 'w').write(s)
print(len(rows), "rows")
