#!/bin/bash
# seedverify.sh <id> <outdir> <demo run regex>: confirm a seeded change in a scratch worktree:
# applies cleanly to /repo HEAD, compiles with and without the tag, existing tests pass,
# the demonstration fails with it and passes without it.
set -u
ID=$1; OUT=$2; RUN=$3
export GOFLAGS=-mod=mod GOPROXY=off GOSUMDB=off GOTOOLCHAIN=local
W=/tmp/seedverify-$ID
git -C /repo worktree remove --force $W 2>/dev/null
git -C /repo worktree add -q $W HEAD || exit 2
cd $W
echo "== demo WITHOUT change"; cp $OUT/demo_test.go . ; go test -vet=off -count=1 -run "$RUN" . 2>&1 | tail -3; R0=${PIPESTATUS[0]}
rm -f demo_test.go
git apply $OUT/patch.diff || { echo "PATCH DOES NOT APPLY"; exit 2; }
echo "== build"; go build ./... && go build -tags verif ./... && echo build-ok
echo "== existing tests x3"; for i in 1 2 3; do go test -vet=off -count=1 ./... 2>&1 | grep -v "no test files" | tail -1; done
echo "== demo WITH change"; cp $OUT/demo_test.go . ; go test -vet=off -count=1 -run "$RUN" . 2>&1 | tail -4; R1=${PIPESTATUS[0]}
cd /; git -C /repo worktree remove --force $W
echo "demo exit without=$R0 with=$R1"
